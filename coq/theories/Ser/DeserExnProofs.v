(* Proofs for the error-class clause of C06: what the model of the constructor (Fields/SetChain.vset,
   Struct/Instance.construct) and the model of the deserializer (Ser/Deserialize.v) can raise. *)
From Coq Require Import ZArith QArith NArith String Ascii Bool Lia List.
Import ListNotations.
From TP Require Import Base.PyVal Base.PyEq Fields.FieldAst Fields.SetChain Fields.Doc Struct.Instance
  Ser.Json Ser.Serialize Ser.Deserialize Ser.DeserExn.
Local Open Scope Z_scope.

(* ------------------------------------------------------------------ tactics *)

(* H : <tree of matches with Ok/Raise leaves> = Raise x  |-  okx x = true *)
Ltac inv_raise_loop H :=
  first
    [ discriminate H
    | match type of H with Raise _ = Raise _ => inversion H; subst end
    | match type of H with
      | context [match ?t with _ => _ end] =>
          lazymatch t with
          | context [match _ with _ => _ end] => fail
          | _ => destruct t eqn:?; inv_raise_loop H
          end
      end
    | idtac ].
Ltac inv_raise H := unfold bind in H; inv_raise_loop H.

Lemma bind_raise {A B} (r : res A) (k : A -> res B) x :
  bind r k = Raise x -> r = Raise x \/ exists a, r = Ok a /\ k a = Raise x.
Proof. destruct r as [a|y]; cbn [bind]; intro H; [right; eauto | left; inversion H; reflexivity]. Qed.

Lemma mapM_raise {A B} (f : A -> res B) l x :
  mapM f l = Raise x -> exists a, In a l /\ f a = Raise x.
Proof.
  induction l as [|a l IH]; cbn [mapM]; [discriminate|].
  intro H. apply bind_raise in H as [H|(y & Hy & H)]; [exists a; split; [now left|exact H]|].
  apply bind_raise in H as [H|(ys & Hys & H)]; [|discriminate].
  destruct (IH H) as (b & Hb & Hf). exists b. split; [now right|exact Hf].
Qed.

Lemma mapR_raise {A B} (f : A -> res B) l x :
  mapR f l = Raise x -> exists a, In a l /\ f a = Raise x.
Proof.
  induction l as [|a l IH]; cbn [mapR]; [discriminate|].
  destruct (f a) as [y|z] eqn:Ea.
  - destruct (mapR f l) as [ys|z] eqn:El; [discriminate|].
    intro H. inversion H; subst. destruct (IH eq_refl) as (b & Hb & Hf). exists b. split; [now right|exact Hf].
  - intro H. inversion H; subst. exists a. split; [now left|exact Ea].
Qed.

(* ------------------------------------------------------------------ the constructor side *)

Section Ctor.
  Variable re_match : N -> pystr -> bool.
  Variable e : env.

  Lemma number_static_okx c v x :
    match multiplesOf c with Some m => negb (m =? 0) | None => true end = true ->
    number_static c v = Raise x -> okx x = true.
  Proof.
    intros Hwf H. unfold number_static in H. destruct (as_num v) as [n|]; [|inv_raise H; reflexivity].
    destruct (multiplesOf c) as [m|]; cbn [bind] in H.
    - apply negb_true_iff in Hwf. rewrite Hwf in H. inv_raise H; reflexivity.
    - inv_raise H; reflexivity.
  Qed.

  Lemma sign_check_okx s v x : sign_check s v = Raise x -> okx x = true.
  Proof. unfold sign_check. intro H. inv_raise H; reflexivity. Qed.

  Lemma number_chain_okx k s c v x :
    match multiplesOf c with Some m => negb (m =? 0) | None => true end = true ->
    number_chain k s c v = Raise x -> okx x = true.
  Proof.
    intros Hwf H. unfold number_chain in H.
    destruct k.
    - apply bind_raise in H as [H|(? & _ & H)]; [now apply sign_check_okx in H|].
      apply bind_raise in H as [H|(? & _ & H)]; [now apply number_static_okx in H|discriminate].
    - destruct (is_py_int v); [|inv_raise H; reflexivity].
      apply bind_raise in H as [H|(? & _ & H)]; [now apply number_static_okx in H|].
      apply bind_raise in H as [H|(? & _ & H)]; [now apply sign_check_okx in H|discriminate].
    - apply bind_raise in H as [H|(conv & _ & H)]; [inv_raise H; reflexivity|].
      destruct (is_py_float conv); [|inv_raise H; reflexivity].
      apply bind_raise in H as [H|(? & _ & H)]; [now apply number_static_okx in H|].
      apply bind_raise in H as [H|(? & _ & H)]; [now apply sign_check_okx in H|discriminate].
  Qed.

  Lemma string_chain_okx c v x : string_chain re_match c v = Raise x -> okx x = true.
  Proof. unfold string_chain. intro H. inv_raise H; reflexivity. Qed.

  Lemma boolean_chain_okx v x : boolean_chain v = Raise x -> okx x = true.
  Proof. unfold boolean_chain. intro H. inv_raise H; reflexivity. Qed.

  Lemma size_check_okx sz n x : size_check sz n = Raise x -> okx x = true.
  Proof. unfold size_check. intro H. inv_raise H; reflexivity. Qed.

  Lemma uniq_check_okx u l x : uniq_check u l = Raise x -> okx x = true.
  Proof. unfold uniq_check. intro H. inv_raise H; reflexivity. Qed.

  (* the outcomes of the options of a multi-field wrapper *)
  Definition all_okx (rs : list (res pyval)) : Prop := forall y, In (Raise y) rs -> okx y = true.

  Lemma all_okx_tail r rs : all_okx (r :: rs) -> all_okx rs.
  Proof. intros H y Hy. apply H. now right. Qed.

  Lemma allof_combine_okx rs x : all_okx rs -> allof_combine rs = Raise x -> okx x = true.
  Proof.
    induction rs as [|[a|y] rs IH]; cbn [allof_combine]; intros Hall H; [discriminate| |].
    - apply IH; [eapply all_okx_tail; eassumption|exact H].
    - inversion H; subst. apply Hall. now left.
  Qed.

  Lemma anyof_combine_okx rs x : all_okx rs -> anyof_combine rs = Raise x -> okx x = true.
  Proof.
    induction rs as [|[a|y] rs IH]; cbn [anyof_combine]; intros Hall H.
    - inversion H. reflexivity.
    - discriminate.
    - destruct (caught y).
      + apply IH; [eapply all_okx_tail; eassumption|exact H].
      + inversion H; subst. apply Hall. now left.
  Qed.

  Lemma oneof_combine_okx rs x : all_okx rs -> oneof_combine rs = Raise x -> okx x = true.
  Proof.
    induction rs as [|[a|y] rs IH]; cbn [oneof_combine]; intros Hall H; [discriminate| |].
    - destruct (oneof_combine rs) as [n|z] eqn:E; [discriminate|]. inversion H; subst.
      apply IH; [eapply all_okx_tail; eassumption|reflexivity].
    - destruct (caught y).
      + apply IH; [eapply all_okx_tail; eassumption|exact H].
      + inversion H; subst. apply Hall. now left.
  Qed.

  Lemma not_combine_okx rs x : all_okx rs -> not_combine rs = Raise x -> okx x = true.
  Proof.
    induction rs as [|[a|y] rs IH]; cbn [not_combine]; intros Hall H; [discriminate| |].
    - inversion H. reflexivity.
    - destruct (caught y).
      + apply IH; [eapply all_okx_tail; eassumption|exact H].
      + inversion H; subst. apply Hall. now left.
  Qed.

  Definition raises_okx (g : field) : Prop := forall v x, vset re_match e g v = Raise x -> okx x = true.

  Lemma options_all_okx fs v : Forall raises_okx fs -> all_okx (map (fun g => vset re_match e g v) fs).
  Proof.
    intros HF y Hy. apply in_map_iff in Hy as (g & Hg & Hin).
    rewrite Forall_forall in HF. exact (HF g Hin v y Hg).
  Qed.

  (* Array/Deque with positional items: items beyond the value are ignored *)
  Lemma seqpos_items_okx items : Forall raises_okx items -> forall l x,
    (fix pos (fs : list field) (vs : list pyval) {struct fs} : res (list pyval) :=
       match fs, vs with
       | [], _ => Ok vs
       | _ :: _, [] => Ok []
       | g :: fs', x :: vs' => y <- (vset re_match e g x) ;; ys <- pos fs' vs' ;; Ok (y :: ys)
       end) items l = Raise x -> okx x = true.
  Proof.
    induction 1 as [|g items Hg _ IH]; intros l x H; [discriminate|].
    destruct l as [|a l]; [discriminate|].
    apply bind_raise in H as [H|(y & _ & H)]; [exact (Hg _ _ H)|].
    apply bind_raise in H as [H|(ys & _ & H)]; [exact (IH _ _ H)|discriminate].
  Qed.

  (* Tuple with as many elements as item fields: value[i] never fails *)
  Lemma tuple_items_okx items : Forall raises_okx items -> forall l x,
    length items = length l ->
    (fix pos (fs : list field) (vs : list pyval) {struct fs} : res (list pyval) :=
       match fs, vs with
       | [], _ => Ok []
       | _ :: _, [] => Raise IndexError
       | g :: fs', x :: vs' => y <- (vset re_match e g x) ;; ys <- pos fs' vs' ;; Ok (y :: ys)
       end) items l = Raise x -> okx x = true.
  Proof.
    induction 1 as [|g items Hg _ IH]; intros l x Hlen H; [discriminate|].
    destruct l as [|a l]; [discriminate Hlen|].
    apply bind_raise in H as [H|(y & _ & H)]; [exact (Hg _ _ H)|].
    apply bind_raise in H as [H|(ys & _ & H)]; [|discriminate].
    apply (IH l x); [now inversion Hlen|exact H].
  Qed.

  (* every rejection by the model of a field's __set__ chain is a TypeError/ValueError (or the model declining) *)
  Theorem vset_okx f : wf_field f = true -> raises_okx f.
  Proof.
    induction f using field_ind'; intros Hwf v x HR; cbn [vset] in HR; cbn [wf_field] in Hwf.
    - (* FNumber *) eapply number_chain_okx; eassumption.
    - eapply string_chain_okx; eassumption.
    - eapply boolean_chain_okx; eassumption.
    - inv_raise HR; reflexivity.
    - discriminate.
    - inv_raise HR; reflexivity.
    - inv_raise HR; reflexivity.
    - (* FSeqAny *)
      destruct (seq_items k v) as [l|]; [|inversion HR; reflexivity].
      apply bind_raise in HR as [HR|(? & _ & HR)]; [now apply uniq_check_okx in HR|].
      apply bind_raise in HR as [HR|(? & _ & HR)]; [now apply size_check_okx in HR|discriminate].
    - (* FSeqEach *)
      destruct (seq_items k v) as [l|]; [|inversion HR; reflexivity].
      apply bind_raise in HR as [HR|(? & _ & HR)]; [now apply uniq_check_okx in HR|].
      apply bind_raise in HR as [HR|(? & _ & HR)]; [now apply size_check_okx in HR|].
      apply bind_raise in HR as [HR|(? & _ & HR)]; [|discriminate].
      apply mapM_raise in HR as (a & _ & Ha). exact (IHf Hwf _ _ Ha).
    - (* FSeqPos *)
      destruct (seq_items k v) as [l|]; [|inversion HR; reflexivity].
      apply bind_raise in HR as [HR|(? & _ & HR)]; [now apply uniq_check_okx in HR|].
      apply bind_raise in HR as [HR|(? & _ & HR)]; [now apply size_check_okx in HR|].
      match type of HR with (if ?c then _ else _) = _ => destruct c end; [inversion HR; reflexivity|].
      apply bind_raise in HR as [HR|(? & _ & HR)]; [|discriminate].
      eapply seqpos_items_okx; [|exact HR].
      rewrite forallb_forall in Hwf. rewrite Forall_forall in *. intros g Hg. apply H; auto.
    - (* FSet, no item field *)
      destruct v; try (inversion HR; reflexivity).
      apply bind_raise in HR as [HR|(? & _ & HR)]; [now apply size_check_okx in HR|].
      cbn [bind] in HR. discriminate.
    - (* FSet with an item field *)
      destruct v; try (inversion HR; reflexivity).
      apply bind_raise in HR as [HR|(? & _ & HR)]; [now apply size_check_okx in HR|].
      apply bind_raise in HR as [HR|(? & _ & HR)]; [|discriminate].
      apply bind_raise in HR as [HR|(? & _ & HR)]; [|discriminate].
      apply mapM_raise in HR as (a & _ & Ha). exact (IHf Hwf _ _ Ha).
    - (* FTuple *)
      apply andb_true_iff in Hwf as [Hne Hwf].
      assert (HF : Forall raises_okx fs).
      { rewrite forallb_forall in Hwf. rewrite Forall_forall in *. intros g Hg. apply H; auto. }
      destruct v; try (inversion HR; reflexivity).
      apply bind_raise in HR as [HR|(? & _ & HR)]; [now apply uniq_check_okx in HR|].
      destruct fs as [|g [|g' fs]]; [discriminate Hne| |].
      + apply bind_raise in HR as [HR|(? & _ & HR)]; [|discriminate].
        apply mapM_raise in HR as (a & _ & Ha). inversion HF; subst. eauto.
      + match type of HR with (if negb ?c then _ else _) = _ => destruct c eqn:Elen end;
          cbn [negb] in HR; [|inversion HR; reflexivity].
        apply bind_raise in HR as [HR|(? & _ & HR)]; [|discriminate].
        eapply tuple_items_okx; [exact HF| |exact HR].
        apply Z.eqb_eq in Elen. unfold lenZ in Elen. now apply Nat2Z.inj in Elen.
    - (* FMapAny *)
      destruct v; try (inversion HR; reflexivity).
      apply bind_raise in HR as [HR|(? & _ & HR)]; [now apply size_check_okx in HR|discriminate].
    - (* FMapKV *)
      apply andb_true_iff in Hwf as [Hk Hv].
      destruct v; try (inversion HR; reflexivity).
      apply bind_raise in HR as [HR|(? & _ & HR)]; [now apply size_check_okx in HR|].
      apply bind_raise in HR as [HR|(? & _ & HR)]; [|discriminate].
      apply mapM_raise in HR as (p & _ & Hp).
      apply bind_raise in Hp as [Hp|(? & _ & Hp)]; [exact (IHf1 Hk _ _ Hp)|].
      apply bind_raise in Hp as [Hp|(? & _ & Hp)]; [exact (IHf2 Hv _ _ Hp)|discriminate].
    - (* FAllOf *)
      assert (HF : Forall raises_okx fs).
      { rewrite forallb_forall in Hwf. rewrite Forall_forall in *. intros g Hg. apply H; auto. }
      apply bind_raise in HR as [HR|(? & _ & HR)]; [|discriminate].
      eapply allof_combine_okx; [|exact HR]. now apply options_all_okx.
    - (* FAnyOf *)
      assert (HF : Forall raises_okx fs).
      { rewrite forallb_forall in Hwf. rewrite Forall_forall in *. intros g Hg. apply H; auto. }
      eapply anyof_combine_okx; [|exact HR]. now apply options_all_okx.
    - (* FOneOf *)
      assert (HF : Forall raises_okx fs).
      { rewrite forallb_forall in Hwf. rewrite Forall_forall in *. intros g Hg. apply H; auto. }
      apply bind_raise in HR as [HR|(n & _ & HR)].
      + eapply oneof_combine_okx; [|exact HR]. now apply options_all_okx.
      + destruct (Nat.eqb n 1); [discriminate|inversion HR; reflexivity].
    - (* FNot *)
      assert (HF : Forall raises_okx fs).
      { rewrite forallb_forall in Hwf. rewrite Forall_forall in *. intros g Hg. apply H; auto. }
      apply bind_raise in HR as [HR|(? & _ & HR)]; [|discriminate].
      eapply not_combine_okx; [|exact HR]. now apply options_all_okx.
    - (* FClassRef *) inv_raise HR; reflexivity.
  Qed.
End Ctor.

(* ------------------------------------------------------------------ Structure.__init__ *)

Lemma find_field_in l n fd : find_field l n = Some fd -> In fd l.
Proof.
  induction l as [|d l IH]; cbn [find_field]; [discriminate|].
  destruct (pystr_eqb (fd_name d) n); intro H; [inversion H; now left|right; auto].
Qed.

Lemma find_class_in (e : env) n c : find_class e n = Some c -> In c e.
Proof.
  induction e as [|d e IH]; cbn [find_class]; [discriminate|].
  destruct (pystr_eqb (c_name d) n); intro H; [inversion H; now left|right; auto].
Qed.

Section Construct.
  Variable re_match : N -> pystr -> bool.
  Variable e : env.

  Lemma setattr_okx c inst a n v a' x :
    class_all wf_field c = true -> setattr re_match e c inst a n v = (a', Raised x) -> okx x = true.
  Proof.
    intros Hwf H. unfold setattr in H.
    destruct (c_immutable c && inst); [inversion H; reflexivity|].
    destruct (find_field (c_fields c) n) as [fd|] eqn:Ef.
    - destruct (c_ignore_none c && is_none_val v && negb (is_required c n)); [discriminate|].
      destruct (vset re_match e (fd_field fd) v) as [nf|y] eqn:Ev.
      + destruct (fd_immutable fd && alist_has a n); [inversion H; reflexivity|].
        destruct (inst && negb (hook_ok (c_hook c) (alist_set a n nf))); [inversion H; reflexivity|discriminate].
      + inversion H; subst. eapply vset_okx; [|exact Ev].
        unfold class_all in Hwf. rewrite forallb_forall in Hwf. apply Hwf. eapply find_field_in; eassumption.
    - destruct (c_additional c); [|inversion H; reflexivity].
      destruct (c_ignore_none c && is_none_val v && negb (is_required c n)); discriminate.
  Qed.

  Lemma set_all_okx c : class_all wf_field c = true -> forall kw a x,
    set_all re_match e c a kw = Raise x -> okx x = true.
  Proof.
    intros Hwf. induction kw as [|[n v] kw IH]; intros a x H; cbn [set_all] in H; [discriminate|].
    destruct (setattr re_match e c false a n v) as [a' [|y]] eqn:Es; [eauto|].
    inversion H; subst. eapply setattr_okx; eassumption.
  Qed.

  (* every rejection by the model of the constructor is a TypeError/ValueError (or the model declining) *)
  Theorem construct_okx c kw x :
    class_all wf_field c = true -> construct re_match e c kw = Raise x -> okx x = true.
  Proof.
    intros Hwf H. unfold construct in H.
    destruct (has_dup (map fst kw)); [inversion H; reflexivity|].
    destruct (negb (bind_ok c kw)); [inversion H; reflexivity|].
    apply bind_raise in H as [H|(a0 & _ & H)]; [eapply set_all_okx; eassumption|].
    apply bind_raise in H as [H|(a1 & _ & H)]; [eapply set_all_okx; eassumption|].
    apply bind_raise in H as [H|(a2 & _ & H)]; [eapply set_all_okx; eassumption|].
    destruct (hook_ok (c_hook c) a2); [discriminate|inversion H; reflexivity].
  Qed.
End Construct.

(* ------------------------------------------------------------------ the deserializer side *)

Section Deser.
  Variable re_match : N -> pystr -> bool.
  Variable e : env.
  Variable ens : enums.
  Variable fl : dflags.

  Lemma validate_weak_okx f v x :
    wf_field f = true -> validate_weak re_match e f v = Raise x -> okx x = true.
  Proof.
    intros Hwf H. destruct f; cbn [validate_weak] in H; cbn [wf_field] in Hwf;
      try (inv_raise H; reflexivity).
    - (* FNumber *)
      destruct k.
      + eapply number_static_okx; eassumption.
      + destruct (is_py_int v); [eapply number_static_okx; eassumption|inversion H; reflexivity].
      + apply bind_raise in H as [H|(conv & _ & H)]; [inv_raise H; reflexivity|].
        destruct (is_py_float conv); [eapply number_static_okx; eassumption|inversion H; reflexivity].
    - (* FString *)
      apply bind_raise in H as [H|(? & _ & H)]; [eapply string_chain_okx; eassumption|discriminate].
  Qed.

  Lemma deser_enum_cls_okx f cls members j x :
    f = FEnumCls cls members ->
    deser_enum_cls re_match e ens f cls members j = Raise x -> okx x = true.
  Proof.
    intros -> H. unfold deser_enum_cls in H.
    destruct (enum_by_value ens cls).
    - inv_raise H; reflexivity.
    - destruct j; try (apply bind_raise in H as [H|(? & _ & H)];
                       [eapply validate_weak_okx; [|exact H]; reflexivity|discriminate]).
      inv_raise H; reflexivity.
  Qed.

  (* a multi-field wrapper turns whatever an alternative raises into "does not match": it raises ValueError
     only (exceptions that are artefacts of the model pass through) *)
  Lemma multi_go_class (k : multikind) (dv : field -> res pyval) (n : nat) : forall gs des found failures x,
    (fix go (gs : list field) (des : pyval) (found : bool) (failures : nat) : res pyval :=
       match gs with
       | [] =>
           if Nat.eqb failures n && negb (match k with MNot => true | _ => false end)
           then Raise ValueError else Ok des
       | g :: t =>
           match dv g with
           | Ok d =>
               match k with
               | MAny => Ok d
               | MNot => go t d found (S failures)
               | MOne => if found then go t d found (S failures) else go t d true failures
               | MAll => go t d true failures
               end
           | Raise x =>
               if model_exn x then Raise x
               else match k with
                    | MAll => Raise ValueError
                    | _ => go t des found (S failures)
                    end
           end
       end) gs des found failures = Raise x -> x = ValueError \/ model_exn x = true.
  Proof.
    induction gs as [|g gs IH]; intros des found failures x H.
    - destruct (Nat.eqb failures n && _); [inversion H; now left|discriminate].
    - destruct (dv g) as [d|y].
      + destruct k; try discriminate; try (destruct found); eauto.
      + destruct (model_exn y) eqn:Ey; [inversion H; subst; now right|].
        destruct k; try (inversion H; now left); eauto.
  Qed.

  Lemma guard (j : pyval) (b : bool) (body : res pyval) x :
    match j, b with PNone, true => Ok PNone | _, _ => body end = Raise x -> body = Raise x.
  Proof. destruct j, b; intro H; try exact H; discriminate. Qed.

  Section WithRec.
    Variable rec : bool -> pystr -> pyval -> res pyval.

    Theorem wrapper_error_class ku ign j x fs f :
      f = FAnyOf fs \/ f = FOneOf fs \/ f = FAllOf fs \/ f = FNot fs ->
      deser_val re_match e ens rec ku ign f j = Raise x -> x = ValueError \/ model_exn x = true.
    Proof.
      intros [-> | [-> | [-> | ->]]] H; cbn [deser_val] in H; apply guard in H.
      - exact (multi_go_class MAny (fun g => deser_val re_match e ens rec ku false g j) (length fs) _ _ _ _ _ H).
      - exact (multi_go_class MOne (fun g => deser_val re_match e ens rec ku false g j) (length fs) _ _ _ _ _ H).
      - exact (multi_go_class MAll (fun g => deser_val re_match e ens rec ku false g j) (length fs) _ _ _ _ _ H).
      - exact (multi_go_class MNot (fun g => deser_val re_match e ens rec ku false g j) (length fs) _ _ _ _ _ H).
    Qed.

    (* [good]: TypeError/ValueError (or the model declining) *)
    Definition good (x : exn) : bool := okx x.

    Lemma okx_good x : okx x = true -> good x = true.
    Proof. exact (fun H => H). Qed.

    Lemma rewrap_good (r : res pyval) x :
      (forall y, r = Raise y -> good y = true) -> rewrap r = Raise x -> good x = true.
    Proof.
      intros Hr H. destruct r as [a|y]; [discriminate|]. cbn [rewrap] in H.
      destruct (is_te_ve y); inversion H; subst; [reflexivity|now apply Hr].
    Qed.

    Lemma rewrap_ve_good (r : res pyval) x :
      (forall y, r = Raise y -> good y = true) -> rewrap_ve r = Raise x -> good x = true.
    Proof.
      intros Hr H. destruct r as [a|y]; [discriminate|]. cbn [rewrap_ve] in H.
      destruct (is_ve y); inversion H; subst; [reflexivity|now apply Hr].
    Qed.

    Lemma build_seq_good t l x : build_seq t l = Raise x -> good x = true.
    Proof. destruct t; cbn [build_seq]; intro H; inv_raise H; reflexivity. Qed.

    Hypothesis rec_good : forall ku c j x, rec ku c j = Raise x -> good x = true.

    Definition dv_good (g : field) : Prop :=
      forall ku ign j x, deser_val re_match e ens rec ku ign g j = Raise x -> good x = true.

    (* the positional loop indexes value[i] only below the length test: it never runs out of elements *)
    Lemma positional_good ku items : Forall dv_good items -> forall l x,
      (length items <= length l)%nat ->
      (fix pos (fs : list field) (vs : list pyval) {struct fs} : res (list pyval) :=
         match fs with
         | [] => Ok vs
         | g :: fs' =>
             match vs with
             | [] => Raise IndexError
             | x :: vs' => y <- rewrap (deser_val re_match e ens rec ku false g x) ;; ys <- pos fs' vs' ;; Ok (y :: ys)
             end
         end) items l = Raise x -> good x = true.
    Proof.
      induction 1 as [|g items Hg _ IH]; intros l x Hlen H; [discriminate|].
      destruct l as [|a l]; [cbn [length] in Hlen; lia|].
      apply bind_raise in H as [H|(y & _ & H)].
      - eapply rewrap_good; [|exact H]. intros z Hz. exact (Hg _ _ _ _ Hz).
      - apply bind_raise in H as [H|(ys & _ & H)]; [|discriminate].
        apply (IH l x); [cbn [length] in Hlen; lia | exact H].
    Qed.

    Lemma positional_all_good ku items t j x : Forall dv_good items ->
      match list_like j with
      | None => Raise ValueError
      | Some l =>
          if (length l <? length items)%nat then Raise ValueError
          else
          r <- (fix pos (fs : list field) (vs : list pyval) {struct fs} : res (list pyval) :=
                  match fs with
                  | [] => Ok vs
                  | g :: fs' =>
                      match vs with
                      | [] => Raise IndexError
                      | x :: vs' => y <- rewrap (deser_val re_match e ens rec ku false g x) ;; ys <- pos fs' vs' ;; Ok (y :: ys)
                      end
                  end) items l ;;
          build_seq t r
      end = Raise x -> good x = true.
    Proof.
      intros HF H. destruct (list_like j) as [l|]; [|inversion H; reflexivity].
      destruct (Nat.ltb_spec (length l) (length items)) as [Hlt|Hge]; [inversion H; reflexivity|].
      apply bind_raise in H as [H|(r & _ & H)]; [|now apply build_seq_good in H].
      eapply positional_good; [exact HF|exact Hge|exact H].
    Qed.

    Lemma each_good ku g t j x : dv_good g ->
      match list_like j with
      | None => Raise ValueError
      | Some l => r <- mapR (fun x => rewrap (deser_val re_match e ens rec ku false g x)) l ;; build_seq t r
      end = Raise x -> good x = true.
    Proof.
      intros Hg H. destruct (list_like j) as [l|]; [|inversion H; reflexivity].
      apply bind_raise in H as [H|(r & _ & H)]; [|now apply build_seq_good in H].
      apply mapR_raise in H as (a & _ & Ha).
      eapply rewrap_good; [|exact Ha]. intros z Hz. exact (Hg _ _ _ _ Hz).
    Qed.

    Lemma plain_good t j x :
      match list_like j with None => Raise ValueError | Some l => build_seq t l end = Raise x -> good x = true.
    Proof. destruct (list_like j); intro H; [now apply build_seq_good in H|inversion H; reflexivity]. Qed.

    (* what deserialize_single_field can raise, by induction over the declaration *)
    Theorem deser_val_good f : wf_field f = true -> dv_good f.
    Proof.
      induction f using field_ind'; intros Hwf ku ign j x HR; cbn [deser_val] in HR; apply guard in HR;
        cbn [wf_field] in Hwf.
      - (* FNumber *)
        apply bind_raise in HR as [HR|(? & _ & HR)]; [|discriminate].
        apply okx_good. eapply validate_weak_okx; [|exact HR]. exact Hwf.
      - apply bind_raise in HR as [HR|(? & _ & HR)]; [|discriminate].
        apply okx_good. eapply validate_weak_okx; [|exact HR]. reflexivity.
      - apply bind_raise in HR as [HR|(? & _ & HR)]; [|discriminate].
        apply okx_good. eapply validate_weak_okx; [|exact HR]. reflexivity.
      - (* FNone *) inv_raise HR; reflexivity.
      - discriminate.
      - (* FEnumLit *)
        eapply rewrap_ve_good; [|exact HR]. intros y Hy.
        apply bind_raise in Hy as [Hy|(? & _ & Hy)]; [|discriminate].
        apply okx_good. eapply validate_weak_okx; [|exact Hy]. reflexivity.
      - (* FEnumCls *)
        eapply rewrap_ve_good; [|exact HR]. intros y Hy.
        apply okx_good. eapply deser_enum_cls_okx; [reflexivity|exact Hy].
      - (* FSeqAny *) destruct k; eapply plain_good; exact HR.
      - (* FSeqEach *) destruct k; (eapply each_good; [|exact HR]); apply IHf; assumption.
      - (* FSeqPos *)
        assert (HF : Forall dv_good fs).
        { rewrite forallb_forall in Hwf. rewrite Forall_forall in *. intros g Hg. apply H; auto. }
        destruct k; [exact (positional_all_good ku fs TList j x HF HR) | exact (positional_all_good ku fs TDeque j x HF HR)].
      - (* FSet, no item field *) eapply plain_good; exact HR.
      - (* FSet with an item field *) (eapply each_good; [|exact HR]); apply IHf; assumption.
      - (* FTuple *)
        apply andb_true_iff in Hwf as [_ Hwf].
        assert (HF : Forall dv_good fs).
        { rewrite forallb_forall in Hwf. rewrite Forall_forall in *. intros g Hg. apply H; auto. }
        destruct fs as [|g0 [|g1 fs']].
        + exact (positional_all_good ku [] TTuple j x HF HR).
        + (* one item field: every element *)
          eapply each_good; [|exact HR]. inversion HF; assumption.
        + exact (positional_all_good ku (g0 :: g1 :: fs') TTuple j x HF HR).
      - (* FMapAny *) inv_raise HR; reflexivity.
      - (* FMapKV *)
        apply andb_true_iff in Hwf as [Hk Hv].
        destruct j; try (inversion HR; reflexivity).
        apply bind_raise in HR as [HR|(r & _ & HR)].
        + apply mapR_raise in HR as (p & _ & Hp).
          apply bind_raise in Hp as [Hp|(? & _ & Hp)]; [exact (IHf1 Hk _ _ _ _ Hp)|].
          apply bind_raise in Hp as [Hp|(? & _ & Hp)]; [exact (IHf2 Hv _ _ _ _ Hp)|discriminate].
        + destruct (forallb _ r); [discriminate|inversion HR; reflexivity].
      - (* FAllOf *)
        destruct (multi_go_class MAll (fun g => deser_val re_match e ens rec ku false g j) (length fs) _ _ _ _ _ HR)
          as [->|Hm]; [reflexivity|]. unfold good, okx. rewrite Hm. now rewrite orb_true_r.
      - (* FAnyOf *)
        destruct (multi_go_class MAny (fun g => deser_val re_match e ens rec ku false g j) (length fs) _ _ _ _ _ HR)
          as [->|Hm]; [reflexivity|]. unfold good, okx. rewrite Hm. now rewrite orb_true_r.
      - (* FOneOf *)
        destruct (multi_go_class MOne (fun g => deser_val re_match e ens rec ku false g j) (length fs) _ _ _ _ _ HR)
          as [->|Hm]; [reflexivity|]. unfold good, okx. rewrite Hm. now rewrite orb_true_r.
      - (* FNot *)
        destruct (multi_go_class MNot (fun g => deser_val re_match e ens rec ku false g j) (length fs) _ _ _ _ _ HR)
          as [->|Hm]; [reflexivity|]. unfold good, okx. rewrite Hm. now rewrite orb_true_r.
      - (* FClassRef *) destruct j; try discriminate; eapply rec_good; exact HR.
    Qed.

    Lemma deser_fields_good ku ign fds : forall kv had x,
      (forall fd, In fd fds -> wf_field (fd_field fd) = true) ->
      deser_fields re_match e ens rec ku ign fds kv had = Raise x -> good x = true.
    Proof.
      induction fds as [|fd fds IH]; intros kv had x Hall H; cbn [deser_fields] in H.
      - destruct had; [inversion H; reflexivity|discriminate].
      - assert (Hall' : forall fd', In fd' fds -> wf_field (fd_field fd') = true)
          by (intros fd' Hin; apply Hall; now right).
        destruct (dict_get kv (PStr (fd_name fd))) as [j|]; [|eauto].
        pose proof (Hall fd (or_introl eq_refl)) as Hwf.
        assert (Hj : forall y, deser_val re_match e ens rec ku ign (fd_field fd) j = Raise y -> good y = true)
          by (intros y Hy; exact (deser_val_good _ Hwf _ _ _ _ Hy)).
        destruct j; try (now eauto);
          (destruct (deser_val re_match e ens rec ku ign (fd_field fd) _) as [w|y] eqn:Ed;
           [apply bind_raise in H as [H|(? & _ & H)]; [eauto|discriminate]
           |match type of H with (if ?c then _ else _) = _ => destruct c end;
            [eauto|inversion H; subst; now apply Hj]]).
    Qed.
  End WithRec.
End Deser.

(* ------------------------------------------------------------------ deserialize_structure_internal *)

Section Struct.
  Variable re_match : N -> pystr -> bool.
  Variable e : env.
  Variable ens : enums.
  Variable fl : dflags.
  Hypothesis Hwf : env_wf e = true.

  Lemma class_fields_ok c : In c e ->
    forall fd, In fd (c_fields c) -> wf_field (fd_field fd) = true.
  Proof.
    intros Hc fd Hfd.
    unfold env_wf in Hwf. rewrite forallb_forall in Hwf. specialize (Hwf c Hc).
    unfold class_all in Hwf. rewrite forallb_forall in Hwf. exact (Hwf fd Hfd).
  Qed.

  Lemma class_wf c : In c e -> class_all wf_field c = true.
  Proof. intro Hc. unfold env_wf in Hwf. rewrite forallb_forall in Hwf. exact (Hwf c Hc). Qed.

  Lemma compact_eligible_in c fd : compact_eligible c = Some fd -> In fd (c_fields c).
  Proof.
    unfold compact_eligible. destruct (c_fields c) as [|d [|d' l]]; try discriminate.
    destruct (c_required c) as [|r [|r' l]]; try discriminate.
    destruct (pystr_eqb r (fd_name d) && negb (c_additional c)); [|discriminate].
    intro H. inversion H. now left.
  Qed.

  Theorem deser_struct_good : forall n ku cn j x,
    deser_struct re_match e ens fl n ku cn j = Raise x -> good x = true.
  Proof.
    induction n as [|n IH]; intros ku cn j x H; cbn [deser_struct] in H; [inversion H; reflexivity|].
    destruct (find_class e cn) as [c|] eqn:Ec; [|inversion H; reflexivity].
    apply find_class_in in Ec.
    assert (Hrec : forall ku c j x, deser_struct re_match e ens fl n ku c j = Raise x -> good x = true)
      by exact IH.
    destruct j;
      try (destruct (if df_compact fl then compact_eligible c else None) as [fd|] eqn:Ecp;
           [|inversion H; reflexivity];
           assert (Hfd : In fd (c_fields c))
             by (destruct (df_compact fl); [now apply compact_eligible_in|discriminate]);
           apply bind_raise in H as [H|(w & _ & H)];
           [exact (deser_val_good re_match e ens _ Hrec _ (class_fields_ok c Ec fd Hfd) _ _ _ _ H)
           |apply okx_good; eapply construct_okx; [|exact H]; now apply class_wf]).
    (* an object *)
    apply bind_raise in H as [H|(kw & _ & H)].
    - eapply deser_fields_good; [exact Hrec| |exact H]. now apply class_fields_ok.
    - destruct (str_keys _) as [ex|]; [|inversion H; reflexivity].
      apply okx_good. eapply construct_okx; [|exact H]. now apply class_wf.
  Qed.
End Struct.

(* ------------------------------------------------------------------ Deserializer(cls).deserialize *)

Section Top.
  Variable re_match : N -> pystr -> bool.
  Variable e : env.
  Variable ens : enums.
  Variable fl : dflags.

  (* every rejection is a TypeError/ValueError (or the model declining) *)
  Theorem deserialize_error_class n ku cn j x :
    env_wf e = true ->
    deserialize re_match e ens fl n ku cn j = Raise x -> is_te_ve x = true \/ model_exn x = true.
  Proof.
    intros Hwf H. unfold deserialize in H.
    assert (G : good x = true).
    { destruct (find_class e cn) as [c|]; [|inversion H; reflexivity].
      eapply deser_struct_good; [exact Hwf|exact H]. }
    unfold good, okx in G. now apply orb_true_iff in G.
  Qed.
End Top.

(* the full statement *)
Theorem error_class_holds : error_class_statement.
Proof.
  intros re_match e ens fl n ku cn j x Hwf H. exact (deserialize_error_class re_match e ens fl n ku cn j x Hwf H).
Qed.

(* Tuple[Integer, String] offered [1] (finding F9, fixed): ValueError, no longer the IndexError of value[1] *)
Example short_positional_document_is_value_error :
  deserialize (fun _ _ => true) [c06_cls (FTuple [c06_int; c06_str] false)] [] c06_flags 3 (Some true)
              (s2p "A") (c06_doc (PList [PNum (NInt 1)])) = Raise ValueError.
Proof. vm_compute. reflexivity. Qed.
