(* The tie between the GENERATED translation of typedpy/fields/enum.py (Gen/EnumGuards.v: what the
   source of Enum._validate / __set__ / serialize / deserialize says now) and the hand-written models
   the property theorems are proved on: Fields/SetChain.v (vset, FEnumLit / FEnumCls), Ser/Serialize.v
   (validate_weak, ser_enum_member) and Ser/Deserialize.v (deser_enum_cls).  Each lemma holds for EVERY
   enum class, EVERY declared subset of its members and EVERY value; a source edit that changes which
   names are accepted, what is stored, what is emitted or which exception class is raised makes exactly
   the matching lemma fail. *)
From Coq Require Import ZArith QArith NArith String Ascii Bool Lia List.
Import ListNotations.
From TP Require Import Base.PyVal Base.PyOps Base.PyOps2 Fields.FieldAst Fields.SetChain
     Ser.Serialize Ser.Deserialize Gen.EnumGuards.
Local Open Scope Z_scope.

(* ------------------------------------------------------------------ how an Enum declaration is seen as `self` *)

Definition member_val (cls : pystr) (m : pystr * pyval) : pyval := PEnum cls (fst m) (snd m).

(* Enum(values=E) / Enum(values=[E.A, ...]): [members] are the declared (allowed) members, [all] the
   members of the whole class E *)
Definition enumcls_self (cls : pystr) (members all : list (pystr * pyval)) (by_value : bool) (a : pystr) : pyval :=
  if pystr_eqb a (s2p "_is_enum") then PBool true
  else if pystr_eqb a (s2p "_valid_enum_values") then PList (map (member_val cls) members)
  else if pystr_eqb a (s2p "values") then PList (map (member_val cls) members)
  else if pystr_eqb a (s2p "serialization_by_value") then PBool by_value
  else if pystr_eqb a (s2p "_enum_class") then PDict (map (fun m => (PStr (fst m), member_val cls m)) all)
  else if pystr_eqb a (s2p "_enum_by_value") then PDict (map (fun m => (snd m, member_val cls m)) all)
  else PNone.

(* Enum['a', 'b', 3] *)
Definition enumlit_self (values : list pyval) (a : pystr) : pyval :=
  if pystr_eqb a (s2p "_is_enum") then PBool false
  else if pystr_eqb a (s2p "values") then PList values
  else if pystr_eqb a (s2p "serialization_by_value") then PBool false
  else PNone.

(* ------------------------------------------------------------------ facts about the operators *)

Lemma hashable_eq : forall v, py_hashable' v = py_hashable v.
Proof. intros v. reflexivity. Qed.   (* the two fixpoints have the same body *)

Lemma pystr_eqb_sym a b : pystr_eqb a b = pystr_eqb b a.
Proof.
  destruct (pystr_eqb a b) eqn:H1; destruct (pystr_eqb b a) eqn:H2; try reflexivity.
  - apply pystr_eqb_spec in H1. subst. rewrite pystr_eqb_refl in H2. discriminate.
  - apply pystr_eqb_spec in H2. subst. rewrite pystr_eqb_refl in H1. discriminate.
Qed.

Lemma py_eq_str_r : forall x s, py_eq x (PStr s) = true -> x = PStr s.
Proof.
  intros x s H. destruct x as [|b|n|t|l|l|l|fr l|kv|c n y|c at'|tg r]; cbn [py_eq as_num] in H; try discriminate H.
  apply pystr_eqb_spec in H. subst. reflexivity.
Qed.

Lemma py_eq_enum_r : forall x c n y, py_eq x (PEnum c n y) = true -> exists c' n' y', x = PEnum c' n' y'.
Proof.
  intros x c n y H. destruct x as [|b|n0|t|l|l|l|fr l|kv|c0 n0 y0|c0 at'|tg r]; cbn [py_eq as_num] in H; try discriminate H.
  eauto.
Qed.

Lemma getattr_name c n x : py_getattr (PEnum c n x) (s2p "name") = Ok (PStr n).
Proof. reflexivity. Qed.
Lemma getattr_value c n x : py_getattr (PEnum c n x) (s2p "value") = Ok x.
Proof. reflexivity. Qed.

Definition names_of (ms : list (pystr * pyval)) : list pyval := map (fun m => PStr (fst m)) ms.

Lemma mapM_names cls ms :
  mapM (fun x => py_getattr x (s2p "name")) (map (member_val cls) ms) = Ok (names_of ms).
Proof.
  induction ms as [|[n x] t IH]; [reflexivity|].
  cbn [map mapM names_of]. unfold member_val at 1. cbn [fst snd]. rewrite getattr_name. cbn [bind].
  fold (names_of t). rewrite IH. reflexivity.
Qed.

Lemma names_hashable ms : forallb py_hashable' (names_of ms) = true.
Proof. induction ms as [|[n x] t IH]; [reflexivity|]. cbn [names_of map forallb py_hashable' fst]. exact IH. Qed.

Lemma existsb_rev {A} (f : A -> bool) l : existsb f (rev l) = existsb f l.
Proof.
  induction l as [|x t IH]; [reflexivity|].
  cbn [rev existsb]. rewrite existsb_app, IH. cbn [existsb]. rewrite orb_false_r. apply orb_comm.
Qed.

Lemma py_in_cons x y l : py_in x (y :: l) = py_eq x y || py_in x l.
Proof. reflexivity. Qed.

(* de-duplication of a list of strings does not change membership *)
Lemma in_dedup_names : forall ms seen x,
    py_in x (py_dedup_aux seen (names_of ms)) = py_in x seen || py_in x (names_of ms).
Proof.
  induction ms as [|[n y] t IH]; intros seen x.
  - cbn [names_of map py_dedup_aux]. unfold py_in. rewrite existsb_rev. cbn [existsb]. rewrite orb_false_r. reflexivity.
  - change (names_of ((n, y) :: t)) with (PStr n :: names_of t).
    cbn [py_dedup_aux]. rewrite py_in_cons.
    destruct (py_in (PStr n) seen) eqn:Hs; rewrite IH.
    + destruct (py_eq x (PStr n)) eqn:He; [|reflexivity].
      apply py_eq_str_r in He. subst x. rewrite Hs. reflexivity.
    + rewrite py_in_cons. destruct (py_eq x (PStr n)); destruct (py_in x seen); reflexivity.
Qed.

Lemma in_names_str s ms : py_in (PStr s) (names_of ms) = alist_has ms s.
Proof.
  unfold alist_has. induction ms as [|[n y] t IH]; [reflexivity|].
  change (names_of ((n, y) :: t)) with (PStr n :: names_of t). rewrite py_in_cons.
  cbn [alist_get py_eq]. rewrite (pystr_eqb_sym n s). destruct (pystr_eqb s n); [reflexivity|].
  cbn [orb]. exact IH.
Qed.

Lemma in_names_nonstr x ms : (forall s, x <> PStr s) -> py_in x (names_of ms) = false.
Proof.
  intros Hx. induction ms as [|[n y] t IH]; [reflexivity|].
  change (names_of ((n, y) :: t)) with (PStr n :: names_of t). rewrite py_in_cons.
  destruct (py_eq x (PStr n)) eqn:He.
  - apply py_eq_str_r in He. exfalso. exact (Hx _ He).
  - cbn [orb]. exact IH.
Qed.

Lemma in_members_enum cls c n y ms :
  py_in (PEnum c n y) (map (member_val cls) ms) = pystr_eqb c cls && alist_has ms n.
Proof.
  unfold alist_has. induction ms as [|[k z] t IH].
  - cbn. rewrite andb_false_r. reflexivity.
  - change (map (member_val cls) ((k, z) :: t)) with (PEnum cls k z :: map (member_val cls) t).
    rewrite py_in_cons, IH. cbn [alist_get py_eq].
    rewrite (pystr_eqb_sym k n).
    destruct (pystr_eqb c cls); destruct (pystr_eqb n k); reflexivity.
Qed.

Lemma in_members_nonenum cls x ms :
  (forall c n y, x <> PEnum c n y) -> py_in x (map (member_val cls) ms) = false.
Proof.
  intros Hx. induction ms as [|[k z] t IH]; [reflexivity|].
  change (map (member_val cls) ((k, z) :: t)) with (PEnum cls k z :: map (member_val cls) t).
  rewrite py_in_cons.
  destruct (py_eq x (PEnum cls k z)) eqn:He.
  - apply py_eq_enum_r in He. destruct He as (c' & n' & y' & ->). exfalso. exact (Hx _ _ _ eq_refl).
  - cbn [orb]. exact IH.
Qed.

(* any(value is v for v in <declared members>): identity with a declared member; on this universe (no
   mix-in: a member equals itself only) it is what `value in <declared members>` decides with == *)
Definition is_mem_b (cls : pystr) (x : pyval) (m : pystr * pyval) : bool :=
  match x with PEnum c' n' _ => pystr_eqb c' cls && pystr_eqb n' (fst m) | _ => false end.

Lemma mapM_is_member cls x ms :
  mapM (py_is_member x) (map (member_val cls) ms) = Ok (map (is_mem_b cls x) ms).
Proof.
  induction ms as [|[k z] t IH]; [reflexivity|].
  cbn [map mapM]. unfold member_val at 1. cbn [py_is_member fst snd bind]. rewrite IH. reflexivity.
Qed.

Lemma any_is_enum cls c n y ms :
  py_any_is (PEnum c n y) (PList (map (member_val cls) ms)) = Ok (pystr_eqb c cls && alist_has ms n).
Proof.
  unfold py_any_is. cbn [py_seq_items bind]. rewrite mapM_is_member. cbn [bind]. f_equal.
  unfold alist_has. induction ms as [|[k z] t IH].
  - cbn. rewrite andb_false_r. reflexivity.
  - cbn [map existsb is_mem_b fst alist_get]. rewrite IH. rewrite (pystr_eqb_sym k n).
    destruct (pystr_eqb c cls); destruct (pystr_eqb n k); reflexivity.
Qed.

Lemma any_is_nonenum cls x ms :
  py_is_enum_member x = false -> py_any_is x (PList (map (member_val cls) ms)) = Ok false.
Proof.
  intros Hx. unfold py_any_is. cbn [py_seq_items bind]. rewrite mapM_is_member. cbn [bind]. f_equal.
  induction ms as [|m t IH]; [reflexivity|]. cbn [map existsb]. rewrite IH.
  destruct x; try discriminate Hx; reflexivity.
Qed.

(* the two membership tests coincide here: the bridging statements below are the ones that held for `in` *)
Lemma any_is_eq_in cls x ms :
  py_any_is x (PList (map (member_val cls) ms)) = Ok (py_in x (map (member_val cls) ms)).
Proof.
  destruct x as [|b|n|s|l|l|l|fr l|kv|c n y|c at'|tg r];
    try (rewrite any_is_nonenum by reflexivity; rewrite in_members_nonenum by (intros ? ? ?; discriminate); reflexivity).
  rewrite any_is_enum, in_members_enum. reflexivity.
Qed.

Lemma class_lookup cls all n :
  dict_get (map (fun m => (PStr (fst m), member_val cls m)) all) (PStr n) =
  match alist_get all n with Some x => Some (PEnum cls n x) | None => None end.
Proof.
  induction all as [|[k z] t IH]; [reflexivity|].
  cbn [map fst snd member_val dict_get alist_get py_eq].
  destruct (pystr_eqb k n) eqn:He; [|exact IH].
  apply pystr_eqb_spec in He. subst k. reflexivity.
Qed.

Lemma by_value_lookup cls all j :
  dict_get (map (fun m => (snd m, member_val cls m)) all) j =
  match find (fun m => py_eq (snd m) j) all with Some m => Some (member_val cls m) | None => None end.
Proof.
  induction all as [|[k z] t IH]; [reflexivity|].
  cbn [map fst snd dict_get find]. destruct (py_eq z j); [reflexivity|exact IH].
Qed.

Lemma setcomp_names cls ms :
  py_setcomp_attr (PList (map (member_val cls) ms)) (s2p "name") = Ok (PSet false (py_dedup (names_of ms))).
Proof.
  unfold py_setcomp_attr. cbn [py_seq_items bind]. rewrite mapM_names. cbn [bind].
  rewrite names_hashable. reflexivity.
Qed.

Lemma listcomp_names cls ms :
  py_listcomp_attr (PList (map (member_val cls) ms)) (s2p "name") = Ok (PList (names_of ms)).
Proof. unfold py_listcomp_attr. cbn [py_seq_items bind]. rewrite mapM_names. reflexivity. Qed.

Lemma in_dedup ms x : py_in x (py_dedup (names_of ms)) = py_in x (names_of ms).
Proof. unfold py_dedup. rewrite in_dedup_names. reflexivity. Qed.

Section Bridge.
  Variable re_match : N -> pystr -> bool.
  Variable e : env.

  Ltac tail :=
    cbn [py_len bind]; unfold py_lt, zint; cbn [as_num bind];
    match goal with |- context [num_ltb ?a ?b] => destruct (num_ltb a b) end; reflexivity.

  (* ---------------------------------------------------------------- Enum._validate *)
  Lemma generated_enum_validate_cls : forall cls members all bv v,
      Enum__validate re_match (enumcls_self cls members all bv) v
      = validate_weak re_match e (FEnumCls cls members) v.
  Proof.
    intros cls members all bv v. unfold Enum__validate.
    change (enumcls_self cls members all bv (s2p "_is_enum")) with (PBool true).
    change (enumcls_self cls members all bv (s2p "_valid_enum_values")) with (PList (map (member_val cls) members)).
    cbn [py_truthy bind]. rewrite setcomp_names, listcomp_names. cbn [bind].
    cbn [py_in_dyn validate_weak]. unfold py_in_hashed.
    (* only a str that is not itself a member is looked up in the set of names (and a str is hashable);
       a member is accepted by identity with a declared member *)
    destruct v as [|b|n|s|l|l|l|fr l|kv|c n y|c at'|tg r].
    all: try (change (py_isinstance _ [K_str]) with false).
    all: try (change (py_isinstance (PStr s) [K_str]) with true; cbn [py_is_enum_member py_hashable']; rewrite in_dedup).
    all: try (rewrite any_is_nonenum by reflexivity).
    all: try rewrite in_names_str.
    all: try rewrite any_is_enum.
    all: cbn [py_not bind py_and negb].
    all: try tail.
    - (* str *) destruct (alist_has members s); cbn [negb bind]; [reflexivity|tail].
    - (* member *) destruct (pystr_eqb c cls && alist_has members n); cbn [negb bind]; [reflexivity|tail].
  Qed.

  Lemma generated_enum_validate_lit : forall values v,
      Enum__validate re_match (enumlit_self values) v
      = (if py_in v values then Ok tt else Raise ValueError).
  Proof.
    intros values v. unfold Enum__validate.
    change (enumlit_self values (s2p "_is_enum")) with (PBool false).
    change (enumlit_self values (s2p "values")) with (PList values).
    cbn [py_truthy bind py_in_dyn]. unfold py_in_lit. cbn [py_not bind].
    destruct (py_in v values); reflexivity.
  Qed.

  (* ---------------------------------------------------------------- Enum.__set__ = the model's vset *)
  (* the declared members are members of the class, with the same values *)
  Definition members_of_class (members all : list (pystr * pyval)) : Prop :=
    forall n x, alist_get members n = Some x -> alist_get all n = Some x.

  Lemma generated_enum_set_cls : forall cls members all bv v,
      members_of_class members all ->
      Enum__set re_match (enumcls_self cls members all bv) v = vset re_match e (FEnumCls cls members) v.
  Proof.
    intros cls members all bv v Hsub. unfold Enum__set.
    rewrite generated_enum_validate_cls.
    change (enumcls_self cls members all bv (s2p "_is_enum")) with (PBool true).
    change (enumcls_self cls members all bv (s2p "_enum_class"))
      with (PDict (map (fun m => (PStr (fst m), member_val cls m)) all)).
    cbn [validate_weak vset py_truthy].
    destruct v as [|b|n|s|l|l|l|fr l|kv|c n y|c at'|tg r]; try reflexivity.
    - (* str (not an enum member): converted to the member of that name *)
      unfold alist_has. destruct (alist_get members s) as [x|] eqn:Hg; cbn [bind]; [|reflexivity].
      change (py_isinstance (PStr s) [K_str]) with true.
      cbn [py_is_enum_member py_and py_not negb bind py_getitem_dyn].
      unfold py_dict_getitem. cbn [py_hashable']. rewrite class_lookup, (Hsub _ _ Hg). reflexivity.
    - (* a member object is stored as it is *)
      destruct (pystr_eqb c cls && alist_has members n); reflexivity.
  Qed.

  Lemma generated_enum_set_lit : forall values v,
      Enum__set re_match (enumlit_self values) v = vset re_match e (FEnumLit values) v.
  Proof.
    intros values v. unfold Enum__set. rewrite generated_enum_validate_lit.
    change (enumlit_self values (s2p "_is_enum")) with (PBool false).
    cbn [vset py_truthy]. destruct (py_in v values); reflexivity.
  Qed.

  (* ---------------------------------------------------------------- Enum.serialize *)
  Lemma json_value_ok_isinstance x :
    py_isinstance x [K_bool; K_str; K_int; K_float] = json_value_ok x.
  Proof. destruct x as [|b|[z|m ex|m ex]|s|l|l|l|fr l|kv|c n y|c at'|tg r]; reflexivity. Qed.

  Lemma generated_enum_serialize_member : forall cls members all bv c n x,
      Enum__serialize re_match (enumcls_self cls members all bv) (PEnum c n x)
      = ser_enum_member bv (PEnum c n x).
  Proof.
    intros cls members all bv c n x. unfold Enum__serialize, ser_enum_member.
    change (enumcls_self cls members all bv (s2p "_is_enum")) with (PBool true).
    change (enumcls_self cls members all bv (s2p "serialization_by_value")) with (PBool bv).
    cbn [py_truthy bind]. rewrite !getattr_value, !getattr_name. cbn [bind py_not].
    rewrite json_value_ok_isinstance.
    destruct bv; cbn [bind]; [|reflexivity].
    destruct (json_value_ok x); reflexivity.
  Qed.

  (* a value that is not a member: AttributeError, as in the model (objects whose attributes the
     model does not know are excluded) *)
  Definition plain (v : pyval) : bool :=
    match v with POther _ _ | PStruct _ _ | PEnum _ _ _ => false | _ => true end.

  Lemma generated_enum_serialize_nonmember : forall cls members all bv v,
      plain v = true ->
      Enum__serialize re_match (enumcls_self cls members all bv) v = ser_enum_member bv v.
  Proof.
    intros cls members all bv v Hp. unfold Enum__serialize, ser_enum_member.
    change (enumcls_self cls members all bv (s2p "_is_enum")) with (PBool true).
    change (enumcls_self cls members all bv (s2p "serialization_by_value")) with (PBool bv).
    cbn [py_truthy bind].
    destruct v as [|b|n|s|l|l|l|fr l|kv|c n y|c at'|tg r]; try discriminate Hp; destruct bv; reflexivity.
  Qed.

  Lemma generated_enum_serialize_lit : forall values v,
      Enum__serialize re_match (enumlit_self values) v = Ok v.
  Proof. intros. reflexivity. Qed.

  (* ---------------------------------------------------------------- Enum.deserialize *)
  Lemma generated_enum_deserialize_cls : forall ens d cls members v,
      find_enum ens cls = Some d ->
      members_of_class members (en_members d) ->
      Enum__deserialize re_match (enumcls_self cls members (en_members d) (en_by_value d)) v
      = deser_enum_cls re_match e ens (FEnumCls cls members) cls members v.
  Proof.
    intros ens d cls members v Hd Hsub. unfold Enum__deserialize, deser_enum_cls, enum_by_value.
    rewrite Hd. set (all := en_members d). set (bv := en_by_value d).
    change (enumcls_self cls members all bv (s2p "_is_enum")) with (PBool true).
    change (enumcls_self cls members all bv (s2p "serialization_by_value")) with (PBool bv).
    change (enumcls_self cls members all bv (s2p "_valid_enum_values")) with (PList (map (member_val cls) members)).
    change (enumcls_self cls members all bv (s2p "_enum_class"))
      with (PDict (map (fun m => (PStr (fst m), member_val cls m)) all)).
    change (enumcls_self cls members all bv (s2p "_enum_by_value"))
      with (PDict (map (fun m => (snd m, member_val cls m)) all)).
    cbn [py_truthy bind]. destruct bv.
    - (* by value: the document value is looked up among the values of ALL members of the class *)
      cbn [py_in_dyn py_getitem_dyn bind]. unfold py_dict_getitem, dict_has. rewrite hashable_eq.
      destruct (py_hashable v); cbn [negb py_not bind]; [|reflexivity].
      rewrite by_value_lookup.
      destruct (find (fun m => py_eq (snd m) v) all) as [m|]; cbn [negb bind]; reflexivity.
    - (* by name *)
      destruct v as [|b|n|s|l|l|l|fr l|kv|c n y|c at'|tg r];
        try (change (py_isinstance _ [K_str]) with false; cbn [bind];
             rewrite generated_enum_validate_cls; reflexivity).
      change (py_isinstance (PStr s) [K_str]) with true. cbn [bind].
      rewrite setcomp_names. cbn [bind py_in_dyn]. unfold py_in_hashed. cbn [py_hashable' py_not bind].
      rewrite in_dedup, in_names_str.
      unfold alist_has at 1 2. destruct (alist_get members s) as [x|] eqn:Hg; cbn [negb bind]; [|reflexivity].
      cbn [py_getitem_dyn]. unfold py_dict_getitem. cbn [py_hashable']. rewrite class_lookup.
      subst all. rewrite (Hsub _ _ Hg). reflexivity.
  Qed.

  Lemma generated_enum_deserialize_lit : forall values v,
      Enum__deserialize re_match (enumlit_self values) v
      = (_ <- validate_weak re_match e (FEnumLit values) v ;; Ok v).
  Proof.
    intros values v. unfold Enum__deserialize.
    change (enumlit_self values (s2p "_is_enum")) with (PBool false).
    cbn [py_truthy bind validate_weak]. rewrite generated_enum_validate_lit.
    destruct (py_in v values); reflexivity.
  Qed.
End Bridge.
