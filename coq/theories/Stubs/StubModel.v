(* The .pyi generator of typedpy/stubs at the level of (name, has-default) per parameter:
   get_all_type_info (type_info_getter.py), _get_ordered_args / get_stubs_of_structures
   (type_helpers.py), get_init / get_additional_structure_methods (methods_info_getter.py).
   Type strings are opaque tokens (Signature.tok).  Executable definitions only. *)
From Coq Require Import List Bool NArith String.
Import ListNotations.
From TP Require Import Base.PyVal Stubs.Signature.
Local Open Scope string_scope.

(* a rendered parameter: name and whether its text ends with "= None" *)
Definition sparam := (pystr * bool)%type.

Record stub_method := { m_fixed : list pystr;       (* leading parameters rendered verbatim *)
                        m_kwparams : list sparam;   (* field keywords *)
                        m_kw : bool }.              (* trailing ** parameter *)

Section WithDefaults.
  Variable apd_run : bool.    (* TypedPyDefaults.additional_properties_default when classes were defined *)
  Variable apd_stub : bool.   (* additional_properties_default handed to create_stub_for_file *)

  (* get_all_type_info: one entry per non-constant field, in get_all_fields_by_name order *)
  Definition stub_entry (required : list pystr) (f : fdecl) : sparam :=
    if negb (str_in (f_name f) required)
    then (f_name f, true)                       (* f"{t} = None", t wrapped in Optional[...] unless it starts with it *)
    else (f_name f, ends_none (f_tok f)).       (* a required field: the type text as it is *)

  Definition type_info (C : hier) : list sparam :=
    map (stub_entry (required_attr apd_run C))
        (filter (fun f => negb (str_in (f_name f) (constants C))) (all_fields C)).

  (* _get_ordered_args: {**mandatory, **optional} *)
  Definition ordered_args (l : list sparam) : list sparam :=
    filter (fun p => negb (snd p)) l ++ filter (fun p => snd p) l.

  (* getattr(cls, "_additional_properties", additional_properties_default) *)
  Definition stub_kw (C : hier) : bool := effective_additional apd_stub C.

  Definition stub_init (C : hier) : stub_method :=
    {| m_fixed := [s2p "self"]; m_kwparams := ordered_args (type_info C); m_kw := stub_kw C |}.

  (* get_additional_structure_methods: every keyword gets "= None" *)
  Definition with_none (l : list sparam) : list sparam := map (fun p => (fst p, true)) l.

  Definition stub_shallow_clone (C : hier) : stub_method :=
    {| m_fixed := [s2p "self"]; m_kwparams := with_none (ordered_args (type_info C)); m_kw := stub_kw C |}.
  (* the two classmethods leave out a field keyword named like one of their own parameters (at run time such a
     keyword is bound to that parameter, it never reaches **kw) *)
  Definition classmethod_own : list pystr := [s2p "cls"; s2p "source_object"; s2p "ignore_props"].
  Definition classmethod_kws (l : list sparam) : list sparam :=
    filter (fun p => negb (str_in (fst p) classmethod_own)) l.
  Definition stub_from_other_class (C : hier) : stub_method :=
    {| m_fixed := [s2p "cls"; s2p "source_object"; s2p "*"; s2p "ignore_props"];
       m_kwparams := classmethod_kws (with_none (ordered_args (type_info C))); m_kw := stub_kw C |}.
  Definition stub_from_trusted_data (C : hier) : stub_method :=
    {| m_fixed := [s2p "cls"; s2p "source_object"; s2p "*"; s2p "ignore_props"];
       m_kwparams := classmethod_kws (with_none (ordered_args (type_info C))); m_kw := stub_kw C |}.

  Definition stub_init_names (C : hier) : list pystr := map fst (m_kwparams (stub_init C)).
  Definition stub_has_default (C : hier) (n : pystr) : bool :=
    match alist_get (m_kwparams (stub_init C)) n with Some d => d | None => false end.

  (* syntactic validity of a def: no parameter without default after one with default *)
  Fixpoint order_wf (seen_default : bool) (l : list sparam) : bool :=
    match l with
    | [] => true
    | (_, d) :: t => (d || negb seen_default) && order_wf (seen_default || d) t
    end.

  (* names that would collide with the fixed parameters of the rendered methods *)
  Definition reserved : list pystr := [s2p "self"; s2p "cls"; s2p "source_object"; s2p "ignore_props"].
  Definition no_reserved (C : hier) : bool :=
    forallb (fun n => negb (str_in n reserved)) (all_names C).
  (* the only name that still collides: a field named self (__init__ and shallow_clone_with_overrides) *)
  Definition no_self (C : hier) : bool := negb (str_in (s2p "self") (all_names C)).
  (* no field is named like a parameter of the classmethods: they carry every keyword of __init__ *)
  Definition no_classmethod_own (C : hier) : bool :=
    forallb (fun n => negb (str_in n classmethod_own)) (all_names C).

  (* --- the predicates under which the pinned generator agrees with the run time *)
  (* the default marker is decided by _required alone; only a required field whose type TEXT itself ends with
     "= None" would get the wrong marker (get_type_info renders no such text: AnyOf[X, None] and typing.Optional[X]
     are "Optional[X]") *)
  Definition tok_safe_field (required : list pystr) (f : fdecl) : bool :=
    match f_tok f with
    | TOptNone => negb (str_in (f_name f) required)
    | TPlain | TOptBare => true
    end.
  Definition tok_safe (C : hier) : bool :=
    forallb (tok_safe_field (required_attr apd_run C))
            (filter (fun f => negb (str_in (f_name f) (constants C))) (all_fields C)).

  (* the class inherits _additional_properties = True without restating it while the default is False *)
  Definition kw_safe (C : hier) : bool :=
    match C with
    | [] => true
    | b :: P => match b_additional b with
                | Some _ => true
                | None => apd_run || negb (effective_additional apd_run (b :: P))
                end
    end.
End WithDefaults.
