(* How a model-level class description (Stubs/Signature.v [hier]) is seen by the GENERATED translation of the
   stub generator (Gen/StubsSrc.v), and how the texts it produces are read back as the model's records
   (Stubs/StubModel.v [sparam], [stub_method]).  Executable definitions only; the proofs are in
   Stubs/StubsSrcProofs.v.

   Python side                                   model side
   -----------                                   ----------
   cls                                           ref o_cls, an object of the heap [cls_heap C]
   cls._field_by_name  (get_all_fields_by_name)  dict  name -> fobj f   for f in all_fields C, in that order
   cls._constants                                dict  name -> cobj name   for the names of constants C
   cls._required                                 list of the names of required_attr apd_run C
   cls._additional_properties                    absent, or the flag of the first class statement along the
                                                 MRO that sets it ([declared_additional])
   get_type_info(field, locals, additional)      the oracle [ext]; [ext_ok]: on every non-constant field it
                                                 returns a str whose token ([tok_of]: startswith "Optional[",
                                                 endswith "= None") is the field's f_tok
   dict name -> text                             [sdict l], l : list (name * text)
   a rendered def                                [def_render head fixed kws kw], read back by [abs_def] *)
From Coq Require Import List Bool NArith ZArith String.
Import ListNotations.
From TP Require Import Base.PyVal Base.PyOps Base.PyOps2 Base.PyObj Base.PyOpsDerive Base.PyOpsStubs
     Stubs.Signature Stubs.StubModel.
Local Open Scope string_scope.

(* ------------------------------------------------------------------ dicts of texts *)

Definition sentry (kv : pystr * pystr) : pyval * pyval := (PStr (fst kv), PStr (snd kv)).
Definition sdict (l : list (pystr * pystr)) : pyval := PDict (map sentry l).

Definition none_suffix : pystr := s2p "= None".
Definition opt_prefix : pystr := s2p "Optional[".
Definition ends_none_text (s : pystr) : bool := str_endswith none_suffix s.
Definition starts_opt_text (s : pystr) : bool := str_startswith opt_prefix s.

(* what the model keeps of an entry name -> text *)
Definition abs_entry (kv : pystr * pystr) : sparam := (fst kv, ends_none_text (snd kv)).

(* the token of a text.  A text that ends with "= None" without starting with "Optional[" (no rendering of
   typedpy produces one) is treated by the generator exactly like an "Optional[X] = None" one as far as
   (name, has a default) goes: rendered with a default whether or not the field is required *)
Definition tok_of (s : pystr) : tok :=
  match starts_opt_text s, ends_none_text s with
  | false, false => TPlain
  | true, true => TOptNone
  | true, false => TOptBare
  | false, true => TOptNone
  end.

Definition tok_eqb (a b : tok) : bool :=
  match a, b with
  | TPlain, TPlain | TOptNone, TOptNone | TOptBare, TOptBare => true
  | _, _ => false
  end.

(* ------------------------------------------------------------------ the class as an object *)

Fixpoint declared_additional (C : hier) : option bool :=
  match C with
  | [] => None
  | b :: P => match b_additional b with Some x => Some x | None => declared_additional P end
  end.

Definition o_cls : pystr := s2p "cls".
Definition nonconst (C : hier) (f : fdecl) : bool := negb (str_in (f_name f) (constants C)).

Section View.
  Variable apd_run : bool.            (* TypedPyDefaults.additional_properties_default when the classes were defined *)
  Variable h0 : heap.                 (* every other object and attribute: arbitrary *)
  Variable fobj : fdecl -> pyval.     (* the Field object of a declaration: arbitrary *)
  Variable cobj : pystr -> pyval.     (* the values stored in cls._constants: arbitrary *)

  Definition field_item (f : fdecl) : pyval * pyval := (PStr (f_name f), fobj f).
  Definition const_item (n : pystr) : pyval * pyval := (PStr n, cobj n).

  Definition cls_heap (C : hier) : heap := fun o a =>
    if pystr_eqb o o_cls then
      if pystr_eqb a (s2p "_field_by_name") then Some (PDict (map field_item (all_fields C)))
      else if pystr_eqb a (s2p "_constants") then Some (PDict (map const_item (constants C)))
      else if pystr_eqb a (s2p "_required") then Some (PList (map PStr (required_attr apd_run C)))
      else if pystr_eqb a (s2p "_additional_properties") then option_map PBool (declared_additional C)
      else h0 o a
    else h0 o a.

  (* the same class object without the attribute _required (getattr(cls, "_required", None) is None) *)
  Definition cls_heap_no_required (C : hier) : heap := fun o a =>
    if pystr_eqb o o_cls && pystr_eqb a (s2p "_required") then None else cls_heap C o a.

  (* --- the oracle *)
  Variable ext : pyval -> pyval -> pyval -> res pyval.
  Variables la ac : pyval.            (* locals_attrs, additional_classes: arbitrary *)

  Definition rendered (f : fdecl) : option pystr :=
    match ext (fobj f) la ac with Ok (PStr s) => Some s | _ => None end.
  Definition rendered_text (f : fdecl) : pystr := match rendered f with Some s => s | None => [] end.

  Definition ext_ok_field (f : fdecl) : bool :=
    match rendered f with
    | Some s => tok_eqb (tok_of s) (f_tok f)
    | None => false
    end.
  Definition ext_ok (C : hier) : bool := forallb ext_ok_field (filter (nonconst C) (all_fields C)).

  (* the oracle answers (with any value at all) on every non-constant field *)
  Definition ext_total (C : hier) : bool :=
    forallb (fun f => is_ok (ext (fobj f) la ac)) (filter (nonconst C) (all_fields C)).

  (* --- what get_all_type_info returns, as texts *)
  (* a field that is not required: its type wrapped in Optional[...] unless it starts with it, then " = None";
     a required field: the type text as it is *)
  Definition wrap_optional (s : pystr) : pystr := (opt_prefix ++ s ++ s2p "]")%list.
  Definition add_none (s : pystr) : pystr := (s ++ s2p " = None")%list.
  Definition field_text (required : list pystr) (f : fdecl) : pystr * pystr :=
    let s := rendered_text f in
    (f_name f, if negb (str_in (f_name f) required)
               then add_none (if starts_opt_text s then s else wrap_optional s) else s).
  Definition type_info_text (C : hier) : list (pystr * pystr) :=
    map (field_text (required_attr apd_run C)) (filter (nonconst C) (all_fields C)).
End View.

(* ------------------------------------------------------------------ _get_ordered_args, the "= None" completion *)

Definition ordered_text (l : list (pystr * pystr)) : list (pystr * pystr) :=
  (filter (fun kv => negb (ends_none_text (snd kv))) l ++ filter (fun kv => ends_none_text (snd kv)) l)%list.

Definition with_none_text (s : pystr) : pystr := if ends_none_text s then s else (s ++ s2p " = None")%list.
Definition none_text (l : list (pystr * pystr)) : list (pystr * pystr) :=
  map (fun kv => (fst kv, with_none_text (snd kv))) l.

(* ------------------------------------------------------------------ rendered defs *)

Definition nl : pystr := [10%N].
Definition sep8 : pystr := ([44%N; 10%N] ++ s2p "        ")%list.        (* ",\n" and two indents *)
Definition param_text (kv : pystr * pystr) : pystr := (fst kv ++ s2p ": " ++ snd kv)%list.

(* head, then the fixed parameters and one "name: text" per keyword joined by [sep8], then the ** parameter,
   then the closing line *)
Definition def_render (head : pystr) (fixed : list pystr) (kws : list (pystr * pystr)) (kw : bool) : pystr :=
  (head ++ join_strs sep8 (fixed ++ map param_text kws) ++ (if kw then sep8 ++ s2p "**kw" else [])
        ++ nl ++ s2p "    ): ...")%list.

Definition init_head : pystr := (s2p "    def __init__(" ++ nl)%list.
Definition clone_head : pystr := (s2p "    def shallow_clone_with_overrides(" ++ nl)%list.
Definition other_head : pystr :=
  (nl ++ s2p "    @classmethod" ++ nl ++ s2p "    def from_other_class(" ++ nl ++ s2p "    ")%list.
Definition trusted_head : pystr :=
  (nl ++ s2p "    @classmethod" ++ nl ++ s2p "    def from_trusted_data(" ++ nl ++ s2p "    ")%list.

Definition self_fixed : list pystr := [s2p "        self"].
Definition other_fixed : list pystr :=
  [s2p "    cls"; s2p "source_object: Any"; s2p "*"; s2p "ignore_props: Iterable[str] = None"].
Definition trusted_fixed : list pystr :=
  [s2p "    cls"; s2p "source_object: Any = None"; s2p "*"; s2p "ignore_props: Iterable[str] = None"].

Definition init_text (kws : list (pystr * pystr)) (kw : bool) : pystr := def_render init_head self_fixed kws kw.
(* the classmethods leave out the keywords named like one of their own parameters (cls, source_object, ignore_props) *)
Definition classmethod_text (l : list (pystr * pystr)) : list (pystr * pystr) :=
  filter (fun kv => negb (str_in (fst kv) classmethod_own)) l.
Definition methods_text (kws : list (pystr * pystr)) (kw : bool) : pystr :=
  join_strs nl [def_render clone_head self_fixed kws kw;
                def_render other_head other_fixed (classmethod_text kws) kw;
                def_render trusted_head trusted_fixed (classmethod_text kws) kw].

(* the name of a rendered fixed parameter: leading blanks dropped, cut at the annotation *)
Fixpoint drop_blanks (s : pystr) : pystr :=
  match s with c :: t => if N.eqb c 32 then drop_blanks t else s | [] => [] end.
Fixpoint upto_colon (s : pystr) : pystr :=
  match s with c :: t => if N.eqb c 58 then [] else c :: upto_colon t | [] => [] end.
Definition param_name (s : pystr) : pystr := upto_colon (drop_blanks s).

(* a rendered def read back as the model's record *)
Definition abs_def (fixed : list pystr) (kws : list (pystr * pystr)) (kw : bool) : stub_method :=
  {| m_fixed := map param_name fixed; m_kwparams := map abs_entry kws; m_kw := kw |}.
