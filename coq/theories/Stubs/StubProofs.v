(* Lemmas relating the model of the stub generator (Stubs/StubModel.v) to the model of the
   run-time signature (Stubs/Signature.v). *)
From Coq Require Import List Bool NArith String Permutation.
Import ListNotations.
From TP Require Import Base.PyVal Stubs.Signature Stubs.SignatureProofs Stubs.StubModel.

(* ------------------------------------------------------------------ lists of rendered parameters *)
Lemma partition_perm {A} (p : A -> bool) (l : list A) :
  Permutation l (filter (fun x => negb (p x)) l ++ filter p l).
Proof.
  induction l as [|x t IH]; cbn [filter app]; [constructor|].
  destruct (p x); cbn [negb app].
  - apply Permutation_cons_app. exact IH.
  - constructor. exact IH.
Qed.

Lemma ordered_args_perm l : Permutation l (ordered_args l).
Proof. unfold ordered_args. apply (partition_perm (fun p => snd p)). Qed.

Lemma ordered_args_names n l : In n (map fst (ordered_args l)) <-> In n (map fst l).
Proof.
  split; apply Permutation_in, Permutation_map;
    [apply Permutation_sym|]; apply ordered_args_perm.
Qed.

Lemma ordered_args_nodup l : NoDup (map fst l) -> NoDup (map fst (ordered_args l)).
Proof. apply Permutation_NoDup, Permutation_map, ordered_args_perm. Qed.

Lemma alist_get_in {A} (l : list (pystr * A)) n v :
  NoDup (map fst l) -> In (n, v) l -> alist_get l n = Some v.
Proof.
  induction l as [|[k w] t IH]; cbn [map fst alist_get In]; [tauto|].
  intros ND [H | H].
  - inversion H. subst. rewrite pystr_eqb_refl. reflexivity.
  - inversion ND as [|? ? Hn ND']. subst.
    destruct (pystr_eqb k n) eqn:E.
    + apply pystr_eqb_spec in E. subst. exfalso. apply Hn.
      change n with (fst (n, v)). apply in_map. exact H.
    + apply IH; assumption.
Qed.

Lemma order_wf_optional s l : forallb (fun p : sparam => snd p) l = true -> order_wf s l = true.
Proof.
  revert s. induction l as [|[n d] t IH]; intros s H; cbn [order_wf]; [reflexivity|].
  cbn [forallb snd] in H. apply andb_true_iff in H. destruct H as [H1 H2]. subst d.
  cbn [orb]. rewrite orb_true_r. apply IH. exact H2.
Qed.

Lemma order_wf_mandatory l r :
  forallb (fun p : sparam => negb (snd p)) l = true -> order_wf false (l ++ r) = order_wf false r.
Proof.
  induction l as [|[n d] t IH]; intro H; cbn [app order_wf]; [reflexivity|].
  cbn [forallb snd] in H. apply andb_true_iff in H. destruct H as [H1 H2].
  apply negb_true_iff in H1. subst d. cbn [orb negb andb]. apply IH. exact H2.
Qed.

Lemma forallb_filter {A} (p : A -> bool) l : forallb p (filter p l) = true.
Proof.
  apply forallb_forall. intros x H. apply filter_In in H. tauto.
Qed.

Lemma ordered_args_wf l : order_wf false (ordered_args l) = true.
Proof.
  unfold ordered_args. rewrite order_wf_mandatory.
  - apply order_wf_optional. apply (forallb_filter (fun p : sparam => snd p)).
  - apply (forallb_filter (fun p : sparam => negb (snd p))).
Qed.

(* ------------------------------------------------------------------ get_all_type_info *)
Section WithDefaults.
  Variable apd : bool.      (* the same default at class definition and at stub generation *)

  Let nonconst (C : hier) := filter (fun f => negb (str_in (f_name f) (constants C))) (all_fields C).

  Lemma stub_entry_name req f : fst (stub_entry req f) = f_name f.
  Proof. unfold stub_entry. destruct (negb _); reflexivity. Qed.

  Lemma type_info_names C : map fst (type_info apd C) = map f_name (nonconst C).
  Proof.
    unfold type_info, nonconst. rewrite map_map. apply map_ext. intro f. apply stub_entry_name.
  Qed.

  Lemma nonconst_nodup C : NoDup (map f_name (nonconst C)).
  Proof.
    unfold nonconst. generalize (all_fields_nodup C).
    generalize (fun f => negb (str_in (f_name f) (constants C))). intro p.
    induction (all_fields C) as [|g t IH]; cbn [map filter]; intro ND; [constructor|].
    inversion ND as [|? ? Hn ND']. subst.
    destruct (p g); cbn [map]; [|apply IH; exact ND'].
    constructor; [|apply IH; exact ND'].
    intro H. apply Hn. apply in_map_iff in H. destruct H as [f [A B]].
    apply filter_In in B. rewrite <- A. apply in_map. tauto.
  Qed.

  Lemma nonconst_names C n :
    In n (map f_name (nonconst C)) <-> In n (all_names C) /\ ~ In n (constants C).
  Proof.
    unfold nonconst, all_names. rewrite !in_map_iff. split.
    - intros [f [A B]]. apply filter_In in B. destruct B as [B1 B2].
      apply negb_true_iff, str_in_false in B2. subst n. split; [exists f; tauto | exact B2].
    - intros [[f [A B]] H]. exists f. split; [exact A|]. apply filter_In. split; [exact B|].
      apply negb_true_iff, str_in_false. rewrite A. exact H.
  Qed.

  Lemma stub_init_names_spec C n :
    In n (stub_init_names apd apd C) <-> In n (all_names C) /\ ~ In n (constants C).
  Proof.
    unfold stub_init_names. cbn [stub_init m_kwparams].
    rewrite ordered_args_names, type_info_names. apply nonconst_names.
  Qed.

  Lemma stub_init_names_nodup C : NoDup (stub_init_names apd apd C).
  Proof.
    unfold stub_init_names. cbn [stub_init m_kwparams].
    apply ordered_args_nodup. rewrite type_info_names. apply nonconst_nodup.
  Qed.

  (* the default marker of a rendered keyword, looked up by name *)
  Lemma stub_has_default_spec C n :
    In n (stub_init_names apd apd C) ->
    exists f, In f (nonconst C) /\ f_name f = n /\
              stub_has_default apd apd C n = snd (stub_entry (required_attr apd C) f).
  Proof.
    intro H. unfold stub_init_names in H. cbn [stub_init m_kwparams] in H.
    apply in_map_iff in H. destruct H as [[k d] [A B]]. cbn [fst] in A. subst k.
    pose proof B as B'.
    apply (Permutation_in _ (Permutation_sym (ordered_args_perm _))) in B'.
    unfold type_info in B'. apply in_map_iff in B'. destruct B' as [f [E1 E2]].
    exists f. fold (nonconst C) in E2. split; [exact E2|].
    assert (En : f_name f = n). { rewrite <- (stub_entry_name (required_attr apd C) f), E1. reflexivity. }
    split; [exact En|].
    unfold stub_has_default. cbn [stub_init m_kwparams].
    rewrite (alist_get_in _ n d).
    - rewrite E1. reflexivity.
    - apply ordered_args_nodup. rewrite type_info_names. apply nonconst_nodup.
    - exact B.
  Qed.

  Lemma tok_safe_entry req f :
    tok_safe_field req f = true -> snd (stub_entry req f) = negb (str_in (f_name f) req).
  Proof.
    unfold tok_safe_field, stub_entry. destruct (f_tok f); cbn [ends_none].
    - intros _. destruct (str_in (f_name f) req); reflexivity.
    - intro H. rewrite H. reflexivity.
    - intros _. destruct (str_in (f_name f) req); reflexivity.
  Qed.

  (* no default in the stub <-> required at run time, for definitions the generator renders faithfully *)
  Lemma defaults_agree C n :
    def_ok apd C = true -> tok_safe apd C = true ->
    In n (stub_init_names apd apd C) ->
    (stub_has_default apd apd C n = false <-> sig_required apd C n = true).
  Proof.
    intros Hok Hsafe Hin.
    destruct (stub_has_default_spec C n Hin) as [f [F1 [F2 F3]]].
    assert (Hsig : In n (sig_names apd C)).
    { apply sig_names_spec. apply stub_init_names_spec. exact Hin. }
    rewrite (sig_required_spec apd C n Hok Hsig).
    unfold tok_safe in Hsafe. rewrite forallb_forall in Hsafe.
    rewrite F3, (tok_safe_entry _ f (Hsafe f F1)), F2.
    rewrite negb_false_iff. apply str_in_In.
  Qed.

  (* the renderer's own vocabulary: no type text ends with "= None" (AnyOf[X, None] and typing.Optional[X] are
     "Optional[X]"): the hypothesis on the texts holds of every class *)
  Lemma tok_safe_rendered C :
    (forall f, In f (all_fields C) -> f_tok f <> TOptNone) -> tok_safe apd C = true.
  Proof.
    intro H. unfold tok_safe. apply forallb_forall. intros f Hf. apply filter_In in Hf as [Hf _].
    unfold tok_safe_field. specialize (H f Hf). destruct (f_tok f); try reflexivity. contradiction.
  Qed.

  Lemma defaults_agree_rendered C n :
    def_ok apd C = true -> (forall f, In f (all_fields C) -> f_tok f <> TOptNone) ->
    In n (stub_init_names apd apd C) ->
    (stub_has_default apd apd C n = false <-> sig_required apd C n = true).
  Proof. intros Hok Ht. apply defaults_agree; [exact Hok|apply tok_safe_rendered, Ht]. Qed.

  (* ** in the stub <-> the constructor admits unknown keywords *)
  Lemma effective_additional_cons b P :
    effective_additional apd (b :: P) =
    match b_additional b with Some x => x | None => effective_additional apd P end.
  Proof. reflexivity. Qed.

  Lemma kwargs_agree C :
    kw_safe apd C = true -> stub_kw apd C = admits_additional apd C.
  Proof.
    unfold stub_kw, admits_additional. destruct C as [|b P]; cbn [kw_safe sig s_kwargs].
    - intros _. cbn [effective_additional]. destruct apd; reflexivity.
    - unfold make_signature. cbn [s_kwargs]. unfold own_additional.
      rewrite effective_additional_cons.
      destruct (b_additional b) as [x|].
      + intros _. destruct x; reflexivity.
      + intro H. apply orb_true_iff in H. destruct H as [H | H].
        * rewrite H. reflexivity.
        * apply negb_true_iff in H. rewrite H. rewrite andb_false_r. reflexivity.
  Qed.
End WithDefaults.

(* ------------------------------------------------------------------ statements and their status *)
Local Open Scope string_scope.

(* full statement of the clause the pinned generator does not satisfy ("no default in the stub <-> required at run
   time" holds now: defaults_agree_rendered; it failed while a required AnyOf[X, None] field was rendered "= None") *)
Definition kwargs_statement : Prop :=
  forall apd C, def_ok apd C = true -> stub_kw apd C = admits_additional apd C.

(* default False;  class P(Structure): a: int; _additional_properties = True ;  class Q(P): b: int *)
Definition refute_kwargs_cls : hier :=
  [ {| b_fields := [ {| f_name := s2p "b"; f_kind := KField; f_default := false; f_tok := TPlain |} ];
       b_required := None; b_optional := []; b_additional := None |};
    {| b_fields := [ {| f_name := s2p "a"; f_kind := KField; f_default := false; f_tok := TPlain |} ];
       b_required := None; b_optional := []; b_additional := Some true |} ].

Lemma kwargs_refuted : ~ kwargs_statement.
Proof.
  intro H. specialize (H false refute_kwargs_cls).
  assert (A : def_ok false refute_kwargs_cls = true) by (vm_compute; reflexivity).
  specialize (H A). vm_compute in H. discriminate.
Qed.

(* the keywords the two classmethods keep, as names *)
Definition classmethod_names (l : list pystr) : list pystr :=
  filter (fun n => negb (str_in n classmethod_own)) l.

Lemma classmethod_kws_names (l : list sparam) : map fst (classmethod_kws l) = classmethod_names (map fst l).
Proof.
  unfold classmethod_kws, classmethod_names. induction l as [|p t IH]; [reflexivity|].
  cbn [filter map]. destruct (negb (str_in (fst p) classmethod_own)); cbn [map]; rewrite IH; reflexivity.
Qed.

Lemma forallb_filter_sub {A} (q p : A -> bool) l : forallb q l = true -> forallb q (filter p l) = true.
Proof.
  intro H. apply forallb_forall. intros x Hx. apply filter_In in Hx. destruct Hx as [Hx _].
  rewrite forallb_forall in H. apply H. exact Hx.
Qed.

Lemma classmethod_names_id l :
  forallb (fun n => negb (str_in n classmethod_own)) l = true -> classmethod_names l = l.
Proof.
  unfold classmethod_names. induction l as [|x t IH]; [reflexivity|].
  cbn [forallb filter]. intro H. apply andb_true_iff in H. destruct H as [H1 H2].
  rewrite H1, (IH H2). reflexivity.
Qed.

(* shallow_clone_with_overrides carries the keywords of __init__; from_other_class / from_trusted_data carry them
   except those named like one of their own parameters; same ** parameter; every keyword has a default *)
Lemma methods_same_keywords ar ast C :
  map fst (m_kwparams (stub_shallow_clone ar ast C)) = map fst (m_kwparams (stub_init ar ast C)) /\
  map fst (m_kwparams (stub_from_other_class ar ast C))
    = classmethod_names (map fst (m_kwparams (stub_init ar ast C))) /\
  map fst (m_kwparams (stub_from_trusted_data ar ast C))
    = classmethod_names (map fst (m_kwparams (stub_init ar ast C))) /\
  m_kw (stub_shallow_clone ar ast C) = m_kw (stub_init ar ast C) /\
  m_kw (stub_from_other_class ar ast C) = m_kw (stub_init ar ast C) /\
  m_kw (stub_from_trusted_data ar ast C) = m_kw (stub_init ar ast C) /\
  forallb (fun p : sparam => snd p) (m_kwparams (stub_shallow_clone ar ast C)) = true /\
  forallb (fun p : sparam => snd p) (m_kwparams (stub_from_other_class ar ast C)) = true /\
  forallb (fun p : sparam => snd p) (m_kwparams (stub_from_trusted_data ar ast C)) = true.
Proof.
  assert (N : forall l : list sparam, map fst (with_none l) = map fst l).
  { intro l. unfold with_none. rewrite map_map. reflexivity. }
  assert (D : forall l : list sparam, forallb (fun p : sparam => snd p) (with_none l) = true).
  { intro l. unfold with_none. apply forallb_forall. intros p H. apply in_map_iff in H.
    destruct H as [q [H _]]. subst p. reflexivity. }
  cbn [stub_shallow_clone stub_from_other_class stub_from_trusted_data stub_init m_kwparams m_kw].
  rewrite !classmethod_kws_names, !N, !D.
  repeat split; try reflexivity; apply forallb_filter_sub; apply D.
Qed.

(* when no field is named cls / source_object / ignore_props, all three carry exactly the keywords of __init__ *)
Lemma methods_same_keywords_full ar ast C :
  no_classmethod_own C = true ->
  map fst (m_kwparams (stub_from_other_class ar ast C)) = map fst (m_kwparams (stub_init ar ast C)) /\
  map fst (m_kwparams (stub_from_trusted_data ar ast C)) = map fst (m_kwparams (stub_init ar ast C)).
Proof.
  intro H.
  destruct (methods_same_keywords ar ast C) as [_ [E2 [E3 _]]]. rewrite E2, E3.
  assert (F : classmethod_names (map fst (m_kwparams (stub_init ar ast C))) = map fst (m_kwparams (stub_init ar ast C))).
  { apply classmethod_names_id. apply forallb_forall. intros n Hn.
    cbn [stub_init m_kwparams] in Hn. rewrite ordered_args_names, type_info_names in Hn.
    apply nonconst_names in Hn. destruct Hn as [Hn _].
    unfold no_classmethod_own in H. rewrite forallb_forall in H. apply H. exact Hn. }
  rewrite F. split; reflexivity.
Qed.

Lemma init_order_wf ar ast C : order_wf false (m_kwparams (stub_init ar ast C)) = true.
Proof. cbn [stub_init m_kwparams]. apply ordered_args_wf. Qed.

Lemma methods_order_wf ar ast C :
  order_wf true (m_kwparams (stub_shallow_clone ar ast C)) = true /\
  order_wf true (m_kwparams (stub_from_other_class ar ast C)) = true /\
  order_wf true (m_kwparams (stub_from_trusted_data ar ast C)) = true.
Proof.
  destruct (methods_same_keywords ar ast C) as [_ [_ [_ [_ [_ [_ [A [B D]]]]]]]].
  repeat split; apply order_wf_optional; assumption.
Qed.

Lemma params_agree apd C :
  NoDup (stub_init_names apd apd C) /\
  (forall n, In n (stub_init_names apd apd C) <-> In n (sig_names apd C) /\ ~ In n (constants C)).
Proof.
  split; [apply stub_init_names_nodup|]. intro n.
  rewrite stub_init_names_spec, sig_names_spec. tauto.
Qed.

(* ------------------------------------------------------------------ no duplicate argument names *)
Definition arg_names (m : stub_method) : list pystr :=
  filter (fun n => negb (pystr_eqb n (s2p "*"))) (m_fixed m) ++ map fst (m_kwparams m).

Lemma nodup_app {A} (a b : list A) :
  NoDup a -> NoDup b -> (forall x, In x a -> ~ In x b) -> NoDup (a ++ b).
Proof.
  induction a as [|x t IH]; cbn [app]; intros Ha Hb Hd; [exact Hb|].
  inversion Ha as [|? ? Hn Ha']. subst. constructor.
  - rewrite in_app_iff. intros [H | H]; [contradiction|]. apply (Hd x); [left; reflexivity | exact H].
  - apply IH; [exact Ha' | exact Hb|]. intros y Hy. apply Hd. right. exact Hy.
Qed.

(* only a field named self still collides (with the first parameter of __init__ / shallow_clone_with_overrides);
   the classmethods never repeat an argument name *)
Lemma no_duplicate_arguments apd C :
  (no_self C = true ->
   NoDup (arg_names (stub_init apd apd C)) /\ NoDup (arg_names (stub_shallow_clone apd apd C))) /\
  NoDup (arg_names (stub_from_other_class apd apd C)) /\
  NoDup (arg_names (stub_from_trusted_data apd apd C)).
Proof.
  destruct (methods_same_keywords apd apd C) as [E1 [E2 [E3 _]]].
  pose proof (stub_init_names_nodup apd C) as ND. unfold stub_init_names in ND.
  assert (N1 : NoDup [s2p "self"]) by (constructor; [intros [] | constructor]).
  assert (N2 : NoDup [s2p "cls"; s2p "source_object"; s2p "ignore_props"]).
  { apply nodup_names_spec. vm_compute. reflexivity. }
  assert (NDc : NoDup (classmethod_names (map fst (m_kwparams (stub_init apd apd C))))).
  { unfold classmethod_names. apply NoDup_filter. exact ND. }
  unfold arg_names. rewrite E1, E2, E3.
  cbn [stub_init stub_shallow_clone stub_from_other_class stub_from_trusted_data m_fixed].
  change (filter (fun n => negb (pystr_eqb n (s2p "*"))) [s2p "self"]) with [s2p "self"].
  change (filter (fun n => negb (pystr_eqb n (s2p "*"))) [s2p "cls"; s2p "source_object"; s2p "*"; s2p "ignore_props"])
    with [s2p "cls"; s2p "source_object"; s2p "ignore_props"].
  assert (Hc : forall x, In x [s2p "cls"; s2p "source_object"; s2p "ignore_props"] ->
                         ~ In x (classmethod_names (map fst (m_kwparams (stub_init apd apd C))))).
  { intros x Hx Hin. unfold classmethod_names in Hin. apply filter_In in Hin. destruct Hin as [_ Hin].
    apply negb_true_iff, str_in_false in Hin. apply Hin. exact Hx. }
  split; [|split; apply nodup_app; assumption].
  intro Hself.
  assert (Hs : forall x, In x [s2p "self"] -> ~ In x (map fst (m_kwparams (stub_init apd apd C)))).
  { intros x [<- | []] Hin. apply (stub_init_names_spec apd C (s2p "self")) in Hin. destruct Hin as [Hin _].
    unfold no_self in Hself. apply negb_true_iff, str_in_false in Hself. apply Hself. exact Hin. }
  split; apply nodup_app; assumption.
Qed.
