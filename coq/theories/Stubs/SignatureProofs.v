(* Lemmas about the model of the run-time signature (Stubs/Signature.v). *)
From Coq Require Import List Bool NArith Permutation.
Import ListNotations.
From TP Require Import Base.PyVal Stubs.Signature.

(* ------------------------------------------------------------------ basics *)
Lemma str_in_In n l : str_in n l = true <-> In n l.
Proof.
  unfold str_in. rewrite existsb_exists. split.
  - intros [x [Hx E]]. apply pystr_eqb_spec in E. subst. exact Hx.
  - intro H. exists n. split; [exact H | apply pystr_eqb_refl].
Qed.

Lemma str_in_false n l : str_in n l = false <-> ~ In n l.
Proof.
  rewrite <- str_in_In. destruct (str_in n l); split; intro H.
  - discriminate.
  - exfalso. apply H. reflexivity.
  - discriminate.
  - reflexivity.
Qed.

Lemma pystr_eqb_sym a b : pystr_eqb a b = pystr_eqb b a.
Proof.
  destruct (pystr_eqb a b) eqn:E.
  - apply pystr_eqb_spec in E. subst. symmetry. apply pystr_eqb_refl.
  - destruct (pystr_eqb b a) eqn:E'; [|reflexivity].
    apply pystr_eqb_spec in E'. subst. rewrite pystr_eqb_refl in E. discriminate.
Qed.

Lemma set_add_In n x l : In n (set_add x l) <-> In n l \/ n = x.
Proof.
  unfold set_add. destruct (str_in x l) eqn:E.
  - apply str_in_In in E. split; [intro H; left; exact H | intros [H | H]; [exact H | subst; exact E]].
  - rewrite in_app_iff. cbn [In]. split.
    + intros [H | [H | []]]; [left; exact H | right; symmetry; exact H].
    + intros [H | H]; [left; exact H | right; left; symmetry; exact H].
Qed.

Lemma set_remove_In n x l : In n (set_remove x l) <-> In n l /\ n <> x.
Proof.
  unfold set_remove. rewrite filter_In. split; intros [H1 H2]; split; try exact H1.
  - intro E. subst. rewrite pystr_eqb_refl in H2. discriminate.
  - destruct (pystr_eqb n x) eqn:E; [|reflexivity]. apply pystr_eqb_spec in E. contradiction.
Qed.

Lemma set_union_In n a b : In n (set_union a b) <-> In n a \/ In n b.
Proof.
  unfold set_union. revert a. induction b as [|x b IH]; intro a; cbn [fold_left In].
  - tauto.
  - rewrite IH, set_add_In. split; intros H; intuition.
Qed.

(* ------------------------------------------------------------------ fields by name *)
Fixpoint find_field (l : list fdecl) (n : pystr) : option fdecl :=
  match l with
  | [] => None
  | f :: t => if pystr_eqb (f_name f) n then Some f else find_field t n
  end.

Fixpoint find_last (l : list fdecl) (n : pystr) : option fdecl :=
  match l with
  | [] => None
  | f :: t => match find_last t n with
              | Some g => Some g
              | None => if pystr_eqb (f_name f) n then Some f else None
              end
  end.

Lemma find_field_update acc f n :
  find_field (fields_update acc f) n =
  if pystr_eqb (f_name f) n then
    (* an earlier entry of the same name is replaced in place, otherwise f is appended *)
    Some f
  else find_field acc n.
Proof.
  induction acc as [|g t IH]; cbn [fields_update find_field].
  - reflexivity.
  - destruct (pystr_eqb (f_name g) (f_name f)) eqn:E.
    + apply pystr_eqb_spec in E. cbn [find_field]. rewrite E.
      destruct (pystr_eqb (f_name f) n); reflexivity.
    + cbn [find_field]. rewrite IH.
      destruct (pystr_eqb (f_name g) n) eqn:E2; [|reflexivity].
      apply pystr_eqb_spec in E2. subst n.
      destruct (pystr_eqb (f_name f) (f_name g)) eqn:E3; [|reflexivity].
      rewrite pystr_eqb_sym in E3. congruence.
Qed.

Lemma find_field_fold fs : forall acc n,
  find_field (fold_left fields_update fs acc) n =
  match find_last fs n with Some f => Some f | None => find_field acc n end.
Proof.
  induction fs as [|f t IH]; intros acc n; cbn [fold_left find_last].
  - reflexivity.
  - rewrite IH. destruct (find_last t n); [reflexivity|].
    rewrite find_field_update. destruct (pystr_eqb (f_name f) n); reflexivity.
Qed.

Lemma find_last_name l n f : find_last l n = Some f -> f_name f = n /\ In f l.
Proof.
  induction l as [|g t IH]; cbn [find_last]; [discriminate|].
  destruct (find_last t n) eqn:E.
  - intro H. inversion H. subst. destruct (IH eq_refl) as [A B]. split; [exact A | right; exact B].
  - destruct (pystr_eqb (f_name g) n) eqn:E2; [|discriminate].
    intro H. inversion H. subst. apply pystr_eqb_spec in E2. split; [exact E2 | left; reflexivity].
Qed.

Lemma find_last_none l n : find_last l n = None <-> ~ In n (map f_name l).
Proof.
  induction l as [|g t IH]; cbn [find_last map In]; [tauto|].
  destruct (find_last t n) eqn:E.
  - split; [discriminate|]. intro H. exfalso. apply H. right.
    apply find_last_name in E. destruct E as [A B]. rewrite <- A. apply in_map. exact B.
  - destruct (pystr_eqb (f_name g) n) eqn:E2.
    + apply pystr_eqb_spec in E2. split; [discriminate|]. intro H. exfalso. apply H. left. exact E2.
    + apply pystr_eqb_neq in E2. split; [|reflexivity]. intros _ [H | H]; [contradiction|].
      apply IH in H; [exact H | reflexivity].
Qed.

Lemma find_field_name l n f : find_field l n = Some f -> f_name f = n /\ In f l.
Proof.
  induction l as [|g t IH]; cbn [find_field]; [discriminate|].
  destruct (pystr_eqb (f_name g) n) eqn:E.
  - intro H. inversion H. subst. apply pystr_eqb_spec in E. split; [exact E | left; reflexivity].
  - intro H. destruct (IH H) as [A B]. split; [exact A | right; exact B].
Qed.

Lemma find_field_none l n : find_field l n = None <-> ~ In n (map f_name l).
Proof.
  induction l as [|g t IH]; cbn [find_field map In]; [tauto|].
  destruct (pystr_eqb (f_name g) n) eqn:E.
  - apply pystr_eqb_spec in E. split; [discriminate|]. intro H. exfalso. apply H. left. exact E.
  - apply pystr_eqb_neq in E. rewrite IH. tauto.
Qed.

Lemma find_field_in_names l n : In n (map f_name l) <-> exists f, find_field l n = Some f.
Proof.
  destruct (find_field l n) eqn:E.
  - split; [intros _; eexists; reflexivity|]. intros _.
    apply find_field_name in E. destruct E as [A B]. rewrite <- A. apply in_map. exact B.
  - apply find_field_none in E. split; [contradiction|]. intros [f H]. discriminate.
Qed.

Lemma find_field_nodup l f : NoDup (map f_name l) -> In f l -> find_field l (f_name f) = Some f.
Proof.
  induction l as [|g t IH]; cbn [map find_field In]; [tauto|].
  intros ND [H | H].
  - subst. rewrite pystr_eqb_refl. reflexivity.
  - inversion ND as [|? ? Hn ND']. subst.
    destruct (pystr_eqb (f_name g) (f_name f)) eqn:E.
    + apply pystr_eqb_spec in E. exfalso. apply Hn. rewrite E. apply in_map. exact H.
    + apply IH; assumption.
Qed.

Lemma fields_update_names acc f n :
  In n (map f_name (fields_update acc f)) <-> In n (map f_name acc) \/ n = f_name f.
Proof.
  rewrite !find_field_in_names. rewrite find_field_update.
  destruct (pystr_eqb (f_name f) n) eqn:E.
  - apply pystr_eqb_spec in E. split; [intros _; right; symmetry; exact E | intros _; eexists; reflexivity].
  - apply pystr_eqb_neq in E. split; [intro H; left; exact H|].
    intros [H | H]; [exact H | subst; contradiction].
Qed.

Lemma fields_update_nodup acc f : NoDup (map f_name acc) -> NoDup (map f_name (fields_update acc f)).
Proof.
  induction acc as [|g t IH]; cbn [fields_update map]; intro ND.
  - constructor; [intros [] | constructor].
  - inversion ND as [|? ? Hn ND']. subst.
    destruct (pystr_eqb (f_name g) (f_name f)) eqn:E.
    + apply pystr_eqb_spec in E. cbn [map]. rewrite <- E. constructor; assumption.
    + cbn [map]. constructor; [|apply IH; exact ND'].
      intro H. apply fields_update_names in H. destruct H as [H | H]; [contradiction|].
      apply pystr_eqb_neq in E. contradiction.
Qed.

Lemma fold_update_nodup fs : forall acc, NoDup (map f_name acc) -> NoDup (map f_name (fold_left fields_update fs acc)).
Proof.
  induction fs as [|f t IH]; intros acc ND; cbn [fold_left]; [exact ND|].
  apply IH. apply fields_update_nodup. exact ND.
Qed.

Lemma all_fields_nodup C : NoDup (map f_name (all_fields C)).
Proof.
  induction C as [|b P IH]; cbn [all_fields map]; [constructor|].
  apply fold_update_nodup. exact IH.
Qed.

Lemma all_names_cons b P n :
  In n (all_names (b :: P)) <-> In n (all_names P) \/ In n (own_names b).
Proof.
  unfold all_names. cbn [all_fields].
  assert (Hown : In n (own_names b) <-> find_last (b_fields b) n <> None).
  { unfold own_names. destruct (find_last (b_fields b) n) eqn:E.
    - split; [discriminate|]. intros _.
      apply find_last_name in E. destruct E as [A B]. rewrite <- A. apply in_map. exact B.
    - apply find_last_none in E. split; [contradiction|]. intro H. exfalso. apply H. reflexivity. }
  rewrite Hown. clear Hown.
  rewrite !find_field_in_names. rewrite find_field_fold.
  destruct (find_last (b_fields b) n) eqn:E.
  - split; [|intros _; eexists; reflexivity]. intros _. right. discriminate.
  - split; [intro H; left; exact H|]. intros [H | H]; [exact H | exfalso; apply H; reflexivity].
Qed.

(* constants by lookup *)
Definition is_constant (C : hier) (n : pystr) : bool :=
  match find_field (all_fields C) n with Some f => is_const f | None => false end.

Lemma constants_spec C n : In n (constants C) <-> is_constant C n = true.
Proof.
  unfold constants, is_constant. rewrite in_map_iff. split.
  - intros [f [A B]]. apply filter_In in B. destruct B as [B1 B2].
    subst n. rewrite (find_field_nodup _ _ (all_fields_nodup C) B1). exact B2.
  - destruct (find_field (all_fields C) n) eqn:E; [|discriminate].
    intro H. apply find_field_name in E. destruct E as [A B].
    exists f. split; [exact A|]. apply filter_In. split; assumption.
Qed.

Lemma constants_in_all C n : In n (constants C) -> In n (all_names C).
Proof.
  unfold constants, all_names. rewrite !in_map_iff. intros [f [A B]].
  apply filter_In in B. exists f. tauto.
Qed.

(* a constant of the parent that the class does not redefine is a constant of the class *)
Lemma constant_inherited b P n :
  ~ In n (own_names b) -> is_constant (b :: P) n = is_constant P n.
Proof.
  intro H. unfold is_constant. cbn [all_fields]. rewrite find_field_fold.
  apply find_last_none in H. rewrite H. reflexivity.
Qed.

(* ------------------------------------------------------------------ parameter dicts *)
Lemma params_get_app a b n :
  params_get (a ++ b) n = match params_get a n with Some p => Some p | None => params_get b n end.
Proof.
  induction a as [|p t IH]; cbn [app params_get]; [reflexivity|].
  destruct (pystr_eqb (p_name p) n); [reflexivity | exact IH].
Qed.

Lemma params_get_some l n p : params_get l n = Some p -> In p l /\ p_name p = n.
Proof.
  induction l as [|q t IH]; cbn [params_get]; [discriminate|].
  destruct (pystr_eqb (p_name q) n) eqn:E.
  - intro H. inversion H. subst. apply pystr_eqb_spec in E. split; [left; reflexivity | exact E].
  - intro H. destruct (IH H) as [A B]. split; [right; exact A | exact B].
Qed.

Lemma params_get_none l n : params_get l n = None <-> ~ In n (param_names l).
Proof.
  unfold param_names. induction l as [|q t IH]; cbn [params_get map In]; [tauto|].
  destruct (pystr_eqb (p_name q) n) eqn:E.
  - apply pystr_eqb_spec in E. split; [discriminate|]. intro H. exfalso. apply H. left. exact E.
  - apply pystr_eqb_neq in E. rewrite IH. tauto.
Qed.

Lemma params_has_In l n : params_has l n = true <-> In n (param_names l).
Proof.
  unfold params_has. destruct (params_get l n) eqn:E.
  - split; [|reflexivity]. intros _. apply params_get_some in E. destruct E as [A B].
    rewrite <- B. unfold param_names. apply in_map. exact A.
  - apply params_get_none in E. split; [discriminate | contradiction].
Qed.

Lemma dict_merge_names a b n :
  In n (param_names (dict_merge a b)) <-> In n (param_names a) \/ In n (param_names b).
Proof.
  unfold dict_merge, param_names. rewrite map_app, in_app_iff, !in_map_iff. split.
  - intros [[p [A B]] | [p [A B]]].
    + apply in_map_iff in B. destruct B as [q [B1 B2]]. subst p.
      destruct (params_get b (p_name q)) eqn:E.
      * apply params_get_some in E. destruct E as [E1 E2]. left. exists q. split; [congruence | exact B2].
      * left. exists q. tauto.
    + apply filter_In in B. right. exists p. tauto.
  - intros [[p [A B]] | [p [A B]]].
    + left. destruct (params_get b (p_name p)) eqn:E.
      * exists p0. split; [apply params_get_some in E; destruct E; congruence|].
        apply in_map_iff. exists p. rewrite E. tauto.
      * exists p. split; [exact A|]. apply in_map_iff. exists p. rewrite E. tauto.
    + destruct (params_has a (p_name p)) eqn:E.
      * apply params_has_In in E. unfold param_names in E. apply in_map_iff in E.
        destruct E as [q [E1 E2]]. left.
        destruct (params_get b (p_name q)) eqn:E3.
        -- exists p0. split; [apply params_get_some in E3; destruct E3; congruence|].
           apply in_map_iff. exists q. rewrite E3. tauto.
        -- exists q. split; [congruence|]. apply in_map_iff. exists q. rewrite E3. tauto.
      * right. exists p. split; [exact A|]. apply filter_In. rewrite E. tauto.
Qed.

Lemma dict_merge_all (Q : param -> Prop) a b :
  (forall p, In p b -> Q p) ->
  (forall p, In p a -> ~ In (p_name p) (param_names b) -> Q p) ->
  forall p, In p (dict_merge a b) -> Q p.
Proof.
  intros Hb Ha p H. unfold dict_merge in H. apply in_app_iff in H. destruct H as [H | H].
  - apply in_map_iff in H. destruct H as [q [H1 H2]].
    destruct (params_get b (p_name q)) eqn:E.
    + subst p. apply params_get_some in E. apply Hb. tauto.
    + subst p. apply Ha; [exact H2|]. apply params_get_none. exact E.
  - apply filter_In in H. apply Hb. tauto.
Qed.

Lemma param_names_mk d l : param_names (map (mk_param d) l) = l.
Proof. unfold param_names. rewrite map_map. cbn [mk_param p_name]. apply map_id. Qed.

Lemma nodup_names_spec l : nodup_names l = true <-> NoDup l.
Proof.
  induction l as [|x t IH]; cbn [nodup_names].
  - split; [constructor | reflexivity].
  - rewrite andb_true_iff, negb_true_iff, str_in_false, IH. split.
    + intros [A B]. constructor; assumption.
    + intro H. inversion H. tauto.
Qed.

(* ------------------------------------------------------------------ the signature *)
Section WithDefault.
  Variable apd : bool.

  (* the pieces of make_signature *)
  Definition nd_part (b : body) (consts : list pystr) (bp : list param) : list param :=
    let required := required_own b in
    let br := param_names (filter (fun p => negb (p_default p)) bp) in
    let allnames := set_union (param_names bp) (own_names b) in
    dict_merge
      (filter (fun p => (str_in (p_name p) required || str_in (p_name p) br) && negb (str_in (p_name p) consts)) bp)
      (map (mk_param false) (filter (fun n => str_in n required) (filter (fun n => negb (str_in n consts)) allnames))).

  Definition d_part (b : body) (consts : list pystr) (bp : list param) : list param :=
    let required := required_own b in
    let br := param_names (filter (fun p => negb (p_default p)) bp) in
    dict_merge
      (filter (fun p => negb (str_in (p_name p) required) && negb (str_in (p_name p) br)
                        && negb (str_in (p_name p) consts)) bp)
      (map (mk_param true) (filter (fun n => negb (str_in n required) && negb (str_in n consts)) (own_names b))).

  Lemma make_signature_parts b consts bp :
    s_params (make_signature apd b consts bp) = nd_part b consts bp ++ d_part b consts bp.
  Proof. reflexivity. Qed.

  Lemma br_spec bp n :
    In n (param_names (filter (fun p => negb (p_default p)) bp)) <->
    exists p, In p bp /\ p_name p = n /\ p_default p = false.
  Proof.
    unfold param_names. rewrite in_map_iff. split.
    - intros [p [A B]]. apply filter_In in B. destruct B as [B1 B2]. apply negb_true_iff in B2. eauto.
    - intros [p [A [B D]]]. exists p. split; [exact B|]. apply filter_In. rewrite D. tauto.
  Qed.

  Lemma nd_part_names b consts bp n :
    In n (param_names (nd_part b consts bp)) <->
    (In n (param_names bp) \/ In n (own_names b)) /\ ~ In n consts /\
    (In n (required_own b) \/ In n (param_names (filter (fun p => negb (p_default p)) bp))).
  Proof.
    unfold nd_part. rewrite dict_merge_names, param_names_mk.
    rewrite !filter_In, set_union_In, str_in_In, negb_true_iff, str_in_false.
    unfold param_names at 1. rewrite in_map_iff. split.
    - intros [[p [A B]] | H].
      + apply filter_In in B. destruct B as [B1 B2]. apply andb_true_iff in B2. destruct B2 as [B2 B3].
        apply orb_true_iff in B2. apply negb_true_iff, str_in_false in B3. subst n.
        split; [left; unfold param_names; apply in_map; exact B1|]. split; [exact B3|].
        destruct B2 as [B2 | B2]; apply str_in_In in B2; tauto.
      + tauto.
    - intros [H1 [H2 [H3 | H3]]].
      + right. tauto.
      + left. pose proof H3 as H4. apply br_spec in H4. destruct H4 as [p [A [B D]]].
        exists p. split; [exact B|]. apply filter_In. split; [exact A|].
        apply andb_true_iff. split.
        * apply orb_true_iff. right. apply str_in_In. rewrite B. exact H3.
        * apply negb_true_iff, str_in_false. rewrite B. exact H2.
  Qed.

  Lemma d_part_names b consts bp n :
    In n (param_names (d_part b consts bp)) <->
    (In n (param_names bp) \/ In n (own_names b)) /\ ~ In n consts /\
    ~ In n (required_own b) /\
    (In n (own_names b) \/ ~ In n (param_names (filter (fun p => negb (p_default p)) bp))).
  Proof.
    unfold d_part. rewrite dict_merge_names, param_names_mk.
    rewrite filter_In, andb_true_iff, !negb_true_iff, !str_in_false.
    unfold param_names at 1. rewrite in_map_iff. split.
    - intros [[p [A B]] | H].
      + apply filter_In in B. destruct B as [B1 B2].
        rewrite !andb_true_iff, !negb_true_iff, !str_in_false in B2. subst n.
        split; [left; unfold param_names; apply in_map; exact B1 | tauto].
      + tauto.
    - intros [H1 [H2 [H3 H4]]].
      destruct (in_dec (list_eq_dec N.eq_dec) n (own_names b)) as [Ho | Ho].
      + right. tauto.
      + left. destruct H1 as [H1 | H1]; [|contradiction]. destruct H4 as [H4 | H4]; [contradiction|].
        unfold param_names in H1. apply in_map_iff in H1. destruct H1 as [p [A B]].
        exists p. split; [exact A|]. apply filter_In. split; [exact B|].
        rewrite !andb_true_iff, !negb_true_iff, !str_in_false. rewrite A. tauto.
  Qed.

  (* names of the signature = all field names except constants *)
  Lemma sig_names_spec C n :
    In n (sig_names apd C) <-> In n (all_names C) /\ ~ In n (constants C).
  Proof.
    revert n. induction C as [|b P IH]; intro n.
    - cbn. tauto.
    - unfold sig_names. cbn [sig]. rewrite make_signature_parts.
      unfold param_names. rewrite map_app, in_app_iff. fold (param_names (nd_part b (constants (b :: P)) (s_params (sig apd P)))).
      fold (param_names (d_part b (constants (b :: P)) (s_params (sig apd P)))).
      rewrite nd_part_names, d_part_names, all_names_cons.
      fold (sig_names apd P). rewrite IH.
      set (br := param_names (filter (fun p => negb (p_default p)) (s_params (sig apd P)))).
      destruct (in_dec (list_eq_dec N.eq_dec) n (own_names b)) as [Ho | Ho].
      + destruct (in_dec (list_eq_dec N.eq_dec) n (required_own b)); tauto.
      + (* not redefined: constant-ness is inherited *)
        assert (Hc : In n (constants (b :: P)) <-> In n (constants P)).
        { rewrite !constants_spec. rewrite (constant_inherited b P n Ho). tauto. }
        destruct (in_dec (list_eq_dec N.eq_dec) n (required_own b));
          destruct (in_dec (list_eq_dec N.eq_dec) n br); tauto.
  Qed.

  (* every parameter of the first group lacks a default, every one of the second has one *)
  Lemma nd_part_flags b consts bp :
    NoDup (param_names bp) ->
    forall p, In p (nd_part b consts bp) -> p_default p = false.
  Proof.
    intros ND. unfold nd_part. apply dict_merge_all.
    - intros p H. apply in_map_iff in H. destruct H as [x [H _]]. subst p. reflexivity.
    - intros p H Hn. apply filter_In in H. destruct H as [H1 H2].
      rewrite param_names_mk in Hn.
      apply andb_true_iff in H2. destruct H2 as [H2 H3]. apply orb_true_iff in H2.
      apply negb_true_iff in H3.
      destruct H2 as [H2 | H2].
      + exfalso. apply Hn. rewrite !filter_In. split; [|exact H2]. split.
        * apply set_union_In. left. unfold param_names. apply in_map. exact H1.
        * rewrite H3. reflexivity.
      + apply str_in_In, br_spec in H2. destruct H2 as [q [A [B D]]].
        (* unique names: q = p *)
        assert (E : q = p).
        { clear - ND A B H1. unfold param_names in ND. induction bp as [|r t IHt]; [destruct A|].
          cbn [map] in ND. inversion ND as [|? ? Hn ND']. subst.
          destruct A as [A | A]; destruct H1 as [H1 | H1]; subst.
          - reflexivity.
          - exfalso. apply Hn. rewrite B. apply in_map. exact H1.
          - exfalso. apply Hn. rewrite <- B. apply in_map. exact A.
          - apply IHt; assumption. }
        subst q. exact D.
  Qed.

  Lemma d_part_flags b consts bp :
    forall p, In p (d_part b consts bp) -> p_default p = true.
  Proof.
    unfold d_part. apply dict_merge_all.
    - intros p H. apply in_map_iff in H. destruct H as [x [H _]]. subst p. reflexivity.
    - intros p H _. apply filter_In in H. destruct H as [H1 H2].
      rewrite !andb_true_iff, !negb_true_iff in H2. destruct H2 as [[_ H2] _].
      destruct (p_default p) eqn:E; [reflexivity|]. exfalso.
      apply str_in_false in H2. apply H2. apply br_spec. exists p. tauto.
  Qed.

  Lemma def_ok_cons b P : def_ok apd (b :: P) = true ->
    def_ok apd P = true /\ NoDup (sig_names apd (b :: P)).
  Proof.
    cbn [def_ok]. rewrite !andb_true_iff. intros [[[A _] _] B].
    apply nodup_names_spec in B. tauto.
  Qed.

  Lemma def_ok_nodup C : def_ok apd C = true -> NoDup (sig_names apd C).
  Proof.
    destruct C as [|b P]; intro H; [constructor|]. apply def_ok_cons in H. tauto.
  Qed.

  Lemma required_attr_cons b P n :
    In n (required_attr apd (b :: P)) <-> In n (bases_required apd (b :: P)) \/ In n (required_own b).
  Proof. cbn [required_attr]. apply set_union_In. Qed.

  (* a parameter lacks a default in the run-time signature iff its name is in _required *)
  Lemma sig_required_spec C n :
    def_ok apd C = true -> In n (sig_names apd C) ->
    (sig_required apd C n = true <-> In n (required_attr apd C)).
  Proof.
    destruct C as [|b P]; intros Hok Hin; [destruct Hin|].
    apply def_ok_cons in Hok. destruct Hok as [HokP _]. apply def_ok_nodup in HokP.
    unfold sig_names in Hin. unfold sig_required. cbn [sig] in *. rewrite make_signature_parts in *.
    set (consts := constants (b :: P)) in *. set (bp := s_params (sig apd P)) in *.
    rewrite params_get_app. rewrite required_attr_cons. cbn [bases_required]. fold bp.
    unfold param_names in Hin. rewrite map_app, in_app_iff in Hin.
    fold (param_names (nd_part b consts bp)) in Hin. fold (param_names (d_part b consts bp)) in Hin.
    destruct (params_get (nd_part b consts bp) n) eqn:E.
    - apply params_get_some in E. destruct E as [E1 E2].
      rewrite (nd_part_flags b consts bp HokP p E1). cbn [negb].
      split; [intros _ | reflexivity].
      assert (Hn : In n (param_names (nd_part b consts bp))).
      { rewrite <- E2. unfold param_names. apply in_map. exact E1. }
      apply nd_part_names in Hn. tauto.
    - apply params_get_none in E.
      destruct Hin as [Hin | Hin]; [contradiction|].
      assert (Hd : exists p, params_get (d_part b consts bp) n = Some p).
      { destruct (params_get (d_part b consts bp) n) eqn:E2; [eauto|].
        apply params_get_none in E2. contradiction. }
      destruct Hd as [p Hp]. rewrite Hp. apply params_get_some in Hp. destruct Hp as [Hp1 Hp2].
      rewrite (d_part_flags b consts bp p Hp1). cbn [negb].
      split; [discriminate|]. intro H. exfalso. apply E. apply nd_part_names.
      apply d_part_names in Hin. tauto.
  Qed.
End WithDefault.
