(* The tie between the GENERATED translation of the stub generator (Gen/StubsSrc.v: what get_all_type_info,
   _get_ordered_args, get_init and get_additional_structure_methods of typedpy/stubs say NOW) and the
   hand-written model on which the C16 theorems are proved (Stubs/StubModel.v).
   For EVERY class description C (any number of fields, any inheritance depth), every rest of the heap, every
   representation of Field objects and every oracle for the text of one field's type that respects the
   field's token ([ext_ok]): running the generated functions on the Python-level view of C
   (Stubs/StubsSrcView.v) gives exactly the texts whose reading ([abs_entry], [abs_def]) is the model's
   [type_info], [ordered_args], [stub_init], [stub_shallow_clone], [stub_from_other_class],
   [stub_from_trusted_data]. *)
From Coq Require Import ZArith NArith String Ascii Bool Lia List.
Import ListNotations.
From TP Require Import Base.PyVal Base.PyOps Base.PyOps2 Base.PyObj Base.PyOpsDerive Base.PyOpsStubs
     Stubs.Signature Stubs.SignatureProofs Stubs.StubModel Stubs.StubProofs
     Gen.StubsSrc Stubs.StubsSrcView.

(* ------------------------------------------------------------------ association lists *)

Lemma alist_has_app {A} (a b : list (pystr * A)) n : alist_has (a ++ b) n = alist_has a n || alist_has b n.
Proof.
  unfold alist_has. induction a as [|[k v] t IH]; cbn [app alist_get].
  - destruct (alist_get b n); reflexivity.
  - destruct (pystr_eqb k n); [reflexivity|exact IH].
Qed.

Lemma alist_set_fresh {A} (l : list (pystr * A)) n v : alist_has l n = false -> alist_set l n v = l ++ [(n, v)].
Proof.
  unfold alist_has. induction l as [|[k x] t IH]; cbn [alist_get alist_set app]; [reflexivity|].
  destruct (pystr_eqb k n); [discriminate|]. intro H. f_equal. apply IH. exact H.
Qed.

Lemma alist_has_In {A} (l : list (pystr * A)) n : alist_has l n = true <-> In n (map fst l).
Proof.
  unfold alist_has. induction l as [|[k x] t IH]; cbn [alist_get map fst In].
  - split; [discriminate|contradiction].
  - destruct (pystr_eqb k n) eqn:E.
    + apply pystr_eqb_spec in E. split; [intros _; left; exact E|reflexivity].
    + rewrite IH. split; [intro H; right; exact H|]. intros [H|H]; [|exact H].
      apply pystr_eqb_neq in E. contradiction.
Qed.

Lemma alist_has_false {A} (l : list (pystr * A)) n : alist_has l n = false <-> ~ In n (map fst l).
Proof.
  rewrite <- alist_has_In. destruct (alist_has l n).
  - split; [discriminate | intro H; exfalso; apply H; reflexivity].
  - split; [intros _ H; discriminate | reflexivity].
Qed.

(* d[key a] = val a for the selected a, all keys new and distinct: appended in order *)
Lemma fold_set_fresh {A} (key : A -> pystr) (val : A -> pystr) (p : A -> bool) l : forall acc,
  NoDup (map key l) -> (forall a, In a l -> alist_has acc (key a) = false) ->
  fold_left (fun acc a => if p a then alist_set acc (key a) (val a) else acc) l acc
  = acc ++ map (fun a => (key a, val a)) (filter p l).
Proof.
  induction l as [|x t IH]; intros acc Hnd Hfr; cbn [fold_left filter map].
  - rewrite app_nil_r. reflexivity.
  - cbn [map] in Hnd. inversion Hnd as [|? ? Hn Hd]; subst.
    destruct (p x).
    + rewrite alist_set_fresh by (apply Hfr; left; reflexivity).
      rewrite IH; [cbn [map]; rewrite <- app_assoc; reflexivity | exact Hd |].
      intros a Ha. rewrite alist_has_app, (Hfr a (or_intror Ha)). cbn [orb].
      unfold alist_has. cbn [alist_get]. destruct (pystr_eqb (key x) (key a)) eqn:E; [|reflexivity].
      apply pystr_eqb_spec in E. exfalso. apply Hn. rewrite E. apply in_map. exact Ha.
    + apply IH; [exact Hd|]. intros a Ha. apply Hfr. right. exact Ha.
Qed.

Lemma map_pair_id {A B} (l : list (A * B)) : map (fun a => (fst a, snd a)) l = l.
Proof. induction l as [|[a b] t IH]; [reflexivity|]. cbn [map fst snd]. f_equal. exact IH. Qed.

Lemma filter_true_id {A} (l : list A) : filter (fun _ => true) l = l.
Proof. induction l as [|x t IH]; [reflexivity|]. cbn [filter]. f_equal. exact IH. Qed.

Lemma NoDup_app_inv {A} (a b : list A) :
  NoDup (a ++ b) -> NoDup a /\ NoDup b /\ (forall x, In x a -> ~ In x b).
Proof.
  induction a as [|x t IH]; cbn [app]; intro H.
  - split; [constructor|]. split; [exact H|]. intros ? [].
  - inversion H as [|? ? Hn Hd]; subst. destruct (IH Hd) as [Ha [Hb Hx]].
    split; [constructor; [intro Hin; apply Hn; apply in_or_app; left; exact Hin|exact Ha]|].
    split; [exact Hb|]. intros y [E|Hy]; [subst; intro Hin; apply Hn; apply in_or_app; right; exact Hin|].
    apply Hx. exact Hy.
Qed.

Lemma nodup_names_NoDup l : nodup_names l = true -> NoDup l.
Proof. apply nodup_names_spec. Qed.

(* ------------------------------------------------------------------ dicts with str keys *)

Lemma py_eq_str a b : py_eq (PStr a) (PStr b) = pystr_eqb a b.
Proof. reflexivity. Qed.

(* a dict whose keys are the names of the entries of l *)
Section Keyed.
  Context {A : Type} (key : A -> pystr) (val : A -> pyval).
  Definition kitem (a : A) : pyval * pyval := (PStr (key a), val a).

  Lemma dict_get_keyed l n : dict_get (map kitem l) (PStr n) = alist_get (map (fun a => (key a, val a)) l) n.
  Proof.
    induction l as [|x t IH]; [reflexivity|].
    cbn [map kitem dict_get alist_get]. rewrite py_eq_str. destruct (pystr_eqb (key x) n); [reflexivity|exact IH].
  Qed.

  Lemma py_in_dyn_keyed l n : py_in_dyn (PStr n) (PDict (map kitem l)) = Ok (str_in n (map key l)).
  Proof.
    cbn [py_in_dyn py_hashable']. unfold dict_has. rewrite dict_get_keyed. f_equal.
    induction l as [|x t IH]; [reflexivity|].
    cbn [map alist_get str_in existsb]. rewrite (pystr_eqb_sym n (key x)).
    destruct (pystr_eqb (key x) n); [reflexivity|]. exact IH.
  Qed.

  Lemma py_dict_items_keyed l :
    py_dict_items (PDict (map kitem l)) = Ok (map (fun a => PTuple [PStr (key a); val a]) l).
  Proof. cbn [py_dict_items]. rewrite map_map. reflexivity. Qed.
End Keyed.

Lemma sdict_keyed l : sdict l = PDict (map (kitem fst (fun kv => PStr (snd kv))) l).
Proof. reflexivity. Qed.

Lemma dict_set_sdict l k v : dict_set (map sentry l) (PStr k) (PStr v) = map sentry (alist_set l k v).
Proof.
  induction l as [|[a b] t IH]; [reflexivity|].
  cbn [map sentry fst snd dict_set alist_set]. rewrite py_eq_str.
  destruct (pystr_eqb a k); [reflexivity|]. cbn [map sentry fst snd]. f_equal. exact IH.
Qed.

Lemma py_setitem_sdict l k v : py_setitem (sdict l) (PStr k) (PStr v) = Ok (sdict (alist_set l k v)).
Proof. unfold sdict. cbn [py_setitem py_hashable']. rewrite dict_set_sdict. reflexivity. Qed.

Lemma py_in_dyn_sdict l k : py_in_dyn (PStr k) (sdict l) = Ok (alist_has l k).
Proof.
  rewrite sdict_keyed, py_in_dyn_keyed. f_equal.
  destruct (alist_has l k) eqn:E.
  - apply str_in_In. apply alist_has_In. exact E.
  - apply str_in_false. apply alist_has_false. exact E.
Qed.

Definition sitem (kv : pystr * pystr) : pyval := PTuple [PStr (fst kv); PStr (snd kv)].

Lemma py_dict_items_sdict l : py_dict_items (sdict l) = Ok (map sitem l).
Proof. rewrite sdict_keyed, py_dict_items_keyed. reflexivity. Qed.

Lemma py_in_dyn_strs n ns : py_in_dyn (PStr n) (PList (map PStr ns)) = Ok (str_in n ns).
Proof.
  cbn [py_in_dyn]. unfold py_in_lit, py_in, str_in. f_equal.
  induction ns as [|x t IH]; [reflexivity|]. cbn [map existsb]. rewrite py_eq_str, IH. reflexivity.
Qed.

Lemma py_in_dyn_strs_tuple n ns : py_in_dyn (PStr n) (PTuple (map PStr ns)) = Ok (str_in n ns).
Proof.
  cbn [py_in_dyn]. unfold py_in_lit, py_in, str_in. f_equal.
  induction ns as [|x t IH]; [reflexivity|]. cbn [map existsb]. rewrite py_eq_str, IH. reflexivity.
Qed.

Lemma py_unpack_pair a b : py_unpack 2 false (PTuple [a; b]) = Ok [a; b].
Proof. reflexivity. Qed.

(* ------------------------------------------------------------------ loops and comprehensions *)

(* a loop over the items `item a` whose state is a dict of texts *)
Lemma foldM_sdict {A} (item : A -> pyval) (f : pyval -> pyval -> res pyval)
      (g : list (pystr * pystr) -> A -> list (pystr * pystr)) l :
  (forall acc a, In a l -> f (sdict acc) (item a) = Ok (sdict (g acc a))) ->
  forall acc, py_foldM f (map item l) (sdict acc) = Ok (sdict (fold_left g l acc)).
Proof.
  induction l as [|x t IH]; intros H acc; [reflexivity|].
  cbn [map py_foldM fold_left]. rewrite (H acc x (or_introl eq_refl)). cbn [bind].
  apply IH. intros acc' a Ha. apply H. right. exact Ha.
Qed.

(* a filtered list comprehension [g a for a in l if p a], as the fold that appends *)
Lemma foldM_list_filter {A} (item : A -> pyval) (f : pyval -> pyval -> res pyval) (p : A -> bool) (g : A -> pystr) l :
  (forall acc a, In a l -> f (PList acc) (item a) = Ok (PList (if p a then acc ++ [PStr (g a)] else acc))) ->
  forall acc, py_foldM f (map item l) (PList acc) = Ok (PList (acc ++ map PStr (map g (filter p l)))).
Proof.
  induction l as [|x t IH]; intros H acc.
  - cbn [map py_foldM filter]. rewrite app_nil_r. reflexivity.
  - cbn [map py_foldM filter]. rewrite (H acc x (or_introl eq_refl)). cbn [bind].
    rewrite IH by (intros acc' a Ha; apply H; right; exact Ha).
    destruct (p x); [|reflexivity]. cbn [map]. rewrite <- app_assoc. reflexivity.
Qed.

Lemma mapM_items {A} (item : A -> pyval) (f : pyval -> res pyval) (g : A -> pyval) l :
  (forall a, In a l -> f (item a) = Ok (g a)) -> py_mapM f (map item l) = Ok (map g l).
Proof.
  unfold py_mapM. induction l as [|x t IH]; intro H; [reflexivity|].
  cbn [map mapM]. rewrite (H x (or_introl eq_refl)). cbn [bind].
  rewrite IH by (intros a Ha; apply H; right; exact Ha). reflexivity.
Qed.

Lemma as_strs_strs ss : as_strs (map PStr ss) = Some ss.
Proof. induction ss as [|s t IH]; [reflexivity|]. cbn [map as_strs]. rewrite IH. reflexivity. Qed.

Lemma py_str_join_strs sep ss : py_str_join (PStr sep) (PList (map PStr ss)) = Ok (PStr (join_strs sep ss)).
Proof. cbn [py_str_join py_iter_items bind]. rewrite as_strs_strs. reflexivity. Qed.

Lemma py_add_lists a b : py_add (PList a) (PList b) = Ok (PList (a ++ b)).
Proof. reflexivity. Qed.

Lemma py_format_str s : py_format (PStr s) = Ok s.
Proof. reflexivity. Qed.

Lemma py_add_strs a b : py_add (PStr a) (PStr b) = Ok (PStr (a ++ b)).
Proof. reflexivity. Qed.

(* { **a, **b } for two dicts of texts with disjoint, distinct keys *)
Lemma fold_dict_set_sdict l : forall acc,
  fold_left (fun a p => dict_set a (fst p) (snd p)) (map sentry l) (map sentry acc)
  = map sentry (fold_left (fun a kv => alist_set a (fst kv) (snd kv)) l acc).
Proof.
  induction l as [|[k v] t IH]; intro acc; [reflexivity|].
  cbn [map fold_left sentry fst snd]. rewrite dict_set_sdict. apply IH.
Qed.

Lemma py_dict_unpack_sdict a b :
  NoDup (map fst (a ++ b)) -> py_dict_unpack [sdict a; sdict b] = Ok (sdict (a ++ b)).
Proof.
  intro Hnd. unfold py_dict_unpack, sdict. cbn [py_dict_unpack_all].
  change (@nil (pyval * pyval)) with (map sentry []).
  rewrite !fold_dict_set_sdict. do 2 f_equal.
  pose proof (fold_set_fresh (A := pystr * pystr) fst snd (fun _ => true)) as F. cbn beta in F.
  rewrite map_app in Hnd. destruct (NoDup_app_inv _ _ Hnd) as [Ha [Hb Hx]].
  rewrite (F a []); [|exact Ha|intros; reflexivity].
  cbn [app]. rewrite (F b); [|exact Hb|].
  - rewrite !filter_true_id, !map_pair_id. reflexivity.
  - intros x Hin. rewrite filter_true_id, map_pair_id. apply alist_has_false. intro Hin'.
    apply (Hx _ Hin'). apply in_map. exact Hin.
Qed.

(* ------------------------------------------------------------------ _get_ordered_args *)

Lemma py_str_endswith_str s suf : py_str_endswith (PStr s) suf = Ok (str_endswith suf s).
Proof. reflexivity. Qed.

Lemma py_str_startswith_str s pre : py_str_startswith (PStr s) pre = Ok (str_startswith pre s).
Proof. reflexivity. Qed.

(* in a dict (distinct keys), the key of an entry is among the selected entries iff the entry is selected *)
Lemma has_filter_nodup (P : pystr * pystr -> bool) l kv :
  NoDup (map fst l) -> In kv l -> alist_has (filter P l) (fst kv) = P kv.
Proof.
  induction l as [|x t IH]; intros Hnd Hin; [contradiction|].
  cbn [map] in Hnd. inversion Hnd as [|? ? Hn Hd]; subst. cbn [filter]. destruct Hin as [E|Hin].
  - subst x. destruct (P kv) eqn:HP.
    + unfold alist_has. destruct kv as [k v]. cbn [alist_get fst]. rewrite pystr_eqb_refl. reflexivity.
    + apply alist_has_false. intro H. apply Hn. apply in_map_iff in H as [y [Hy1 Hy2]].
      apply filter_In in Hy2 as [Hy2 _]. rewrite <- Hy1. apply in_map. exact Hy2.
  - assert (Hne : pystr_eqb (fst x) (fst kv) = false).
    { apply pystr_eqb_neq. intro E. apply Hn. rewrite E. apply in_map. exact Hin. }
    destruct (P x).
    + unfold alist_has. destruct x as [k v]. cbn [alist_get fst] in *. rewrite Hne. apply IH; assumption.
    + apply IH; assumption.
Qed.

Lemma ordered_text_nodup l : NoDup (map fst l) -> NoDup (map fst (ordered_text l)).
Proof.
  apply Permutation.Permutation_NoDup, Permutation.Permutation_map.
  apply (partition_perm (fun kv => ends_none_text (snd kv))).
Qed.

Theorem get_ordered_args_src_eq : forall (h : heap) (l : list (pystr * pystr)),
  nodup_names (map fst l) = true ->
  get_ordered_args h (sdict l) = Ok (sdict (ordered_text l)).
Proof.
  intros h l Hnd. apply nodup_names_NoDup in Hnd.
  unfold get_ordered_args. rewrite py_dict_items_sdict. cbn [bind].
  change (PDict []) with (sdict []).
  (* optional_args *)
  rewrite (foldM_sdict sitem _
             (fun acc kv => if ends_none_text (snd kv) then alist_set acc (fst kv) (snd kv) else acc)).
  2:{ intros acc [k v] _. unfold sitem. cbn [fst snd]. rewrite py_unpack_pair. cbn [bind].
      rewrite py_str_endswith_str. cbn [bind]. unfold ends_none_text, none_suffix.
      destruct (str_endswith _ v); [apply py_setitem_sdict|reflexivity]. }
  cbn [bind].
  rewrite (fold_set_fresh fst snd (fun kv => ends_none_text (snd kv)) l []);
    [|exact Hnd|intros; reflexivity].
  cbn [app]. rewrite map_pair_id.
  (* mandatory_args: `k not in optional_args`, or the negated test on the text itself *)
  rewrite (foldM_sdict sitem _
             (fun acc kv => if negb (ends_none_text (snd kv)) then alist_set acc (fst kv) (snd kv) else acc)).
  2:{ intros acc [k v] Hin. unfold sitem. cbn [fst snd]. rewrite py_unpack_pair. cbn [bind].
      first [ rewrite py_in_dyn_sdict, (has_filter_nodup _ l (k, v) Hnd Hin)
            | rewrite py_str_endswith_str; unfold ends_none_text, none_suffix ].
      cbn [py_not bind snd].
      destruct (negb _); [apply py_setitem_sdict|reflexivity]. }
  cbn [bind].
  rewrite (fold_set_fresh fst snd _ l []); [|exact Hnd|intros; reflexivity].
  cbn [app]. rewrite map_pair_id.
  (* {**mandatory_args, **optional_args} *)
  rewrite py_dict_unpack_sdict; [reflexivity|]. apply (ordered_text_nodup l Hnd).
Qed.

Theorem ordered_text_abs : forall l, map abs_entry (ordered_text l) = ordered_args (map abs_entry l).
Proof.
  intro l. unfold ordered_text, ordered_args. rewrite map_app. f_equal.
  - induction l as [|[k v] t IH]; [reflexivity|]. cbn [map filter abs_entry fst snd].
    destruct (ends_none_text v); cbn [negb map abs_entry fst snd]; [|f_equal]; exact IH.
  - induction l as [|[k v] t IH]; [reflexivity|]. cbn [map filter abs_entry fst snd].
    destruct (ends_none_text v); cbn [map abs_entry fst snd]; [f_equal|]; exact IH.
Qed.

(* ------------------------------------------------------------------ texts of defs *)

Lemma fold_set_all {A} (key : A -> pystr) (val : A -> pystr) l acc :
  NoDup (map key l) -> (forall a, In a l -> alist_has acc (key a) = false) ->
  fold_left (fun acc a => alist_set acc (key a) (val a)) l acc = acc ++ map (fun a => (key a, val a)) l.
Proof.
  intros Hnd Hfr. pose proof (fold_set_fresh key val (fun _ => true) l acc Hnd Hfr) as H.
  rewrite filter_true_id in H. exact H.
Qed.

Lemma mapM_items_str {A} (item : A -> pyval) (f : pyval -> res pyval) (g : A -> pystr) l :
  (forall a, In a l -> f (item a) = Ok (PStr (g a))) -> py_mapM f (map item l) = Ok (map PStr (map g l)).
Proof. intro H. rewrite map_map. apply mapM_items. exact H. Qed.

Lemma as_strs_app a a' b : as_strs a = Some a' -> as_strs (a ++ map PStr b) = Some (a' ++ b).
Proof.
  revert a'. induction a as [|x t IH]; intros a' H.
  - cbn [as_strs] in H. inversion H; subst. cbn [app]. apply as_strs_strs.
  - cbn [as_strs app] in *. destruct x; try discriminate.
    destruct (as_strs t) as [r|]; [|discriminate]. inversion H; subst.
    rewrite (IH r eq_refl). reflexivity.
Qed.

(* sep.join(<closed list of str> + <list of str>) *)
Lemma join_app_strs sep a a' b :
  as_strs a = Some a' -> py_str_join (PStr sep) (PList (a ++ map PStr b)) = Ok (PStr (join_strs sep (a' ++ b))).
Proof. intro H. cbn [py_str_join py_iter_items bind]. rewrite (as_strs_app _ _ _ H). reflexivity. Qed.

Lemma join_closed_strs sep a a' :
  as_strs a = Some a' -> py_str_join (PStr sep) (PList a) = Ok (PStr (join_strs sep a')).
Proof. intro H. cbn [py_str_join py_iter_items bind]. rewrite H. reflexivity. Qed.

(* INDENT * 2 and the like: closed, evaluated *)
Ltac eval_mul :=
  repeat match goal with
  | |- context [py_mul (PStr ?s) (zint ?n)] =>
      let r := eval vm_compute in (py_mul (PStr s) (zint n)) in
      change (py_mul (PStr s) (zint n)) with r
  end.

(* the straight-line part of a text-building function: every operation on closed or already computed
   operands is replaced by its value *)
Ltac run :=
  repeat first
    [ progress eval_mul
    | rewrite py_add_lists
    | rewrite py_add_strs
    | erewrite join_app_strs by reflexivity
    | erewrite join_closed_strs by reflexivity
    | progress cbn [bind py_format] ].

Lemma effective_declared d C :
  effective_additional d C = match declared_additional C with Some x => x | None => d end.
Proof.
  induction C as [|b P IH]; [reflexivity|]. cbn [effective_additional declared_additional].
  destruct (b_additional b); [reflexivity|exact IH].
Qed.

Section Cls.
  Variable apd_run : bool.
  Variable h0 : heap.
  Variable fobj : fdecl -> pyval.
  Variable cobj : pystr -> pyval.
  Notation hp := (cls_heap apd_run h0 fobj cobj).

  (* getattr(cls, "_additional_properties", default), as a truth value *)
  Lemma getattr_additional C d :
    obj_getattr_def (hp C) (ref o_cls) (s2p "_additional_properties") (PBool d)
    = Ok (PBool (effective_additional d C)).
  Proof.
    rewrite effective_declared. unfold obj_getattr_def, ref.
    change (pystr_eqb ref_tag ref_tag) with true. cbv iota.
    change (hp C o_cls (s2p "_additional_properties")) with (option_map PBool (declared_additional C)).
    destruct (declared_additional C); reflexivity.
  Qed.

  Theorem get_init_src_eq : forall (C : hier) (l : list (pystr * pystr)) (apd_stub : bool),
    get_init (hp C) (ref o_cls) (sdict l) (PBool apd_stub) = Ok (PStr (init_text l (stub_kw apd_stub C))).
  Proof.
    intros C l apd_stub. unfold get_init. cbv zeta. run.
    rewrite py_dict_items_sdict. cbn [bind].
    rewrite (mapM_items_str sitem _ param_text).
    2:{ intros [k v] _. unfold sitem, param_text. cbn [fst snd]. rewrite py_unpack_pair. run.
        rewrite <- ?app_assoc. reflexivity. }
    run. rewrite getattr_additional. cbn [bind py_truthy]. unfold stub_kw.
    destruct (effective_additional apd_stub C); run; reflexivity.
  Qed.

  Lemma none_text_nodup l : map fst (none_text l) = map fst l.
  Proof. unfold none_text. rewrite map_map. reflexivity. Qed.

  Theorem get_additional_structure_methods_src_eq :
    forall (C : hier) (l : list (pystr * pystr)) (apd_stub : bool),
    nodup_names (map fst l) = true ->
    get_additional_structure_methods (hp C) (ref o_cls) (sdict l) (PBool apd_stub)
    = Ok (PStr (methods_text (none_text l) (stub_kw apd_stub C))).
  Proof.
    intros C l apd_stub Hnd. apply nodup_names_NoDup in Hnd.
    unfold get_additional_structure_methods. cbv zeta.
    rewrite py_dict_items_sdict. cbn [bind]. change (PDict []) with (sdict []).
    (* ordered_args_with_none *)
    rewrite (foldM_sdict sitem _ (fun acc kv => alist_set acc (fst kv) (with_none_text (snd kv)))).
    2:{ intros acc [k v] _. unfold sitem. cbn [fst snd]. rewrite py_unpack_pair. cbn [bind].
        rewrite py_str_endswith_str. cbn [bind]. unfold with_none_text, ends_none_text, none_suffix.
        destruct (str_endswith _ v); cbn [bind py_format]; apply py_setitem_sdict. }
    cbn [bind].
    rewrite (fold_set_all fst (fun kv => with_none_text (snd kv)) l []); [|exact Hnd|intros; reflexivity].
    cbn [app]. fold (none_text l).
    (* params *)
    rewrite py_dict_items_sdict. cbn [bind].
    rewrite (mapM_items_str sitem _ param_text).
    2:{ intros [k v] _. unfold sitem, param_text. cbn [fst snd]. rewrite py_unpack_pair. run.
        rewrite <- ?app_assoc. reflexivity. }
    run. rewrite getattr_additional. cbn [bind py_truthy]. unfold stub_kw.
    (* classmethod_params: the comprehension filtered by the classmethods' own parameter names *)
    rewrite (foldM_list_filter sitem _ (fun kv => negb (str_in (fst kv) classmethod_own)) param_text).
    2:{ intros acc [k v] _. unfold sitem. cbn [fst snd]. rewrite py_unpack_pair. cbn [bind].
        change (PTuple [PStr (s2p "cls"); PStr (s2p "source_object"); PStr (s2p "ignore_props")])
          with (PTuple (map PStr classmethod_own)).
        rewrite py_in_dyn_strs_tuple. unfold py_not. cbn [bind].
        destruct (str_in k classmethod_own); cbn [negb]; [reflexivity|].
        cbn [bind py_format py_list_append]. unfold param_text. cbn [fst snd].
        rewrite <- ?app_assoc. reflexivity. }
    cbn [app]. fold (classmethod_text (none_text l)).
    destruct (effective_additional apd_stub C); run; reflexivity.
  Qed.

  (* ---------------------------------------------------------------- get_all_type_info *)
  Variable ext : pyval -> pyval -> pyval -> res pyval.
  Variables la ac : pyval.
  Notation ext_ok := (ext_ok fobj ext la ac).
  Notation type_info_text := (type_info_text apd_run fobj ext la ac).
  Notation field_text := (field_text fobj ext la ac).

  Lemma heap_fields C :
    obj_getattr (hp C) (ref o_cls) (s2p "_field_by_name") = Ok (PDict (map (field_item fobj) (all_fields C))).
  Proof. reflexivity. Qed.
  Lemma heap_constants C d :
    obj_getattr_def (hp C) (ref o_cls) (s2p "_constants") d = Ok (PDict (map (const_item cobj) (constants C))).
  Proof. reflexivity. Qed.
  Lemma heap_required C d :
    obj_getattr_def (hp C) (ref o_cls) (s2p "_required") d = Ok (PList (map PStr (required_attr apd_run C))).
  Proof. reflexivity. Qed.

  Lemma ext_ok_rendered C f :
    ext_ok C = true -> In f (all_fields C) -> nonconst C f = true ->
    exists s, ext (fobj f) la ac = Ok (PStr s) /\ rendered_text fobj ext la ac f = s /\ tok_of s = f_tok f.
  Proof.
    intros Hok Hin Hnc. unfold StubsSrcView.ext_ok in Hok. rewrite forallb_forall in Hok.
    specialize (Hok f). rewrite filter_In in Hok. specialize (Hok (conj Hin Hnc)).
    unfold ext_ok_field, rendered_text, rendered in *.
    destruct (ext (fobj f) la ac) as [v|e]; [|discriminate]. destruct v; try discriminate.
    exists s. split; [reflexivity|]. split; [reflexivity|].
    destruct (tok_of s), (f_tok f); try discriminate; reflexivity.
  Qed.

  (* one iteration of the loop of get_all_type_info, as a function on the dict of texts *)
  Definition type_info_step (C : hier) (acc : list (pystr * pystr)) (f : fdecl) : list (pystr * pystr) :=
    if nonconst C f then alist_set acc (f_name f) (snd (field_text (required_attr apd_run C) f)) else acc.

  Theorem get_all_type_info_src_eq : forall C : hier,
    ext_ok C = true ->
    get_all_type_info ext (hp C) (ref o_cls) la ac = Ok (sdict (type_info_text C)).
  Proof.
    intros C Hok. unfold get_all_type_info, Structure_get_all_fields_by_name. cbv zeta.
    rewrite heap_constants, heap_required, heap_fields. cbn [bind].
    rewrite (py_dict_items_keyed f_name fobj). cbn [bind].
    change (PDict []) with (sdict []).
    rewrite (foldM_sdict (fun f => PTuple [PStr (f_name f); fobj f]) _ (type_info_step C)).
    2:{ intros acc f Hin. rewrite py_unpack_pair. cbn [bind].
        rewrite (py_in_dyn_keyed (fun n : pystr => n) cobj). rewrite map_id. cbn [bind].
        unfold type_info_step, nonconst. destruct (str_in (f_name f) (constants C)) eqn:Hc; cbn [negb]; [reflexivity|].
        destruct (ext_ok_rendered C f Hok Hin) as [s [Hs [Hr Ht]]]; [unfold nonconst; rewrite Hc; reflexivity|].
        rewrite Hs. cbn [bind]. rewrite py_in_dyn_strs, py_str_startswith_str.
        unfold StubsSrcView.field_text. rewrite Hr. cbn [snd].
        unfold starts_opt_text, opt_prefix.
        cbn [py_not py_and bind py_is_not_none py_is_none negb].
        destruct (str_in (f_name f) (required_attr apd_run C)); cbn [negb andb bind].
        - cbn [py_try_Exception]. rewrite py_setitem_sdict. reflexivity.
        - unfold add_none, wrap_optional, opt_prefix.
          destruct (str_startswith (s2p "Optional[") s); cbn [negb bind py_format];
            rewrite py_setitem_sdict; reflexivity. }
    cbn [bind]. do 2 f_equal. unfold type_info_step.
    rewrite (fold_set_fresh f_name (fun f => snd (field_text (required_attr apd_run C) f)) (nonconst C)
                            (all_fields C) []); [|apply all_fields_nodup|intros; reflexivity].
    cbn [app]. unfold StubsSrcView.type_info_text. apply map_ext. intro f. reflexivity.
  Qed.

  (* ---------------------------------------------------------------- reading the texts back *)

  (* has-a-default of a required field as the generator leaves it in the text = as the model reads it off the token *)
  Lemma tok_of_default s : ends_none (tok_of s) = ends_none_text s.
  Proof. unfold tok_of. destruct (starts_opt_text s), (ends_none_text s); reflexivity. Qed.

  Lemma str_endswith_app suffix s : str_endswith suffix (s ++ suffix) = true.
  Proof.
    unfold str_endswith, PyOpsFields.str_endswith. rewrite rev_app_distr.
    induction (rev suffix) as [|c t IH]; [reflexivity|].
    cbn [app PyOpsFields.str_prefix]. rewrite N.eqb_refl. exact IH.
  Qed.

  Lemma ends_none_app s t : ends_none_text t = true -> ends_none_text (s ++ t) = true.
  Proof.
    unfold ends_none_text, str_endswith, PyOpsFields.str_endswith. rewrite rev_app_distr.
    generalize (rev none_suffix) (rev t) (rev s). intros p. induction p as [|c p IH]; intros a b H; [reflexivity|].
    destruct a as [|x a]; [discriminate|]. cbn [app PyOpsFields.str_prefix] in *.
    apply andb_true_iff in H as [H1 H2]. rewrite H1. apply IH. exact H2.
  Qed.

  Lemma ends_none_add s : ends_none_text (add_none s) = true.
  Proof. unfold add_none. apply ends_none_app. reflexivity. Qed.

  Lemma ends_none_with_none s : ends_none_text (with_none_text s) = true.
  Proof.
    unfold with_none_text. destruct (ends_none_text s) eqn:E; [exact E|]. apply ends_none_app. reflexivity.
  Qed.

  Theorem type_info_text_abs : forall C : hier,
    ext_ok C = true -> map abs_entry (type_info_text C) = type_info apd_run C.
  Proof.
    intros C Hok. unfold StubsSrcView.type_info_text, type_info. rewrite map_map.
    apply map_ext_in. intros f Hf. apply filter_In in Hf as [Hin Hnc].
    destruct (ext_ok_rendered C f Hok Hin Hnc) as [s [_ [Hr Ht]]].
    unfold abs_entry, StubsSrcView.field_text, stub_entry. rewrite Hr, <- Ht. cbn [fst snd].
    destruct (negb (str_in (f_name f) (required_attr apd_run C))); cbn [snd]; f_equal.
    - apply ends_none_add.
    - symmetry. apply tok_of_default.
  Qed.

  Theorem none_text_abs : forall l, map abs_entry (none_text l) = with_none (map abs_entry l).
  Proof.
    intro l. unfold none_text, with_none. rewrite !map_map. apply map_ext. intros [k v].
    unfold abs_entry. cbn [fst snd]. rewrite ends_none_with_none. reflexivity.
  Qed.

  Theorem classmethod_text_abs : forall l, map abs_entry (classmethod_text l) = classmethod_kws (map abs_entry l).
  Proof.
    intro l. unfold classmethod_text, classmethod_kws. induction l as [|kv t IH]; [reflexivity|].
    cbn [filter map]. change (fst (abs_entry kv)) with (fst kv).
    destruct (negb (str_in (fst kv) classmethod_own)); cbn [map]; rewrite IH; reflexivity.
  Qed.

  Lemma NoDup_map_filter {A B} (f : A -> B) (p : A -> bool) l : NoDup (map f l) -> NoDup (map f (filter p l)).
  Proof.
    induction l as [|x t IH]; intro H; [constructor|]. cbn [map] in H. inversion H as [|? ? Hn Hd]; subst.
    cbn [filter]. destruct (p x); [|apply IH; exact Hd]. cbn [map]. constructor; [|apply IH; exact Hd].
    intro Hin. apply Hn. apply in_map_iff in Hin as [y [Hy1 Hy2]]. apply filter_In in Hy2 as [Hy2 _].
    rewrite <- Hy1. apply in_map. exact Hy2.
  Qed.

  Lemma type_info_text_names C : map fst (type_info_text C) = map f_name (filter (nonconst C) (all_fields C)).
  Proof. unfold StubsSrcView.type_info_text. rewrite map_map. reflexivity. Qed.

  Lemma type_info_text_nodup C : nodup_names (map fst (type_info_text C)) = true.
  Proof. apply nodup_names_spec. rewrite type_info_text_names. apply NoDup_map_filter, all_fields_nodup. Qed.

  Lemma ordered_text_nodup_names l : nodup_names (map fst l) = true -> nodup_names (map fst (ordered_text l)) = true.
  Proof. intro H. apply nodup_names_spec. apply ordered_text_nodup. apply nodup_names_spec. exact H. Qed.

  (* ---------------------------------------------------------------- the whole chain, as get_stubs_of_structures runs it *)

  Definition stub_kws (C : hier) : list (pystr * pystr) := ordered_text (type_info_text C).

  Lemma stub_kws_abs C : ext_ok C = true -> map abs_entry (stub_kws C) = ordered_args (type_info apd_run C).
  Proof. intro Hok. unfold stub_kws. rewrite ordered_text_abs, (type_info_text_abs C Hok). reflexivity. Qed.

  (* __init__: the text is the rendering of a def whose reading is the model's stub_init *)
  Theorem stub_init_src_eq : forall (apd_stub : bool) (C : hier),
    ext_ok C = true ->
    (ti <- get_all_type_info ext (hp C) (ref o_cls) la ac ;;
     oa <- get_ordered_args (hp C) ti ;;
     get_init (hp C) (ref o_cls) oa (PBool apd_stub))
    = Ok (PStr (def_render init_head self_fixed (stub_kws C) (m_kw (stub_init apd_run apd_stub C))))
    /\ abs_def self_fixed (stub_kws C) (m_kw (stub_init apd_run apd_stub C)) = stub_init apd_run apd_stub C.
  Proof.
    intros apd_stub C Hok. split.
    - rewrite (get_all_type_info_src_eq C Hok). cbn [bind].
      rewrite (get_ordered_args_src_eq _ _ (type_info_text_nodup C)). cbn [bind].
      rewrite get_init_src_eq. reflexivity.
    - unfold abs_def, stub_init. cbn [m_kw]. rewrite (stub_kws_abs C Hok). reflexivity.
  Qed.

  (* shallow_clone_with_overrides / from_other_class / from_trusted_data *)
  Theorem stub_methods_src_eq : forall (apd_stub : bool) (C : hier),
    ext_ok C = true ->
    let kws := none_text (stub_kws C) in
    let kw := stub_kw apd_stub C in
    (ti <- get_all_type_info ext (hp C) (ref o_cls) la ac ;;
     oa <- get_ordered_args (hp C) ti ;;
     get_additional_structure_methods (hp C) (ref o_cls) oa (PBool apd_stub))
    = Ok (PStr (join_strs nl [def_render clone_head self_fixed kws kw;
                              def_render other_head other_fixed (classmethod_text kws) kw;
                              def_render trusted_head trusted_fixed (classmethod_text kws) kw]))
    /\ abs_def self_fixed kws kw = stub_shallow_clone apd_run apd_stub C
    /\ abs_def other_fixed (classmethod_text kws) kw = stub_from_other_class apd_run apd_stub C
    /\ abs_def trusted_fixed (classmethod_text kws) kw = stub_from_trusted_data apd_run apd_stub C.
  Proof.
    intros apd_stub C Hok kws kw. split.
    - rewrite (get_all_type_info_src_eq C Hok). cbn [bind].
      rewrite (get_ordered_args_src_eq _ _ (type_info_text_nodup C)). cbn [bind].
      rewrite get_additional_structure_methods_src_eq; [reflexivity|].
      apply ordered_text_nodup_names, type_info_text_nodup.
    - unfold abs_def, stub_shallow_clone, stub_from_other_class, stub_from_trusted_data, kws, kw.
      rewrite classmethod_text_abs, none_text_abs, (stub_kws_abs C Hok). repeat split; reflexivity.
  Qed.

  (* ---------------------------------------------------------------- outside the model's domain: no _required *)

  Notation hp_nr := (cls_heap_no_required apd_run h0 fobj cobj).

  (* `field_name not in required` is evaluated before `required is not None`: with _required absent every
     non-constant field raises TypeError inside the try and is dropped *)
  Theorem get_all_type_info_no_required : forall C : hier,
    ext_total fobj ext la ac C = true ->
    get_all_type_info ext (hp_nr C) (ref o_cls) la ac = Ok (PDict []).
  Proof.
    intros C Hok. unfold get_all_type_info, Structure_get_all_fields_by_name. cbv zeta.
    change (obj_getattr_def (hp_nr C) (ref o_cls) (s2p "_constants") (PDict []))
      with (Ok (A := pyval) (PDict (map (const_item cobj) (constants C)))).
    change (obj_getattr_def (hp_nr C) (ref o_cls) (s2p "_required") PNone) with (Ok (A := pyval) PNone).
    change (obj_getattr (hp_nr C) (ref o_cls) (s2p "_field_by_name"))
      with (Ok (A := pyval) (PDict (map (field_item fobj) (all_fields C)))).
    cbn [bind]. rewrite (py_dict_items_keyed f_name fobj). cbn [bind].
    change (PDict []) with (sdict []).
    rewrite (foldM_sdict (fun f => PTuple [PStr (f_name f); fobj f]) _ (fun acc _ => acc)).
    2:{ intros acc f Hin. rewrite py_unpack_pair. cbn [bind].
        rewrite (py_in_dyn_keyed (fun n : pystr => n) cobj). rewrite map_id. cbn [bind].
        destruct (str_in (f_name f) (constants C)) eqn:Hc; [reflexivity|].
        unfold ext_total in Hok. rewrite forallb_forall in Hok. specialize (Hok f).
        rewrite filter_In in Hok. unfold nonconst in Hok. rewrite Hc in Hok. specialize (Hok (conj Hin eq_refl)).
        destruct (ext (fobj f) la ac) as [v|e]; [|discriminate]. reflexivity. }
    cbn [bind]. do 2 f_equal. induction (all_fields C) as [|x t IH]; [reflexivity|exact IH].
  Qed.
End Cls.

(* ------------------------------------------------------------------ non-vacuity *)

Local Open Scope string_scope.

Definition ex_fld (n : string) (k : fkind) (d : bool) (t : tok) : fdecl :=
  {| f_name := s2p n; f_kind := k; f_default := d; f_tok := t |}.

(* three levels: a Constant overriding an inherited field, a default, an optional and a REQUIRED AnyOf[X, None] field
   (both rendered "Optional[int]" by get_type_info), _required given explicitly, additional properties switched off at the leaf (the class of Props/C16.v [ex_hier]) *)
Definition ex_src_hier : hier :=
  [ {| b_fields := [ex_fld "val" KField false TPlain; ex_fld "opt" KField false TOptBare; ex_fld "req" KField false TOptBare];
       b_required := None; b_optional := [s2p "opt"]; b_additional := Some false |};
    {| b_fields := [ex_fld "subject" KConst false TPlain; ex_fld "name" KField false TPlain];
       b_required := None; b_optional := []; b_additional := None |};
    {| b_fields := [ex_fld "i" KField true TPlain; ex_fld "subject" KField false TPlain];
       b_required := Some [s2p "subject"]; b_optional := []; b_additional := None |} ].

(* a Field object carries the text of its type; the oracle reads it *)
Definition ex_fobj (f : fdecl) : pyval :=
  POther (s2p "Field")
         (match f_tok f with
          | TPlain => s2p "int" | TOptNone => s2p "Optional[int] = None" | TOptBare => s2p "Optional[int]"
          end).
Definition ex_ext (v _ _ : pyval) : res pyval :=
  match v with POther _ r => Ok (PStr r) | _ => Raise TypeError end.
Definition ex_heap : heap := cls_heap true (fun _ _ => None) ex_fobj (fun _ => PNone) ex_src_hier.

Example ext_ok_satisfiable :
  ext_ok ex_fobj ex_ext PNone PNone ex_src_hier = true /\
  nodup_names (map fst (type_info_text true ex_fobj ex_ext PNone PNone ex_src_hier)) = true /\
  type_info_text true ex_fobj ex_ext PNone PNone ex_src_hier
  = [(s2p "i", s2p "Optional[int] = None"); (s2p "name", s2p "int"); (s2p "val", s2p "int");
     (s2p "opt", s2p "Optional[int] = None"); (s2p "req", s2p "Optional[int]")] /\
  (ti <- get_all_type_info ex_ext ex_heap (ref o_cls) PNone PNone ;; get_ordered_args ex_heap ti)
  = Ok (sdict [(s2p "name", s2p "int"); (s2p "val", s2p "int"); (s2p "req", s2p "Optional[int]");
               (s2p "i", s2p "Optional[int] = None"); (s2p "opt", s2p "Optional[int] = None")]) /\
  m_kwparams (stub_init true true ex_src_hier)
  = [(s2p "name", false); (s2p "val", false); (s2p "req", false); (s2p "i", true); (s2p "opt", true)].
Proof. vm_compute. repeat split; reflexivity. Qed.

(* the side condition is needed: when the text the oracle returns for a field does not have the field's token
   (here: declared TPlain, rendered "Optional[int] = None", required) the generator renders a default that the
   model, run on the declared token, does not *)
Definition ex_odd_hier : hier :=
  [ {| b_fields := [ex_fld "x" KField false TPlain]; b_required := None; b_optional := []; b_additional := None |} ].
Definition ex_odd_fobj (_ : fdecl) : pyval := POther (s2p "Field") (s2p "Optional[int] = None").

Example ext_ok_needed :
  ext_ok ex_odd_fobj ex_ext PNone PNone ex_odd_hier = false /\
  map abs_entry (type_info_text true ex_odd_fobj ex_ext PNone PNone ex_odd_hier) = [(s2p "x", true)] /\
  type_info true ex_odd_hier = [(s2p "x", false)].
Proof. vm_compute. repeat split; reflexivity. Qed.

(* _required absent: on the same class the generated function returns the empty dict (as the library does) *)
Example no_required_example :
  get_all_type_info ex_ext (cls_heap_no_required true (fun _ _ => None) ex_fobj (fun _ => PNone) ex_src_hier)
                    (ref o_cls) PNone PNone = Ok (PDict []).
Proof. reflexivity. Qed.

Print Assumptions get_ordered_args_src_eq.
Print Assumptions ordered_text_abs.
Print Assumptions get_init_src_eq.
Print Assumptions get_additional_structure_methods_src_eq.
Print Assumptions get_all_type_info_src_eq.
Print Assumptions type_info_text_abs.
Print Assumptions none_text_abs.
Print Assumptions stub_init_src_eq.
Print Assumptions stub_methods_src_eq.
Print Assumptions get_all_type_info_no_required.
Print Assumptions ext_ok_satisfiable.
Print Assumptions ext_ok_needed.
Print Assumptions no_required_example.
