(* Runtime constructor signature of a typedpy Structure class as a function of its definition.
   Model of StructMeta.__new__ (required/optional/default bookkeeping, _constants, _required),
   get_base_info and make_signature in typedpy/structures/structures.py, at the level the
   stub generator and C16 speak about: parameter names, "has a default", and **kwargs.
   Executable definitions only; proofs are in SignatureProofs.v / StubProofs.v. *)
From Coq Require Import List Bool NArith.
Import ListNotations.
From TP Require Import Base.PyVal.

(* a class attribute is a Field or a Constant(...) *)
Inductive fkind := KField | KConst.

(* The rendered type string of a field is an opaque token; the generator only ever inspects
   two facts about it: startswith("Optional[") and endswith("= None").
   TPlain   : neither                       (int, list[int], Union[int,str,NoneType], ...)
   TOptNone : "Optional[X] = None"          (AnyOf/OneOf/AllOf[X, None], typing.Optional[X])
   TOptBare : "Optional[X]" without "= None" *)
Inductive tok := TPlain | TOptNone | TOptBare.
Definition starts_optional (t : tok) : bool := match t with TPlain => false | _ => true end.
Definition ends_none (t : tok) : bool := match t with TOptNone => true | _ => false end.

Record fdecl := { f_name : pystr; f_kind : fkind; f_default : bool; f_tok : tok }.

(* one class statement: own fields in class-body order, _required if present in the class
   dict, _optional (including names annotated typing.Optional[...]), _additional_properties
   (or the old spelling _additionalProperties) if present in the class dict *)
Record body := { b_fields : list fdecl;
                 b_required : option (list pystr);
                 b_optional : list pystr;
                 b_additional : option bool }.

(* a class = its own body followed by the bodies of its Structure ancestors (leaf first);
   [] is typedpy.Structure itself.  Partial/Omit/Pick/Extend/AllFieldsRequired produce a flat
   class deriving from Structure, i.e. a one-element hierarchy. *)
Definition hier := list body.

Record param := { p_name : pystr; p_default : bool }.
Record sigt := { s_params : list param; s_kwargs : bool }.

Definition is_const (f : fdecl) : bool := match f_kind f with KConst => true | KField => false end.
Definition own_names (b : body) : list pystr := map f_name (b_fields b).

(* --- sets of names as duplicate-free lists *)
Definition set_add (n : pystr) (l : list pystr) : list pystr := if str_in n l then l else l ++ [n].
Definition set_remove (n : pystr) (l : list pystr) : list pystr := filter (fun x => negb (pystr_eqb x n)) l.
Definition set_union (a b : list pystr) : list pystr := fold_left (fun acc n => set_add n acc) b a.
Fixpoint dedup (l : list pystr) : list pystr :=
  match l with [] => [] | x :: t => if str_in x t then dedup t else x :: dedup t end.

(* _apply_default_and_update_required_not_to_include_fields_with_defaults *)
Definition required_step (predefined : bool) (optional : list pystr) (req : list pystr) (f : fdecl) : list pystr :=
  if f_default f then set_remove (f_name f) req
  else if predefined then req
  else if str_in (f_name f) optional then req
  else set_add (f_name f) req.

Definition required_own (b : body) : list pystr :=
  let predefined := match b_required b with Some _ => true | None => false end in
  let start := match b_required b with Some r => dedup r | None => [] end in
  fold_left (required_step predefined (b_optional b)) (b_fields b) start.

(* _get_all_fields_by_name: dict.update over the reversed MRO *)
Fixpoint fields_update (acc : list fdecl) (f : fdecl) : list fdecl :=
  match acc with
  | [] => [f]
  | g :: t => if pystr_eqb (f_name g) (f_name f) then f :: t else g :: fields_update t f
  end.

Fixpoint all_fields (C : hier) : list fdecl :=
  match C with
  | [] => []
  | b :: P => fold_left fields_update (b_fields b) (all_fields P)
  end.

Definition all_names (C : hier) : list pystr := map f_name (all_fields C).
Definition constants (C : hier) : list pystr := map f_name (filter is_const (all_fields C)).

(* {**a, **b} on ordered dicts of parameters *)
Fixpoint params_get (l : list param) (n : pystr) : option param :=
  match l with [] => None | p :: t => if pystr_eqb (p_name p) n then Some p else params_get t n end.
Definition params_has (l : list param) (n : pystr) : bool :=
  match params_get l n with Some _ => true | None => false end.
Definition dict_merge (a b : list param) : list param :=
  map (fun p => match params_get b (p_name p) with Some q => q | None => p end) a
  ++ filter (fun q => negb (params_has a (p_name q))) b.

Definition mk_param (d : bool) (n : pystr) : param := {| p_name := n; p_default := d |}.
Definition param_names (l : list param) : list pystr := map p_name l.

(* the additional-properties default in force (TypedPyDefaults.additional_properties_default)
   is one constant for the whole hierarchy *)
Section WithDefault.
  Variable apd : bool.

  Definition own_additional (b : body) : bool :=
    match b_additional b with Some x => x | None => apd end.

  (* make_signature applied to the class body and the signature of its parent *)
  Definition make_signature (b : body) (consts : list pystr) (bases_params : list param) : sigt :=
    let names := own_names b in
    let required := required_own b in
    let bases_required := param_names (filter (fun p => negb (p_default p)) bases_params) in
    let allnames := set_union (param_names bases_params) names in
    let all_except_consts := filter (fun n => negb (str_in n consts)) allnames in
    let nd_class := map (mk_param false) (filter (fun n => str_in n required) all_except_consts) in
    let nd_bases := filter (fun p => (str_in (p_name p) required || str_in (p_name p) bases_required)
                                       && negb (str_in (p_name p) consts)) bases_params in
    let d_class := map (mk_param true)
                       (filter (fun n => negb (str_in n required) && negb (str_in n consts)) names) in
    let d_bases := filter (fun p => negb (str_in (p_name p) required)
                                      && negb (str_in (p_name p) bases_required)
                                      && negb (str_in (p_name p) consts)) bases_params in
    {| s_params := dict_merge nd_bases nd_class ++ dict_merge d_bases d_class;
       s_kwargs := own_additional b |}.

  Fixpoint sig (C : hier) : sigt :=
    match C with
    | [] => {| s_params := []; s_kwargs := apd |}      (* typedpy.Structure itself: ( **kwargs) iff the default *)
    | b :: P => make_signature b (constants (b :: P)) (s_params (sig P))
    end.

  Definition sig_names (C : hier) : list pystr := param_names (s_params (sig C)).
  Definition sig_required (C : hier) (n : pystr) : bool :=
    match params_get (s_params (sig C)) n with Some p => negb (p_default p) | None => false end.

  Definition bases_required (C : hier) : list pystr :=
    match C with
    | [] => []
    | _ :: P => param_names (filter (fun p => negb (p_default p)) (s_params (sig P)))
    end.

  (* the class attribute _required = list(set(bases_required + required)) *)
  Definition required_attr (C : hier) : list pystr :=
    match C with
    | [] => []
    | b :: _ => set_union (bases_required C) (required_own b)
    end.

  (* getattr(cls, "_additional_properties", default): first class dict along the MRO that has it *)
  Fixpoint effective_additional (C : hier) : bool :=
    match C with
    | [] => apd
    | b :: P => match b_additional b with Some x => x | None => effective_additional P end
    end.

  (* does the constructor accept an unknown keyword?  The signature must bind it ( **kwargs,
     decided from the class's OWN dict) and Structure.__setattr__ must let it through
     (decided by the inherited attribute). *)
  Definition admits_additional (C : hier) : bool :=
    s_kwargs (sig C) && effective_additional C.

  (* the class statement itself succeeds *)
  Fixpoint nodup_names (l : list pystr) : bool :=
    match l with [] => true | x :: t => negb (str_in x t) && nodup_names t end.

  Fixpoint def_ok (C : hier) : bool :=
    match C with
    | [] => true
    | b :: P =>
        def_ok P
        && nodup_names (own_names b)
        && forallb (fun o => negb (str_in o (required_own b)) && negb (str_in o (bases_required (b :: P))))
                   (b_optional b)
        && nodup_names (sig_names (b :: P))
    end.
End WithDefault.
