(* A class all of whose fields' validators are classified safe is safe as a whole: under EVERY interleaving
   of the three sample operations (each validating every field in turn) each thread observes what it
   observes alone. *)
From Coq Require Import List Arith Bool Lia String.
Import ListNotations.
From TP Require Import Global.Threads Global.ThreadsProofs Global.SharedName Global.SharedNameProofs
     Global.Compose Global.ComposeProofs Global.ClassModel.

Lemma sample_threads_length : forall e, List.length (sample_threads e) = 3.
Proof. reflexivity. Qed.

Lemma class_families_length : forall es,
    Forall (fun f => List.length f = 3) (class_families es).
Proof.
  intro es. unfold class_families. apply Forall_forall. intros f Hf.
  apply in_map_iff in Hf as [[j e] [<- _]]. unfold shift_family. rewrite map_length. reflexivity.
Qed.

Lemma class_families_safe : forall es,
    forallb (fun e => verdict_schedule_safe (classify e)) es = true ->
    forallb safe_b (class_families es) = true.
Proof.
  intros es H. unfold class_families. apply forallb_forall. intros f Hf.
  apply in_map_iff in Hf as [[j e] [<- Hin]]. cbn [fst snd].
  rewrite safe_b_shift. apply classify_safe_safe_b.
  apply in_combine_r in Hin. rewrite forallb_forall in H. specialize (H e Hin).
  destruct (classify e); cbn in H; try discriminate; [left|right]; reflexivity.
Qed.

Theorem class_safe_b_safe : forall es, class_safe_b es = true -> safe_b (class_threads es) = true.
Proof.
  intros es H. unfold class_safe_b in H. apply andb_true_iff in H as [Hs Hd].
  unfold class_threads. apply safe_compose_all.
  - apply class_families_length.
  - apply class_families_safe. exact Hs.
  - exact Hd.
Qed.

Theorem class_safe_all_schedules : forall es m0 tr i,
    class_safe_b es = true -> interleave (class_threads es) tr -> i < 3 ->
    obs_in m0 tr i = obs_seq m0 (nth i (class_threads es) []).
Proof.
  intros es m0 tr i H Hil Hi. apply safe_all_schedules; [apply class_safe_b_safe; exact H|exact Hil|].
  unfold class_threads. rewrite compose_all_length; [exact Hi|apply class_families_length].
Qed.
