(* C20 — from the GENERATED shared-access lists of typedpy's collection validators
   (Gen/SharedAccess.v, extracted from the AST of /repo on every run) to thread programs of the
   interleaving model (Global/Threads.v), their classification, and the model of what a validator
   returns given what it read (its private scratch Structure).  Executable model, no proofs. *)
From Coq Require Import List Arith Bool String.
Import ListNotations.
From TP Require Import Global.Threads.

(* which shared Field object an access touches *)
Inductive target :=
| TSelf                 (* the validator's own field object (its _name is written by ITS parent only) *)
| TShared               (* ONE object touched on every iteration: self.items *)
| TDistinct             (* a different object on every iteration: positional item / option field *)
| TFixed (k : nat).     (* a fixed sub-field: Map's key field (0) / value field (1) *)

(* what is written into target._name *)
Inductive wvalue :=
| VSelf                 (* self._name *)
| VSelfSuffix (k : nat) (* self._name + a constant suffix (k-th suffix of the table) *)
| VSelfIdx              (* self._name + "_" + index of the current iteration *)
| VUnknown
| VSaved.               (* the name read from the SAME object earlier by this call (ASave): it is put back *)

Inductive scope := Once | PerIter | After.
Inductive scratch := ScrOnce | ScrPerIter | ScrUnknown.

Inductive access :=
| AWrite (t : target) (v : wvalue) (s : scope) (line : nat)
| ACallSet (t : target) (sc : scratch) (s : scope) (line : nat)   (* t.__set__(scratch, x): Field.__set__ stores under R t._name *)
| AReadBack (t : target) (sc : scratch) (s : scope) (line : nat)  (* getattr(scratch, getattr(t, "_name")) *)
| AReadBackSelf (sc : scratch) (s : scope) (line : nat)           (* scratch.__dict__[self._name] *)
| AStoreSelf (line : nat)                                         (* super().__set__(instance, ...) *)
| AWriteAttr (attr : string) (lazy_const : bool) (line : nat)     (* self.<attr> = <closure over the declaration only> *)
| AUnrecognised (line : nat)
| ASave (t : target) (s : scope) (line : nat).                    (* own_name = getattr(t, "_name", None): saved, restored later *)

Record ventry := { v_name : string; v_file : string; v_acc : list access }.

(* ---- instantiation as a thread program ---- *)

Definition cell_of (t : target) (i : nat) : cell :=
  match t with TSelf => 0 | TShared => 1 | TFixed k => 2 + k | TDistinct => 10 + i end.

Definition name_of (f : nat) (v : wvalue) (i : nat) : wexp :=
  match v with
  | VSelf => WConst [f]
  | VSelfSuffix k => WConst [f; 100 + k]
  | VSelfIdx => WConst [f; i]
  | VUnknown => WFun (fun _ => [f])
  | VSaved => WFun (fun h => nth (List.length h - 2) h [])   (* save; write; one use; restore: the read before last *)
  end.

Definition scope_eqb (a b : scope) : bool :=
  match a, b with Once, Once | PerIter, PerIter | After, After => true | _, _ => false end.

Definition act_of (f i : nat) (s : scope) (a : access) : list action :=
  match a with
  | AWrite t v s' _ => if scope_eqb s s' then [W (cell_of t i) (name_of f v i)] else []
  | ACallSet t _ s' _ => if scope_eqb s s' then [R (cell_of t i)] else []
  | AReadBack t _ s' _ => if scope_eqb s s' then [R (cell_of t i)] else []
  | AReadBackSelf _ s' _ => if scope_eqb s s' then [R 0] else []
  | AStoreSelf _ => match s with After => [R 0] | _ => [] end
  | AWriteAttr _ lc _ => match s with
                         | Once => [R 5; W 5 (if lc then WConst [77] else WFun (fun h => [77; List.length h]))]
                         | _ => [] end
  | AUnrecognised _ => match s with Once => [W 6 (WFun (fun h => [List.length h])); R 6] | _ => [] end
  | ASave t s' _ => if scope_eqb s s' then [R (cell_of t i)] else []
  end.

Definition instantiate (e : ventry) (f n : nat) : thread :=
  flat_map (act_of f 0 Once) (v_acc e)
  ++ flat_map (fun i => flat_map (act_of f i PerIter) (v_acc e)) (seq 0 n)
  ++ flat_map (act_of f (n - 1) After) (v_acc e).

(* the validator's own name is written by its parent only: for a top-level field it is constant *)
Definition strip_self (t : thread) : thread :=
  filter (fun a => negb (Nat.eqb (acc_cell a) 0)) t.

(* ---- classification of one validator used as a top-level field ---- *)

(* Toggle: a shared name is saved, overwritten and put back (a non-atomic toggle): Global/Toggle.v *)
Inductive verdict := SafePrivate | SafeIdempotent | Racy | CacheConst | Undecided | Toggle.

Definition is_unrecognised (a : access) : bool := match a with AUnrecognised _ => true | _ => false end.
Definition is_unknown_scratch (a : access) : bool :=
  match a with
  | ACallSet _ ScrUnknown _ _ | AReadBack _ ScrUnknown _ _ | AReadBackSelf ScrUnknown _ _ => true
  | _ => false end.
Definition is_attr (a : access) : bool := match a with AWriteAttr _ _ _ => true | _ => false end.
Definition attr_const (a : access) : bool := match a with AWriteAttr _ lc _ => lc | _ => true end.

Definition sample_threads (e : ventry) : list thread :=
  [strip_self (instantiate e 7 3); strip_self (instantiate e 7 2); strip_self (instantiate e 7 4)].

Definition is_restore (a : access) : bool := match a with AWrite _ VSaved _ _ => true | _ => false end.
Definition is_save (a : access) : bool := match a with ASave _ _ _ => true | _ => false end.
Definition has_toggle (e : ventry) : bool := existsb is_restore (v_acc e) || existsb is_save (v_acc e).

Definition classify (e : ventry) : verdict :=
  if existsb is_unrecognised (v_acc e) || existsb is_unknown_scratch (v_acc e) then Undecided
  else if has_toggle e then Toggle
  else if existsb is_attr (v_acc e)
       then (if forallb attr_const (v_acc e) then CacheConst else Undecided)
  else let ts := sample_threads e in
       if safe_b ts then (if private_b ts then SafePrivate else SafeIdempotent)
       else match find_race [] (nth 0 ts []) (nth 1 ts []) with
            | Some _ => Racy
            | None => Undecided
            end.

Definition verdict_safe (v : verdict) : bool :=
  match v with SafePrivate | SafeIdempotent | CacheConst => true | _ => false end.

Definition verdict_code (v : verdict) : nat :=
  match v with SafePrivate => 0 | SafeIdempotent => 1 | Racy => 2 | CacheConst => 3 | Undecided => 4 | Toggle => 5 end.

(* ---- nested declarations: which validators of a field tree rewrite a shared name per element ---- *)

Inductive ftree :=
| FLeaf                                       (* scalar field *)
| FNode (entry : nat) (children : list ftree) (* collection / multi-field wrapper: index into the table *)
| FStruct (fields : list ftree).              (* nested Structure class: its fields have their own constant names *)

Fixpoint tree_racy (tbl : list ventry) (ctx_const : bool) (t : ftree) : list nat :=
  match t with
  | FLeaf => []
  | FStruct fs => flat_map (tree_racy tbl true) fs
  | FNode e ch =>
      let v := match nth_error tbl e with Some en => classify en | None => Undecided end in
      let own := ctx_const && verdict_safe v in
      (if own then [] else [e]) ++ flat_map (tree_racy tbl own) ch
  end.

(* ---- what a validator returns, given what it read: the private scratch structure ---- *)

Definition slot_of (t : target) : nat := match t with TFixed k => k | _ => 0 end.

Definition scr := list (val * (nat * nat)).      (* name -> (iteration, slot) of the stored element *)
Fixpoint scr_get (s : scr) (k : val) : option (nat * nat) :=
  match s with
  | [] => None
  | (k', x) :: s' => if val_eqb k' k then Some x else scr_get s' k
  end.

Record ostate := { o_scr : scr; o_obs : list val; o_out : list (nat * nat); o_err : bool }.

Definition take_obs (st : ostate) : option (val * ostate) :=
  match o_obs st with
  | [] => None
  | v :: r => Some (v, {| o_scr := o_scr st; o_obs := r; o_out := o_out st; o_err := o_err st |})
  end.

Definition is_self (t : target) : bool := match t with TSelf => true | _ => false end.

Definition out_step (i : nat) (s : scope) (st : ostate) (a : access) : ostate :=
  if o_err st then st else
  match a with
  | ACallSet t _ s' _ =>
      if scope_eqb s s' && negb (is_self t) then
        match take_obs st with
        | Some (k, st') => {| o_scr := (k, (i, slot_of t)) :: o_scr st'; o_obs := o_obs st'; o_out := o_out st'; o_err := false |}
        | None => st
        end
      else st
  | AReadBack t _ s' _ =>
      if scope_eqb s s' && negb (is_self t) then
        match take_obs st with
        | Some (k, st') =>
            match scr_get (o_scr st') k with
            | Some x => {| o_scr := o_scr st'; o_obs := o_obs st'; o_out := o_out st' ++ [x]; o_err := false |}
            | None => {| o_scr := o_scr st'; o_obs := o_obs st'; o_out := o_out st'; o_err := true |}
            end
        | None => st
        end
      else st
  | _ => st
  end.

Definition has_periter_scratch (e : ventry) : bool :=
  existsb (fun a => match a with ACallSet _ ScrPerIter _ _ => true | _ => false end) (v_acc e).

Definition out_iter (e : ventry) (st : ostate) (i : nat) : ostate :=
  let st0 := if has_periter_scratch e
             then {| o_scr := []; o_obs := o_obs st; o_out := o_out st; o_err := o_err st |} else st in
  fold_left (out_step i PerIter) (v_acc e) st0.

(* obs: the values thread read from NON-self cells, in order.  None = the read-back found nothing
   under the name it read (AttributeError / KeyError in the implementation). *)
Definition model_outcome (e : ventry) (n : nat) (obs : list val) : option (list (nat * nat)) :=
  let st0 := {| o_scr := []; o_obs := obs; o_out := []; o_err := false |} in
  let st1 := fold_left (out_step 0 Once) (v_acc e) st0 in
  let st2 := fold_left (out_iter e) (seq 0 n) st1 in
  if o_err st2 then None else Some (o_out st2).

(* the outcome of the validator running alone *)
Definition seq_outcome (e : ventry) (f n : nat) : option (list (nat * nat)) :=
  model_outcome e n (obs_seq (fun _ => [f]) (strip_self (instantiate e f n))).
