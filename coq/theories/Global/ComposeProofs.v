(* Safety composes over disjoint shared cells (Global/Compose.v): if every field's thread family is safe
   (each cell private or idempotently written) and the families touch disjoint cells, the family in which
   every thread validates ALL the fields one after the other is safe - hence (safe_all_schedules) every
   interleaving of operations on a class with several fields, or on nested Structure classes, makes every
   thread observe what it observes alone. *)
From Coq Require Import List Arith Bool Lia.
Import ListNotations.
From TP Require Import Global.Threads Global.ThreadsProofs Global.Compose.

(* ------------------------------------------------------------------ the predicates over (x ++ y) *)

Lemma accesses_b_app : forall c x y, accesses_b c (x ++ y) = accesses_b c x || accesses_b c y.
Proof. intros. unfold accesses_b. apply existsb_app. Qed.

Lemma writes_b_app : forall c x y, writes_b c (x ++ y) = writes_b c x || writes_b c y.
Proof. intros. unfold writes_b. apply existsb_app. Qed.

Lemma accesses_b_cons : forall c a t, accesses_b c (a :: t) = Nat.eqb (acc_cell a) c || accesses_b c t.
Proof. reflexivity. Qed.

Lemma noacc_writes : forall c t, accesses_b c t = false -> writes_b c t = false.
Proof.
  induction t as [|a t IH]; intro H; [reflexivity|].
  rewrite accesses_b_cons in H. apply orb_false_iff in H as [H1 H2].
  unfold writes_b in *. cbn [existsb]. rewrite (IH H2).
  destruct a as [c' e|c']; cbn in *; [rewrite H1|]; reflexivity.
Qed.

Lemma fcw_app : forall c x y,
    first_const_write c (x ++ y)
    = match first_const_write c x with Some v => Some v | None => first_const_write c y end.
Proof.
  induction x as [|a x IH]; intro y; [reflexivity|].
  destruct a as [c' e|c']; [destruct e as [v|f]|]; cbn [app first_const_write].
  - destruct (Nat.eqb c' c); [reflexivity|apply IH].
  - apply IH.
  - apply IH.
Qed.

Lemma fcw_noacc : forall c y, accesses_b c y = false -> first_const_write c y = None.
Proof.
  induction y as [|a y IH]; intro H; [reflexivity|].
  rewrite accesses_b_cons in H. apply orb_false_iff in H as [H1 H2].
  destruct a as [c' e|c']; [destruct e as [v|f]|]; cbn [first_const_write]; cbn in H1.
  - rewrite H1. apply IH. exact H2.
  - apply IH. exact H2.
  - apply IH. exact H2.
Qed.

Lemma cw_app : forall c k x y,
    const_writes_b c k (x ++ y) = const_writes_b c k x && const_writes_b c k y.
Proof.
  induction x as [|a x IH]; intro y; [reflexivity|].
  destruct a as [c' e|c']; cbn [app const_writes_b].
  - rewrite IH. rewrite andb_assoc. reflexivity.
  - apply IH.
Qed.

Lemma cw_noacc : forall c k y, accesses_b c y = false -> const_writes_b c k y = true.
Proof.
  induction y as [|a y IH]; intro H; [reflexivity|].
  rewrite accesses_b_cons in H. apply orb_false_iff in H as [H1 H2].
  destruct a as [c' e|c']; cbn [const_writes_b]; cbn in H1.
  - rewrite H1. cbn. apply IH. exact H2.
  - apply IH. exact H2.
Qed.

Lemma fiw_noacc : forall c y, accesses_b c y = false -> first_is_write_b c y = true.
Proof.
  induction y as [|a y IH]; intro H; [reflexivity|].
  rewrite accesses_b_cons in H. apply orb_false_iff in H as [H1 H2].
  destruct a as [c' e|c']; cbn [first_is_write_b]; cbn in H1; rewrite H1; apply IH; exact H2.
Qed.

Lemma fiw_app_r : forall c x y, accesses_b c y = false ->
                                first_is_write_b c (x ++ y) = first_is_write_b c x.
Proof.
  induction x as [|a x IH]; intros y H.
  - cbn [app first_is_write_b]. apply fiw_noacc. exact H.
  - destruct a as [c' e|c']; cbn [app first_is_write_b]; destruct (Nat.eqb c' c); try reflexivity; apply IH; exact H.
Qed.

Lemma fiw_app_l : forall c x y, accesses_b c x = false ->
                                first_is_write_b c (x ++ y) = first_is_write_b c y.
Proof.
  induction x as [|a x IH]; intros y H; [reflexivity|].
  rewrite accesses_b_cons in H. apply orb_false_iff in H as [H1 H2].
  destruct a as [c' e|c']; cbn [app first_is_write_b]; cbn in H1; rewrite H1; apply IH; exact H2.
Qed.

(* ------------------------------------------------------------------ families *)

Definition noacc_fam (c : cell) (b : list thread) : Prop := forall t, In t b -> accesses_b c t = false.

Lemma noacc_fam_nth : forall c b i, noacc_fam c b -> accesses_b c (nth i b []) = false.
Proof.
  intros c b i H. destruct (nth_in_or_default i b []) as [Hin|Hd]; [apply H; exact Hin|rewrite Hd; reflexivity].
Qed.

Lemma noacc_fam_tail : forall c x b, noacc_fam c (x :: b) -> accesses_b c x = false /\ noacc_fam c b.
Proof. intros c x b H. split; [apply H; left; reflexivity|intros t Ht; apply H; right; exact Ht]. Qed.

Lemma not_in_cells_noacc : forall c b, mem_b c (cells_of b) = false -> noacc_fam c b.
Proof.
  intros c b H t Ht. destruct (accesses_b c t) eqn:Hacc; [|reflexivity].
  unfold accesses_b in Hacc. apply existsb_exists in Hacc as [a [Ha Heq]].
  assert (Hin : In (acc_cell a) (cells_of b)).
  { unfold cells_of. apply in_map. apply in_concat. exists t. split; assumption. }
  assert (Hm : mem_b c (cells_of b) = true).
  { unfold mem_b. apply existsb_exists. exists (acc_cell a). split; [exact Hin|].
    apply Nat.eqb_eq in Heq. subst c. apply Nat.eqb_refl. }
  rewrite Hm in H. discriminate.
Qed.

Lemma nth_zip_app : forall a b i, length a = length b ->
                                  nth i (zip_app a b) [] = nth i a [] ++ nth i b [].
Proof.
  induction a as [|x a IH]; intros b i Hl; destruct b as [|y b]; cbn in Hl; try discriminate.
  - destruct i; reflexivity.
  - destruct i; cbn [zip_app nth]; [reflexivity|]. apply IH. lia.
Qed.

Lemma zip_app_length : forall a b, length a = length b -> length (zip_app a b) = length a.
Proof.
  induction a as [|x a IH]; intros b Hl; destruct b as [|y b]; cbn in *; try discriminate; try reflexivity.
  f_equal. apply IH. lia.
Qed.

Lemma in_concat_zip : forall a b e, In e (concat (zip_app a b)) -> In e (concat a) \/ In e (concat b).
Proof.
  induction a as [|x a IH]; intros b e H; destruct b as [|y b]; cbn in H; try contradiction.
  cbn [concat]. rewrite <- app_assoc in H. apply in_app_or in H as [H|H].
  - left. apply in_or_app. left. exact H.
  - apply in_app_or in H as [H|H].
    + right. apply in_or_app. left. exact H.
    + apply IH in H as [H|H]; [left|right]; apply in_or_app; right; exact H.
Qed.

Lemma in_cells_zip : forall a b c, In c (cells_of (zip_app a b)) -> In c (cells_of a) \/ In c (cells_of b).
Proof.
  intros a b c H. unfold cells_of in *. apply in_map_iff in H as [e [He Hin]].
  apply in_concat_zip in Hin as [Hin|Hin]; [left|right]; apply in_map_iff; exists e; split; assumption.
Qed.

(* -- the second family never touches c *)

Lemma owf_zip_r : forall c a b k i, length a = length b -> noacc_fam c b ->
    others_write_from k c (zip_app a b) i = others_write_from k c a i.
Proof.
  induction a as [|x a IH]; intros b k i Hl Hb; destruct b as [|y b]; cbn in Hl; try discriminate; [reflexivity|].
  apply noacc_fam_tail in Hb as [Hy Hb].
  cbn [zip_app others_write_from]. rewrite writes_b_app, (noacc_writes c y Hy), orb_false_r.
  f_equal. apply IH; [lia|exact Hb].
Qed.

Lemma fcwa_zip_r : forall c a b, length a = length b -> noacc_fam c b ->
    first_const_write_all c (zip_app a b) = first_const_write_all c a.
Proof.
  induction a as [|x a IH]; intros b Hl Hb; destruct b as [|y b]; cbn in Hl; try discriminate; [reflexivity|].
  apply noacc_fam_tail in Hb as [Hy Hb].
  cbn [zip_app first_const_write_all]. rewrite fcw_app, (fcw_noacc c y Hy).
  destruct (first_const_write c x); [reflexivity|]. apply IH; [lia|exact Hb].
Qed.

Lemma cwall_zip_r : forall c k a b, length a = length b -> noacc_fam c b ->
    forallb (const_writes_b c k) (zip_app a b) = forallb (const_writes_b c k) a.
Proof.
  induction a as [|x a IH]; intros b Hl Hb; destruct b as [|y b]; cbn in Hl; try discriminate; [reflexivity|].
  apply noacc_fam_tail in Hb as [Hy Hb].
  cbn [zip_app forallb]. rewrite cw_app, (cw_noacc c k y Hy), andb_true_r.
  f_equal. apply IH; [lia|exact Hb].
Qed.

Lemma cell_ok_zip_r : forall a b i c, length a = length b -> noacc_fam c b ->
    (private_cell_b (zip_app a b) i c || idem_cell_b (zip_app a b) i c)
    = (private_cell_b a i c || idem_cell_b a i c).
Proof.
  intros a b i c Hl Hb. unfold private_cell_b, idem_cell_b, others_write_b.
  rewrite (owf_zip_r c a b 0 i Hl Hb), (fcwa_zip_r c a b Hl Hb), (nth_zip_app a b i Hl).
  rewrite accesses_b_app, (noacc_fam_nth c b i Hb), orb_false_r.
  destruct (first_const_write_all c a) as [k|]; [|reflexivity].
  rewrite (cwall_zip_r c k a b Hl Hb), (fiw_app_r c _ _ (noacc_fam_nth c b i Hb)). reflexivity.
Qed.

(* -- the first family never touches c *)

Lemma owf_zip_l : forall c a b k i, length a = length b -> noacc_fam c a ->
    others_write_from k c (zip_app a b) i = others_write_from k c b i.
Proof.
  induction a as [|x a IH]; intros b k i Hl Ha; destruct b as [|y b]; cbn in Hl; try discriminate; [reflexivity|].
  apply noacc_fam_tail in Ha as [Hx Ha].
  cbn [zip_app others_write_from]. rewrite writes_b_app, (noacc_writes c x Hx), orb_false_l.
  f_equal. apply IH; [lia|exact Ha].
Qed.

Lemma fcwa_zip_l : forall c a b, length a = length b -> noacc_fam c a ->
    first_const_write_all c (zip_app a b) = first_const_write_all c b.
Proof.
  induction a as [|x a IH]; intros b Hl Ha; destruct b as [|y b]; cbn in Hl; try discriminate; [reflexivity|].
  apply noacc_fam_tail in Ha as [Hx Ha].
  cbn [zip_app first_const_write_all]. rewrite fcw_app, (fcw_noacc c x Hx).
  destruct (first_const_write c y); [reflexivity|]. apply IH; [lia|exact Ha].
Qed.

Lemma cwall_zip_l : forall c k a b, length a = length b -> noacc_fam c a ->
    forallb (const_writes_b c k) (zip_app a b) = forallb (const_writes_b c k) b.
Proof.
  induction a as [|x a IH]; intros b Hl Ha; destruct b as [|y b]; cbn in Hl; try discriminate; [reflexivity|].
  apply noacc_fam_tail in Ha as [Hx Ha].
  cbn [zip_app forallb]. rewrite cw_app, (cw_noacc c k x Hx), andb_true_l.
  f_equal. apply IH; [lia|exact Ha].
Qed.

Lemma cell_ok_zip_l : forall a b i c, length a = length b -> noacc_fam c a ->
    (private_cell_b (zip_app a b) i c || idem_cell_b (zip_app a b) i c)
    = (private_cell_b b i c || idem_cell_b b i c).
Proof.
  intros a b i c Hl Ha. unfold private_cell_b, idem_cell_b, others_write_b.
  rewrite (owf_zip_l c a b 0 i Hl Ha), (fcwa_zip_l c a b Hl Ha), (nth_zip_app a b i Hl).
  rewrite accesses_b_app, (noacc_fam_nth c a i Ha), orb_false_l.
  destruct (first_const_write_all c b) as [k|]; [|reflexivity].
  rewrite (cwall_zip_l c k a b Hl Ha), (fiw_app_l c _ _ (noacc_fam_nth c a i Ha)). reflexivity.
Qed.

(* ------------------------------------------------------------------ the composition theorem *)

Lemma mem_b_in : forall c l, mem_b c l = true <-> In c l.
Proof.
  intros c l. unfold mem_b. rewrite existsb_exists. split.
  - intros [x [Hx Heq]]. apply Nat.eqb_eq in Heq. subst. exact Hx.
  - intro H. exists c. split; [exact H|apply Nat.eqb_refl].
Qed.

Theorem safe_zip_app : forall a b,
    length a = length b -> safe_b a = true -> safe_b b = true -> disjoint_b a b = true ->
    safe_b (zip_app a b) = true.
Proof.
  intros a b Hl Ha Hb Hd. unfold safe_b in *.
  apply forallb_forall. intros i Hi. apply forallb_forall. intros c Hc.
  rewrite (zip_app_length a b Hl) in Hi.
  apply in_cells_zip in Hc as [Hc|Hc].
  - assert (Hnb : noacc_fam c b).
    { apply not_in_cells_noacc. unfold disjoint_b in Hd. rewrite forallb_forall in Hd.
      apply negb_true_iff. apply Hd. exact Hc. }
    rewrite (cell_ok_zip_r a b i c Hl Hnb).
    rewrite forallb_forall in Ha. specialize (Ha i Hi). rewrite forallb_forall in Ha. apply Ha. exact Hc.
  - assert (Hna : noacc_fam c a).
    { apply not_in_cells_noacc. destruct (mem_b c (cells_of a)) eqn:Hm; [|reflexivity].
      apply mem_b_in in Hm. unfold disjoint_b in Hd. rewrite forallb_forall in Hd.
      specialize (Hd c Hm). apply negb_true_iff in Hd.
      assert (Hm' : mem_b c (cells_of b) = true) by (apply mem_b_in; exact Hc).
      rewrite Hm' in Hd. discriminate. }
    rewrite (cell_ok_zip_l a b i c Hl Hna).
    rewrite Hl in Hi.
    rewrite forallb_forall in Hb. specialize (Hb i Hi). rewrite forallb_forall in Hb. apply Hb. exact Hc.
Qed.

(* any number of fields *)

Lemma concat_repeat_nil : forall n, concat (repeat (@nil action) n) = [].
Proof. induction n as [|n IH]; [reflexivity|]. cbn. exact IH. Qed.

Lemma safe_b_empty : forall n, safe_b (repeat [] n) = true.
Proof.
  intro n. unfold safe_b, cells_of. rewrite concat_repeat_nil. cbn [map forallb].
  apply forallb_forall. intros. reflexivity.
Qed.

Lemma compose_all_length : forall n fams,
    Forall (fun f => length f = n) fams -> length (compose_all n fams) = n.
Proof.
  induction fams as [|f fams IH]; intro H; cbn [compose_all]; [apply repeat_length|].
  inversion H as [|? ? Hf Hr]; subst. rewrite zip_app_length; [reflexivity|]. rewrite IH; [reflexivity|exact Hr].
Qed.

Theorem safe_compose_all : forall n fams,
    Forall (fun f => length f = n) fams ->
    forallb safe_b fams = true ->
    pairwise_disjoint_b n fams = true ->
    safe_b (compose_all n fams) = true.
Proof.
  induction fams as [|f fams IH]; intros Hlen Hsafe Hdis; cbn [compose_all]; [apply safe_b_empty|].
  inversion Hlen as [|? ? Hf Hr]; subst.
  cbn [forallb] in Hsafe. apply andb_true_iff in Hsafe as [Hsf Hsr].
  cbn [pairwise_disjoint_b] in Hdis. apply andb_true_iff in Hdis as [Hd Hdr].
  apply safe_zip_app.
  - rewrite compose_all_length; [reflexivity|exact Hr].
  - exact Hsf.
  - apply IH; assumption.
  - exact Hd.
Qed.

(* the consequence for operations on a class with several (or nested) fields: EVERY interleaving *)
Theorem composed_all_schedules : forall n fams m0 tr i,
    Forall (fun f => length f = n) fams ->
    forallb safe_b fams = true ->
    pairwise_disjoint_b n fams = true ->
    interleave (compose_all n fams) tr -> i < n ->
    obs_in m0 tr i = obs_seq m0 (nth i (compose_all n fams) []).
Proof.
  intros n fams m0 tr i Hlen Hsafe Hdis Hil Hi.
  apply safe_all_schedules; [apply safe_compose_all; assumption|exact Hil|].
  rewrite compose_all_length; assumption.
Qed.

(* ------------------------------------------------------------------ safety is invariant under renaming of cells *)

Lemma eqb_shift : forall a b k, Nat.eqb (a + k) (b + k) = Nat.eqb a b.
Proof.
  intros a b k. destruct (Nat.eqb a b) eqn:E.
  - apply Nat.eqb_eq in E. subst. apply Nat.eqb_refl.
  - apply Nat.eqb_neq in E. apply Nat.eqb_neq. lia.
Qed.

Lemma acc_cell_shift : forall k a, acc_cell (shift_action k a) = acc_cell a + k.
Proof. intros k [c e|c]; reflexivity. Qed.

Lemma accesses_b_shift : forall k c t, accesses_b (c + k) (shift_thread k t) = accesses_b c t.
Proof.
  induction t as [|a t IH]; [reflexivity|].
  unfold shift_thread in *. cbn [map]. rewrite !accesses_b_cons, acc_cell_shift, eqb_shift, IH. reflexivity.
Qed.

Lemma writes_b_shift : forall k c t, writes_b (c + k) (shift_thread k t) = writes_b c t.
Proof.
  induction t as [|a t IH]; [reflexivity|].
  unfold shift_thread, writes_b in *. cbn [map existsb]. rewrite IH.
  destruct a as [c' e|c']; cbn; [rewrite eqb_shift|]; reflexivity.
Qed.

Lemma owf_shift : forall k c ts j i,
    others_write_from j (c + k) (shift_family k ts) i = others_write_from j c ts i.
Proof.
  induction ts as [|t ts IH]; intros j i; [reflexivity|].
  unfold shift_family in *. cbn [map others_write_from]. rewrite writes_b_shift, IH. reflexivity.
Qed.

Lemma fcw_shift : forall k c t, first_const_write (c + k) (shift_thread k t) = first_const_write c t.
Proof.
  induction t as [|a t IH]; [reflexivity|].
  unfold shift_thread in *. destruct a as [c' e|c']; [destruct e as [v|f]|]; cbn [map shift_action first_const_write].
  - rewrite eqb_shift, IH. reflexivity.
  - exact IH.
  - exact IH.
Qed.

Lemma fcwa_shift : forall k c ts,
    first_const_write_all (c + k) (shift_family k ts) = first_const_write_all c ts.
Proof.
  induction ts as [|t ts IH]; [reflexivity|].
  unfold shift_family in *. cbn [map first_const_write_all]. rewrite fcw_shift, IH. reflexivity.
Qed.

Lemma cw_shift : forall k c v t, const_writes_b (c + k) v (shift_thread k t) = const_writes_b c v t.
Proof.
  induction t as [|a t IH]; [reflexivity|].
  unfold shift_thread in *. destruct a as [c' e|c']; cbn [map shift_action const_writes_b].
  - rewrite eqb_shift, IH. reflexivity.
  - exact IH.
Qed.

Lemma cwall_shift : forall k c v ts,
    forallb (const_writes_b (c + k) v) (shift_family k ts) = forallb (const_writes_b c v) ts.
Proof.
  induction ts as [|t ts IH]; [reflexivity|].
  unfold shift_family in *. cbn [map forallb]. rewrite cw_shift, IH. reflexivity.
Qed.

Lemma fiw_shift : forall k c t, first_is_write_b (c + k) (shift_thread k t) = first_is_write_b c t.
Proof.
  induction t as [|a t IH]; [reflexivity|].
  unfold shift_thread in *. destruct a as [c' e|c']; cbn [map shift_action first_is_write_b]; rewrite eqb_shift, IH; reflexivity.
Qed.

Lemma nth_shift_family : forall k ts i, nth i (shift_family k ts) [] = shift_thread k (nth i ts []).
Proof. intros. unfold shift_family. change (@nil action) with (shift_thread k []) at 1. apply map_nth. Qed.

Lemma cells_of_shift : forall k ts, cells_of (shift_family k ts) = map (fun c => c + k) (cells_of ts).
Proof.
  intros k ts. unfold cells_of, shift_family, shift_thread.
  induction ts as [|t ts IH]; [reflexivity|].
  cbn [map concat]. rewrite !map_app, IH. f_equal.
  rewrite !map_map. apply map_ext. intro a. apply acc_cell_shift.
Qed.

Lemma cell_ok_shift : forall k ts i c,
    (private_cell_b (shift_family k ts) i (c + k) || idem_cell_b (shift_family k ts) i (c + k))
    = (private_cell_b ts i c || idem_cell_b ts i c).
Proof.
  intros k ts i c. unfold private_cell_b, idem_cell_b, others_write_b.
  rewrite owf_shift, fcwa_shift, nth_shift_family, accesses_b_shift.
  destruct (first_const_write_all c ts) as [v|]; [|reflexivity].
  rewrite cwall_shift, fiw_shift. reflexivity.
Qed.

Lemma forallb_ext' : forall A (f g : A -> bool) l, (forall x, f x = g x) -> forallb f l = forallb g l.
Proof. induction l as [|x l IH]; intro H; [reflexivity|]. cbn. rewrite H, IH by exact H. reflexivity. Qed.

Lemma forallb_map' : forall A B (f : B -> bool) (g : A -> B) l, forallb f (map g l) = forallb (fun x => f (g x)) l.
Proof. induction l as [|x l IH]; [reflexivity|]. cbn. rewrite IH. reflexivity. Qed.

Theorem safe_b_shift : forall k ts, safe_b (shift_family k ts) = safe_b ts.
Proof.
  intros k ts. unfold safe_b. rewrite cells_of_shift.
  assert (Hlen : length (shift_family k ts) = length ts) by (unfold shift_family; apply map_length).
  rewrite Hlen. apply forallb_ext'. intro i.
  rewrite forallb_map'. apply forallb_ext'. intro c. apply cell_ok_shift.
Qed.
