(* C20 — small-step interleaving model of shared scratch state.

   A thread is a list of atomic actions over SHARED cells (nat-indexed: the `_name` of a shared
   Field object, a lazily installed serializer attribute, a cache slot) and PRIVATE state (the list
   of values it has read so far; everything else a typedpy operation computes - its own scratch
   Structure, its own instance, its result or exception - is a function of that list).
   The atomicity grain is the action (in the harness: the source line).

   This file is the executable model only (no proofs). *)
From Coq Require Import List Arith Bool.
Import ListNotations.

Definition val := list nat.          (* a name: field id followed by suffix tokens *)
Definition cell := nat.

Definition val_eqb (a b : val) : bool :=
  (fix go (a b : list nat) : bool :=
     match a, b with
     | [], [] => true
     | x :: a', y :: b' => Nat.eqb x y && go a' b'
     | _, _ => false
     end) a b.

(* the value a write stores: a constant, or any function of the thread's private history *)
Inductive wexp :=
| WConst (v : val)
| WFun (f : list val -> val).

Definition weval (e : wexp) (h : list val) : val :=
  match e with WConst v => v | WFun f => f h end.

Inductive action :=
| W (c : cell) (e : wexp)
| R (c : cell).

Definition thread := list action.
Definition mem := cell -> val.

Definition upd (m : mem) (c : cell) (v : val) : mem :=
  fun c' => if Nat.eqb c' c then v else m c'.

(* one action of a thread with private history h *)
Definition step (m : mem) (h : list val) (a : action) : mem * list val :=
  match a with
  | W c e => (upd m c (weval e h), h)
  | R c => (m, h ++ [m c])
  end.

(* a thread running alone *)
Fixpoint run_seq (m : mem) (h : list val) (t : thread) : mem * list val :=
  match t with
  | [] => (m, h)
  | a :: t' => let '(m', h') := step m h a in run_seq m' h' t'
  end.

Definition obs_seq (m : mem) (t : thread) : list val := snd (run_seq m [] t).

(* ---- interleavings: the shuffle relation over ANY number of threads, any schedule ---- *)

Fixpoint set_nth {A} (l : list A) (i : nat) (x : A) : list A :=
  match l, i with
  | [], _ => []
  | _ :: l', O => x :: l'
  | y :: l', S i' => y :: set_nth l' i' x
  end.

Definition trace := list (nat * action).        (* (thread id, action) in global order *)

Inductive interleave : list thread -> trace -> Prop :=
| il_done : forall ts, Forall (fun t => t = []) ts -> interleave ts []
| il_step : forall ts i a rest tr,
    nth_error ts i = Some (a :: rest) ->
    interleave (set_nth ts i rest) tr ->
    interleave ts ((i, a) :: tr).

(* global execution of a trace: shared memory + one private history per thread *)
Definition hists := nat -> list val.
Definition hupd (hs : hists) (i : nat) (h : list val) : hists :=
  fun j => if Nat.eqb j i then h else hs j.

Fixpoint exec (m : mem) (hs : hists) (tr : trace) : mem * hists :=
  match tr with
  | [] => (m, hs)
  | (i, a) :: tr' => let '(m', h') := step m (hs i) a in exec m' (hupd hs i h') tr'
  end.

Definition no_hist : hists := fun _ => [].

(* what thread i observed under the schedule tr *)
Definition obs_in (m : mem) (tr : trace) (i : nat) : list val := snd (exec m no_hist tr) i.

(* the sequential schedule: thread 0 to completion, then thread 1, ... *)
Fixpoint seq_trace_from (k : nat) (ts : list thread) : trace :=
  match ts with
  | [] => []
  | t :: ts' => map (fun a => (k, a)) t ++ seq_trace_from (S k) ts'
  end.
Definition seq_trace (ts : list thread) : trace := seq_trace_from 0 ts.

(* ---- decidable side conditions ---- *)

Definition acc_cell (a : action) : cell := match a with W c _ => c | R c => c end.
Definition is_write_to (c : cell) (a : action) : bool :=
  match a with W c' _ => Nat.eqb c' c | R _ => false end.
Definition accesses_b (c : cell) (t : thread) : bool := existsb (fun a => Nat.eqb (acc_cell a) c) t.
Definition writes_b (c : cell) (t : thread) : bool := existsb (is_write_to c) t.

(* the first access of t to c, if any, is a write *)
Fixpoint first_is_write_b (c : cell) (t : thread) : bool :=
  match t with
  | [] => true
  | W c' _ :: t' => if Nat.eqb c' c then true else first_is_write_b c t'
  | R c' :: t' => if Nat.eqb c' c then false else first_is_write_b c t'
  end.

(* every write to c in t stores the constant k *)
Fixpoint const_writes_b (c : cell) (k : val) (t : thread) : bool :=
  match t with
  | [] => true
  | W c' e :: t' =>
      (if Nat.eqb c' c then match e with WConst v => val_eqb v k | WFun _ => false end else true)
      && const_writes_b c k t'
  | R _ :: t' => const_writes_b c k t'
  end.

Fixpoint first_const_write (c : cell) (t : thread) : option val :=
  match t with
  | [] => None
  | W c' (WConst v) :: t' => if Nat.eqb c' c then Some v else first_const_write c t'
  | _ :: t' => first_const_write c t'
  end.

Fixpoint first_const_write_all (c : cell) (ts : list thread) : option val :=
  match ts with
  | [] => None
  | t :: ts' => match first_const_write c t with Some v => Some v | None => first_const_write_all c ts' end
  end.

(* others_write_b c ts i: some thread other than i writes c *)
Fixpoint others_write_from (k : nat) (c : cell) (ts : list thread) (i : nat) : bool :=
  match ts with
  | [] => false
  | t :: ts' => (negb (Nat.eqb k i) && writes_b c t) || others_write_from (S k) c ts' i
  end.
Definition others_write_b (c : cell) (ts : list thread) (i : nat) : bool := others_write_from 0 c ts i.

(* cell c is private with respect to thread i: nobody else writes it, or i never touches it *)
Definition private_cell_b (ts : list thread) (i : nat) (c : cell) : bool :=
  negb (others_write_b c ts i) || negb (accesses_b c (nth i ts [])).

(* all writes to c (by anybody) store one constant, and thread i writes c before it reads it *)
Definition idem_cell_b (ts : list thread) (i : nat) (c : cell) : bool :=
  match first_const_write_all c ts with
  | Some k => forallb (const_writes_b c k) ts && first_is_write_b c (nth i ts [])
  | None => false
  end.

Definition cells_of (ts : list thread) : list cell := map acc_cell (concat ts).

Definition private_b (ts : list thread) : bool :=
  forallb (fun i => forallb (private_cell_b ts i) (cells_of ts)) (seq 0 (length ts)).

Definition idempotent_b (ts : list thread) : bool :=
  forallb (fun i => forallb (idem_cell_b ts i) (cells_of ts)) (seq 0 (length ts)).

(* the combined condition: every cell is, for every thread, private or idempotently written *)
Definition safe_b (ts : list thread) : bool :=
  forallb (fun i => forallb (fun c => private_cell_b ts i c || idem_cell_b ts i c) (cells_of ts))
          (seq 0 (length ts)).

(* ---- the racy shape: W c v1 ... R c in one thread, a W c v2 (v2 <> v1) in another ---- *)

Definition no_write_to (c : cell) (t : thread) : bool := negb (writes_b c t).

Record split1 := { s_pre : thread; s_c : cell; s_v : val; s_mid : thread; s_post : thread }.
Record split2 := { o_pre : thread; o_v : val; o_post : thread }.

(* first constant write to c with a value different from v *)
Fixpoint find_other_write (c : cell) (v : val) (pre : thread) (t : thread) : option split2 :=
  match t with
  | [] => None
  | W c' (WConst v') :: t' =>
      if Nat.eqb c' c && negb (val_eqb v' v)
      then Some {| o_pre := rev pre; o_v := v'; o_post := t' |}
      else find_other_write c v (W c' (WConst v') :: pre) t'
  | a :: t' => find_other_write c v (a :: pre) t'
  end.

(* after W c v: the stretch up to the next read of c, provided no write to c intervenes *)
Fixpoint find_read (c : cell) (mid : thread) (t : thread) : option (thread * thread) :=
  match t with
  | [] => None
  | R c' :: t' => if Nat.eqb c' c then Some (rev mid, t') else find_read c (R c' :: mid) t'
  | W c' e :: t' => if Nat.eqb c' c then None else find_read c (W c' e :: mid) t'
  end.

Fixpoint find_race (pre : thread) (t1 : thread) (t2 : thread) : option (split1 * split2) :=
  match t1 with
  | [] => None
  | W c (WConst v) :: t' =>
      match find_read c [] t', find_other_write c v [] t2 with
      | Some (mid, post), Some o =>
          Some ({| s_pre := rev pre; s_c := c; s_v := v; s_mid := mid; s_post := post |}, o)
      | _, _ => find_race (W c (WConst v) :: pre) t' t2
      end
  | a :: t' => find_race (a :: pre) t' t2
  end.

Definition tag (i : nat) (t : thread) : trace := map (fun a => (i, a)) t.

(* the constructed schedule: thread 0 up to (not including) its read-back; thread 1 up to and
   including its conflicting write; thread 0 to the end; thread 1 to the end *)
Definition witness_trace (s : split1) (o : split2) : trace :=
  tag 0 (s_pre s ++ W (s_c s) (WConst (s_v s)) :: s_mid s)
  ++ tag 1 (o_pre o ++ [W (s_c s) (WConst (o_v o))])
  ++ tag 0 (R (s_c s) :: s_post s)
  ++ tag 1 (o_post o).

Definition thread1_of (s : split1) : thread :=
  s_pre s ++ W (s_c s) (WConst (s_v s)) :: s_mid s ++ R (s_c s) :: s_post s.
Definition thread2_of (c : cell) (o : split2) : thread :=
  o_pre o ++ W c (WConst (o_v o)) :: o_post o.

Definition count_reads (t : thread) : nat :=
  length (filter (fun a => match a with R _ => true | _ => false end) t).
