(* C20 — a CLASS with several fields (or the classes nested in it): every operation validates all the fields
   one after the other; every field has its own Field objects, i.e. its own cells.  The thread family of the
   class is the composition (Global/Compose.v) of the families of its fields, the j-th field's cells renamed
   by 64*j.  Executable definitions only; the per-field programs come from the GENERATED table through
   SharedName.sample_threads. *)
From Coq Require Import List Arith Bool String.
Import ListNotations.
From TP Require Import Global.Threads Global.SharedName Global.Compose.

Definition class_families (es : list ventry) : list (list thread) :=
  map (fun je : nat * ventry => shift_family (64 * fst je) (sample_threads (snd je)))
      (combine (seq 0 (List.length es)) es).

Definition class_threads (es : list ventry) : list thread := compose_all 3 (class_families es).

Definition verdict_schedule_safe (v : verdict) : bool :=
  match v with SafePrivate | SafeIdempotent => true | _ => false end.

(* decidable: every field's validator is classified safe and the renamed families are pairwise disjoint *)
Definition class_safe_b (es : list ventry) : bool :=
  forallb (fun e => verdict_schedule_safe (classify e)) es && pairwise_disjoint_b 3 (class_families es).

(* a class given by the indices of its fields' validators in a table *)
Definition class_of (tbl : list ventry) (idx : list nat) : list ventry :=
  flat_map (fun i => match nth_error tbl i with Some e => [e] | None => [] end) idx.
