(* Proofs about the get-or-compute cache model (Global/Cache.v):
   - cache_final_safe: if every store of every protocol stores the completely computed value, then
     under EVERY schedule (any number of threads, any number of pre-emptions) every thread that
     returns, returns the computed value - what it returns running alone (cache_final_alone);
   - cache_placeholder_witness: a protocol whose first store puts anything else into the slot
     admits a constructed schedule under which another thread, looking the slot up, returns that
     other value;
   - check-then-read (`if key in cache: return cache[key]`, two steps) is safe exactly as long as NOTHING is
     ever removed: cache_insert_only_safe (no removal site: no thread ever raises, every thread returns the
     computed value) and cache_removal_witness (a removal site: a constructed schedule under which the reader
     raises KeyError between its test and its read);
   - the decidable classification of a table entry is sound in both directions. *)
From Coq Require Import List Arith Bool Lia.
Import ListNotations.
From TP Require Import Global.Threads Global.Cache.

(* ------------------------------------------------------------------ the invariants *)

Definition slot_ok (s : slot) : Prop := s = None \/ s = Some CFinal.

Lemma stores_final_cons : forall a r, stores_final (a :: r) = true ->
                                      is_other_store a = false /\ stores_final r = true.
Proof.
  intros a r H. unfold stores_final in *. cbn [forallb] in H. apply andb_true_iff in H as [Ha Hr].
  split; [apply negb_true_iff; exact Ha | exact Hr].
Qed.

Lemma no_read_cons : forall a r, no_read (a :: r) = true -> is_read a = false /\ no_read r = true.
Proof.
  intros a r H. unfold no_read in *. cbn [forallb] in H. apply andb_true_iff in H as [Ha Hr].
  split; [apply negb_true_iff; exact Ha | exact Hr].
Qed.

Lemma no_clear_cons : forall a r, no_clear (a :: r) = true -> is_clear a = false /\ no_clear r = true.
Proof.
  intros a r H. unfold no_clear in *. cbn [forallb] in H. apply andb_true_iff in H as [Ha Hr].
  split; [apply negb_true_iff; exact Ha | exact Hr].
Qed.

(* what is left after a missed membership test *)
Definition skip_read (r : cprog) : cprog := match r with CRead :: r' => r' | _ => r end.

Lemma stores_final_skip : forall r, stores_final r = true -> stores_final (skip_read r) = true.
Proof. intros [|a r] H; [exact H|]. destruct a; exact H. Qed.
Lemma no_read_skip : forall r, no_read r = true -> skip_read r = r.
Proof. intros [|a r] H; [reflexivity|]. destruct a; try reflexivity. apply no_read_cons in H as [H _]. discriminate. Qed.
Lemma no_clear_skip : forall r, no_clear r = true -> no_clear (skip_read r) = true.
Proof. intros [|a r] H; [exact H|]. destruct a; exact H. Qed.

Lemma Forall_set_nth : forall A (P : A -> Prop) (l : list A) i x,
    Forall P l -> P x -> Forall P (set_nth l i x).
Proof.
  induction l as [|y l IH]; intros i x Hl Hx; destruct i; cbn [set_nth]; try constructor; inversion Hl; subst; auto.
Qed.

Lemma nth_error_Forall : forall A (P : A -> Prop) (l : list A) i x,
    Forall P l -> nth_error l i = Some x -> P x.
Proof.
  intros A P l i x Hl Hn. apply nth_error_In in Hn. rewrite Forall_forall in Hl. auto.
Qed.

(* ---- mode A: every lookup is ONE atomic step (removals allowed) ---- *)

Definition tstate_ok (t : tstate) : Prop :=
  match t with
  | Running r => stores_final r = true /\ no_read r = true
  | Done v => v = CFinal
  | Failed => False
  end.

Lemma cstep_ok : forall s t, slot_ok s -> tstate_ok t ->
                             slot_ok (fst (cstep s t)) /\ tstate_ok (snd (cstep s t)).
Proof.
  intros s t Hs Ht. destruct t as [r|v|]; [|split; assumption|contradiction].
  destruct r as [|a r]; [split; [assumption|reflexivity]|].
  cbn [tstate_ok] in Ht. destruct Ht as [Hf Hn].
  apply stores_final_cons in Hf as [Ha Hr]. apply no_read_cons in Hn as [Hra Hrr].
  destruct a as [ | v | | | | ]; cbn [cstep].
  - destruct s as [v|]; cbn [fst snd].
    + destruct Hs as [Hs|Hs]; [discriminate|]. injection Hs as ->. split; [right; reflexivity|reflexivity].
    + split; [left; reflexivity|split; assumption].
  - destruct v as [|tag]; cbn in Ha; [|discriminate]. split; [right; reflexivity|split; assumption].
  - split; [left; reflexivity|split; assumption].
  - split; [assumption|split; assumption].
  - fold (skip_read r). rewrite (no_read_skip r Hrr). destruct s; cbn [fst snd]; (split; [assumption|split; assumption]).
  - cbn in Hra. discriminate.
Qed.

Lemma crun_ok : forall sched s ts, slot_ok s -> Forall tstate_ok ts ->
    slot_ok (fst (crun sched s ts)) /\ Forall tstate_ok (snd (crun sched s ts)).
Proof.
  induction sched as [|i sched IH]; intros s ts Hs Hts; cbn [crun]; [split; assumption|].
  destruct (nth_error ts i) as [t|] eqn:Hn; [|apply IH; assumption].
  pose proof (cstep_ok s t Hs (nth_error_Forall _ _ _ _ _ Hts Hn)) as [Hs' Ht'].
  destruct (cstep s t) as [s' t']. cbn [fst snd] in *.
  apply IH; [assumption|]. apply Forall_set_nth; assumption.
Qed.

Lemma cstart_ok : forall ps, forallb stores_final ps = true -> forallb no_read ps = true ->
                             Forall tstate_ok (cstart ps).
Proof.
  induction ps as [|p ps IH]; intros H1 H2; cbn; constructor.
  - cbn in H1, H2. apply andb_true_iff in H1, H2. cbn. tauto.
  - apply IH; [cbn in H1; apply andb_true_iff in H1; tauto|cbn in H2; apply andb_true_iff in H2; tauto].
Qed.

(* ANY schedule, any number of threads (each with its own protocol on the same slot); lookups are atomic,
   removals (clear / pop / del) are allowed *)
Theorem cache_final_safe : forall ps sched s i r,
    forallb stores_final ps = true -> forallb no_read ps = true -> slot_ok s ->
    cresult (crun sched s (cstart ps)) i = Some r -> r = CFinal.
Proof.
  intros ps sched s i r Hps Hnr Hs Hr. unfold cresult in Hr.
  destruct (crun_ok sched s (cstart ps) Hs (cstart_ok ps Hps Hnr)) as [_ Hall].
  destruct (nth_error (snd (crun sched s (cstart ps))) i) as [t|] eqn:Hn; [|discriminate].
  destruct t as [rest|v|]; try discriminate. injection Hr as <-.
  exact (nth_error_Forall _ _ _ _ _ Hall Hn).
Qed.

Theorem cache_atomic_never_fails : forall ps sched s i,
    forallb stores_final ps = true -> forallb no_read ps = true -> slot_ok s ->
    cfailed (crun sched s (cstart ps)) i = false.
Proof.
  intros ps sched s i Hps Hnr Hs. unfold cfailed.
  destruct (crun_ok sched s (cstart ps) Hs (cstart_ok ps Hps Hnr)) as [_ Hall].
  destruct (nth_error (snd (crun sched s (cstart ps))) i) as [t|] eqn:Hn; [|reflexivity].
  destruct t as [rest|v|]; try reflexivity.
  exfalso. exact (nth_error_Forall _ _ _ _ _ Hall Hn).
Qed.

(* ---- mode B: check-then-read, INSERT-ONLY (no removal site anywhere) ---- *)

(* a thread is either in front of guarded code, or between a membership test that hit and its read - and
   then the slot is (still) filled *)
Definition tstate_okB (s : slot) (t : tstate) : Prop :=
  match t with
  | Running r => stores_final r = true /\ no_clear r = true /\
                 (guarded r = true \/ exists r', r = CRead :: r' /\ guarded r' = true /\ s <> None)
  | Done v => v = CFinal
  | Failed => False
  end.

Lemma okB_mono : forall s s' t, (s <> None -> s' <> None) -> tstate_okB s t -> tstate_okB s' t.
Proof.
  intros s s' t Hm Ht. destruct t as [r|v|]; [|exact Ht|exact Ht].
  destruct Ht as [H1 [H2 [H3|[r' [E [G N]]]]]]; (split; [exact H1|split; [exact H2|]]).
  - left. exact H3.
  - right. exists r'. split; [exact E|split; [exact G|apply Hm; exact N]].
Qed.

Lemma guarded_check : forall r, guarded (CCheck :: r) = true ->
    (exists r', r = CRead :: r' /\ guarded r' = true) \/ (guarded r = true /\ skip_read r = r).
Proof.
  intros r H. destruct r as [|a r']; [right; split; reflexivity|].
  destruct a; try (right; split; [exact H|reflexivity]).
  left. exists r'. split; [reflexivity|exact H].
Qed.

Lemma cstepB_ok : forall s t, slot_ok s -> tstate_okB s t ->
    slot_ok (fst (cstep s t)) /\ tstate_okB (fst (cstep s t)) (snd (cstep s t)) /\
    (s <> None -> fst (cstep s t) <> None).
Proof.
  intros s t Hs Ht. destruct t as [r|v|]; [|split; [assumption|split; [assumption|auto]]|contradiction].
  destruct r as [|a r]; [cbn; split; [assumption|split; [reflexivity|auto]]|].
  destruct Ht as [Hf [Hc Hg]].
  apply stores_final_cons in Hf as [Ha Hr]. apply no_clear_cons in Hc as [Hca Hcr].
  destruct Hg as [Hg|[r' [E [G N]]]].
  - destruct a as [ | v | | | | ]; cbn [cstep].
    + destruct s as [v|]; cbn [fst snd].
      * destruct Hs as [Hs|Hs]; [discriminate|]. injection Hs as ->.
        split; [right; reflexivity|split; [reflexivity|auto]].
      * split; [left; reflexivity|split; [|auto]]. split; [exact Hr|split; [exact Hcr|left; exact Hg]].
    + destruct v as [|tag]; cbn in Ha; [|discriminate]. cbn [fst snd].
      split; [right; reflexivity|split; [|intros _; discriminate]].
      split; [exact Hr|split; [exact Hcr|left; exact Hg]].
    + cbn in Hca. discriminate.
    + cbn [fst snd]. split; [assumption|split; [|auto]]. split; [exact Hr|split; [exact Hcr|left; exact Hg]].
    + fold (skip_read r). destruct (guarded_check r Hg) as [[r' [-> G]]|[G Hsk]].
      * destruct s as [v|]; cbn [fst snd skip_read].
        -- split; [assumption|split; [|auto]]. split; [exact Hr|split; [exact Hcr|]].
           right. exists r'. split; [reflexivity|split; [exact G|discriminate]].
        -- split; [assumption|split; [|auto]].
           apply stores_final_cons in Hr as [_ Hr']. apply no_clear_cons in Hcr as [_ Hcr'].
           split; [exact Hr'|split; [exact Hcr'|left; exact G]].
      * rewrite Hsk. destruct s as [v|]; cbn [fst snd];
          (split; [assumption|split; [|auto]]; split; [exact Hr|split; [exact Hcr|left; exact G]]).
    + cbn in Hg. discriminate.
  - injection E as -> ->. cbn [cstep]. destruct s as [v|]; [|contradiction].
    destruct Hs as [Hs|Hs]; [discriminate|]. injection Hs as ->. cbn [fst snd].
    split; [right; reflexivity|split; [reflexivity|auto]].
Qed.

Lemma Forall_okB_mono : forall s s' ts, (s <> None -> s' <> None) ->
                                        Forall (tstate_okB s) ts -> Forall (tstate_okB s') ts.
Proof. intros s s' ts Hm H. eapply Forall_impl; [|exact H]. intros t Ht. eapply okB_mono; eassumption. Qed.

Lemma crunB_ok : forall sched s ts, slot_ok s -> Forall (tstate_okB s) ts ->
    slot_ok (fst (crun sched s ts)) /\ Forall (tstate_okB (fst (crun sched s ts))) (snd (crun sched s ts)).
Proof.
  induction sched as [|i sched IH]; intros s ts Hs Hts; cbn [crun]; [split; assumption|].
  destruct (nth_error ts i) as [t|] eqn:Hn; [|apply IH; assumption].
  pose proof (cstepB_ok s t Hs (nth_error_Forall _ _ _ _ _ Hts Hn)) as [Hs' [Ht' Hm]].
  destruct (cstep s t) as [s' t']. cbn [fst snd] in *.
  apply IH; [assumption|]. apply Forall_set_nth; [|assumption].
  eapply Forall_okB_mono; eassumption.
Qed.

Lemma cstartB_ok : forall ps s,
    forallb stores_final ps = true -> forallb no_clear ps = true -> forallb guarded ps = true ->
    Forall (tstate_okB s) (cstart ps).
Proof.
  induction ps as [|p ps IH]; intros s H1 H2 H3; cbn; constructor.
  - cbn in H1, H2, H3. apply andb_true_iff in H1, H2, H3. cbn. tauto.
  - apply IH; [cbn in H1; apply andb_true_iff in H1; tauto|cbn in H2; apply andb_true_iff in H2; tauto
               |cbn in H3; apply andb_true_iff in H3; tauto].
Qed.

(* NO removal site in any protocol: check-then-read never raises, and every thread that returns, returns the
   computed value - ANY schedule, any number of threads *)
Theorem cache_insert_only_safe : forall ps sched s i,
    forallb stores_final ps = true -> forallb no_clear ps = true -> forallb guarded ps = true -> slot_ok s ->
    cfailed (crun sched s (cstart ps)) i = false /\
    forall r, cresult (crun sched s (cstart ps)) i = Some r -> r = CFinal.
Proof.
  intros ps sched s i H1 H2 H3 Hs.
  destruct (crunB_ok sched s (cstart ps) Hs (cstartB_ok ps s H1 H2 H3)) as [_ Hall].
  unfold cfailed, cresult.
  destruct (nth_error (snd (crun sched s (cstart ps))) i) as [t|] eqn:Hn; [|split; [reflexivity|discriminate]].
  pose proof (nth_error_Forall _ _ _ _ _ Hall Hn) as Ht.
  destruct t as [rest|v|]; [split; [reflexivity|discriminate]| |contradiction].
  split; [reflexivity|]. intros r E. injection E as <-. exact Ht.
Qed.

(* the two modes together: what the classifier calls safe *)
Theorem cache_protocols_safe : forall ps sched s i,
    protocols_safe ps = true -> slot_ok s ->
    cfailed (crun sched s (cstart ps)) i = false /\
    forall r, cresult (crun sched s (cstart ps)) i = Some r -> r = CFinal.
Proof.
  intros ps sched s i H Hs. unfold protocols_safe in H. apply andb_true_iff in H as [Hf H].
  apply orb_true_iff in H as [Hnr|H].
  - split; [apply cache_atomic_never_fails; assumption|]. intros r Hr. eapply cache_final_safe; eassumption.
  - apply andb_true_iff in H as [Hc Hg]. apply cache_insert_only_safe; assumption.
Qed.

(* ------------------------------------------------------------------ basic facts about schedules *)

Lemma crun_app : forall a b s ts,
    crun (a ++ b) s ts = crun b (fst (crun a s ts)) (snd (crun a s ts)).
Proof.
  induction a as [|i a IH]; intros b s ts; [reflexivity|].
  cbn [app crun]. destruct (nth_error ts i) as [t|]; [|apply IH].
  destruct (cstep s t) as [s' t']. apply IH.
Qed.

Lemma repeat_S_end : forall A (x : A) n, repeat x (S n) = repeat x n ++ [x].
Proof. induction n as [|n IH]; [reflexivity|]. cbn [repeat app] in *. rewrite <- IH. reflexivity. Qed.

Lemma crun_finished0 : forall n s t, (forall s', cstep s' t = (s', t)) -> crun (repeat 0 n) s [t] = (s, [t]).
Proof.
  induction n as [|n IH]; intros s t H; [reflexivity|].
  cbn [repeat crun nth_error]. rewrite H. cbn [set_nth]. apply IH. exact H.
Qed.

(* the sequential reference: `calone` is what the small-step semantics computes when only that thread is
   scheduled (often enough) *)
Lemma calone_is_crun_gen : forall k p s n, length p <= k -> S (length p) <= n ->
    crun (repeat 0 n) s [Running p] = (fst (calone s p), [tstate_of (snd (calone s p))]).
Proof.
  induction k as [|k IH]; intros p s n Hk Hn.
  - destruct p; [|cbn in Hk; lia]. destruct n; [lia|]. cbn [repeat crun nth_error cstep set_nth calone fst snd tstate_of].
    apply crun_finished0. reflexivity.
  - destruct p as [|a p]; [destruct n; [lia|]; cbn [repeat crun nth_error cstep set_nth calone fst snd tstate_of];
                           apply crun_finished0; reflexivity|].
    destruct n; [cbn in Hn; lia|]. cbn [length] in Hk, Hn.
    cbn [repeat crun nth_error]. destruct a as [ | v | | | | ]; cbn [cstep calone set_nth].
    + destruct s as [v|]; [|apply IH; lia]. cbn [fst snd tstate_of]. apply crun_finished0. reflexivity.
    + apply IH; lia.
    + apply IH; lia.
    + apply IH; lia.
    + destruct s as [v|]; [apply IH; lia|].
      destruct p as [|b p']; [apply IH; cbn; lia|].
      destruct b; try (apply IH; cbn [length] in *; lia).
    + destruct s as [v|]; cbn [fst snd tstate_of]; apply crun_finished0; reflexivity.
Qed.

Theorem calone_is_crun : forall p s,
    crun (repeat 0 (S (length p))) s [Running p] = (fst (calone s p), [tstate_of (snd (calone s p))]).
Proof. intros p s. apply (calone_is_crun_gen (length p)); lia. Qed.

(* a safe protocol running alone returns the computed value and leaves the slot empty or filled with it *)
Theorem cache_final_alone : forall p s, protocols_safe [p] = true -> slot_ok s ->
                                        snd (calone s p) = Some CFinal /\ slot_ok (fst (calone s p)).
Proof.
  intros p s H Hs.
  pose proof (calone_is_crun p s) as E.
  pose proof (cache_protocols_safe [p] (repeat 0 (S (length p))) s 0 H Hs) as [Hnf Hres].
  unfold cstart in Hnf, Hres. cbn [map] in Hnf, Hres. rewrite E in Hnf, Hres.
  unfold cfailed, cresult in *. cbn [snd nth_error] in *.
  assert (Hok : slot_ok (fst (calone s p))).
  { unfold protocols_safe in H. cbn [forallb] in H. rewrite !andb_true_r in H.
    apply andb_true_iff in H as [Hf H]. apply orb_true_iff in H as [Hnr|H].
    - assert (Hst : Forall tstate_ok (cstart [p])) by (apply cstart_ok; cbn; rewrite ?Hf, ?Hnr; reflexivity).
      pose proof (crun_ok (repeat 0 (S (length p))) s (cstart [p]) Hs Hst) as [Hs' _].
      unfold cstart in Hs'. cbn [map] in Hs'. rewrite E in Hs'. exact Hs'.
    - apply andb_true_iff in H as [Hc Hg].
      assert (Hst : Forall (tstate_okB s) (cstart [p])) by (apply cstartB_ok; cbn; rewrite ?Hf, ?Hc, ?Hg; reflexivity).
      pose proof (crunB_ok (repeat 0 (S (length p))) s (cstart [p]) Hs Hst) as [Hs' _].
      unfold cstart in Hs'. cbn [map] in Hs'. rewrite E in Hs'. exact Hs'. }
  split; [|exact Hok].
  destruct (snd (calone s p)) as [v|]; cbn [tstate_of] in *; [|discriminate].
  f_equal. apply Hres. reflexivity.
Qed.

(* ------------------------------------------------------------------ the placeholder witness *)

Lemma no_store_cons : forall a r, no_store (a :: r) = true -> is_store a = false /\ no_store r = true.
Proof.
  intros a r H. unfold no_store in *. cbn [forallb] in H. apply andb_true_iff in H as [Ha Hr].
  split; [apply negb_true_iff; exact Ha | exact Hr].
Qed.

(* the writer runs through a store-free prefix starting from the empty slot: the slot stays empty; a missed
   membership test may skip one more action, so the prefix is consumed in AT MOST its length: we only use
   prefixes without check/read here *)
Definition plain (p : cprog) : bool :=
  forallb (fun a => match a with CCheck | CRead => false | _ => true end) p.

Lemma writer_prefix : forall pre rest t1,
    no_store pre = true -> plain pre = true ->
    crun (repeat 0 (length pre)) None [Running (pre ++ rest); t1] = (None, [Running rest; t1]).
Proof.
  induction pre as [|a pre IH]; intros rest t1 H Hp; [reflexivity|].
  apply no_store_cons in H as [Ha Hpre].
  unfold plain in Hp. cbn [forallb] in Hp. apply andb_true_iff in Hp as [Hpa Hpp].
  cbn [length repeat app crun nth_error].
  destruct a as [ | v | | | | ]; cbn [cstep set_nth]; try (apply IH; assumption); try discriminate.
Qed.

Lemma only_local_cons : forall a r, only_local (a :: r) = true -> a = CLocal /\ only_local r = true.
Proof.
  intros a r H. unfold only_local in *. cbn [forallb] in H. apply andb_true_iff in H as [Ha Hr].
  split; [destruct a; cbn in Ha; try discriminate; reflexivity | exact Hr].
Qed.

Lemma reader_prefix : forall loc rest t0 s,
    only_local loc = true ->
    crun (repeat 1 (length loc)) s [t0; Running (loc ++ rest)] = (s, [t0; Running rest]).
Proof.
  induction loc as [|a loc IH]; intros rest t0 s H; [reflexivity|].
  apply only_local_cons in H as [-> Hloc].
  cbn [length repeat app crun nth_error cstep set_nth]. apply IH. exact Hloc.
Qed.

Lemma local_prefix0 : forall loc rest t1 s,
    only_local loc = true ->
    crun (repeat 0 (length loc)) s [Running (loc ++ rest); t1] = (s, [Running rest; t1]).
Proof.
  induction loc as [|a loc IH]; intros rest t1 s H; [reflexivity|].
  apply only_local_cons in H as [-> Hloc].
  cbn [length repeat app crun nth_error cstep set_nth]. apply IH. exact Hloc.
Qed.

Theorem cache_placeholder_witness : forall pre tag post loc rest,
    no_store pre = true -> plain pre = true -> only_local loc = true ->
    cresult (crun (placeholder_sched pre loc) None
                  (cstart [pre ++ CStore (COther tag) :: post; loc ++ CLookup :: rest])) 1
    = Some (COther tag).
Proof.
  intros pre tag post loc rest Hpre Hpl Hloc. unfold placeholder_sched, cstart. cbn [map].
  rewrite crun_app.
  rewrite (repeat_S_end _ 0 (length pre)). rewrite crun_app.
  rewrite (writer_prefix pre (CStore (COther tag) :: post) _ Hpre Hpl). cbn [fst snd].
  cbn [crun nth_error cstep set_nth fst snd].
  rewrite (repeat_S_end _ 1 (length loc)). rewrite crun_app.
  rewrite (reader_prefix loc (CLookup :: rest) _ _ Hloc). cbn [fst snd].
  reflexivity.
Qed.

(* the same with a reader that tests membership and then reads (two steps) *)
Theorem cache_placeholder_witness_cr : forall pre tag post loc rest,
    no_store pre = true -> plain pre = true -> only_local loc = true ->
    cresult (crun (repeat 0 (S (length pre)) ++ repeat 1 (S (S (length loc)))) None
                  (cstart [pre ++ CStore (COther tag) :: post; loc ++ CCheck :: CRead :: rest])) 1
    = Some (COther tag).
Proof.
  intros pre tag post loc rest Hpre Hpl Hloc. unfold cstart. cbn [map].
  rewrite crun_app.
  rewrite (repeat_S_end _ 0 (length pre)). rewrite crun_app.
  rewrite (writer_prefix pre (CStore (COther tag) :: post) _ Hpre Hpl). cbn [fst snd].
  cbn [crun nth_error cstep set_nth fst snd].
  rewrite (repeat_S_end _ 1 (S (length loc))). rewrite crun_app.
  rewrite (repeat_S_end _ 1 (length loc)). rewrite crun_app.
  rewrite (reader_prefix loc (CCheck :: CRead :: rest) _ _ Hloc). cbn [fst snd].
  reflexivity.
Qed.

(* ------------------------------------------------------------------ the removal witness *)

(* a reader that has tested membership (hit) and not yet read; another thread - working on ANY key - reaches a
   removal that empties this slot; the reader's subscript read raises KeyError *)
Lemma reader_to_check : forall loc rest t1 v,
    only_local loc = true ->
    crun (repeat 0 (S (length loc))) (Some v) [Running (loc ++ CCheck :: CRead :: rest); t1]
    = (Some v, [Running (CRead :: rest); t1]).
Proof.
  intros loc rest t1 v Hloc. rewrite (repeat_S_end _ 0 (length loc)), crun_app.
  rewrite (local_prefix0 loc (CCheck :: CRead :: rest) t1 (Some v) Hloc). reflexivity.
Qed.

Lemma remover_to_clear : forall pre post t0 s,
    only_local pre = true ->
    crun (repeat 1 (S (length pre))) s [t0; Running (pre ++ CClear :: post)] = (None, [t0; Running post]).
Proof.
  intros pre post t0 s Hpre. rewrite (repeat_S_end _ 1 (length pre)), crun_app.
  rewrite (reader_prefix pre (CClear :: post) t0 s Hpre). reflexivity.
Qed.

Theorem cache_removal_witness : forall loc rest pre post v,
    only_local loc = true -> only_local pre = true ->
    cfailed (crun (removal_sched loc pre) (Some v)
                  (cstart [loc ++ CCheck :: CRead :: rest; pre ++ CClear :: post])) 0 = true.
Proof.
  intros loc rest pre post v Hloc Hpre. unfold removal_sched, cstart. cbn [map].
  rewrite (crun_app (repeat 0 (S (length loc)))).
  rewrite (reader_to_check loc rest _ v Hloc). cbn [fst snd].
  rewrite (crun_app (repeat 1 (S (length pre)))).
  rewrite (remover_to_clear pre post _ (Some v) Hpre). cbn [fst snd].
  reflexivity.
Qed.

(* ------------------------------------------------------------------ the decidable searches are sound *)

Lemma no_store_app : forall a b, no_store (a ++ b) = no_store a && no_store b.
Proof. intros. unfold no_store. apply forallb_app. Qed.
Lemma plain_app : forall a b, plain (a ++ b) = plain a && plain b.
Proof. intros. unfold plain. apply forallb_app. Qed.
Lemma only_local_app : forall a b, only_local (a ++ b) = only_local a && only_local b.
Proof. intros. unfold only_local. apply forallb_app. Qed.

Lemma find_placeholder_spec : forall p pre0 pre tag post,
    find_placeholder pre0 p = Some (pre, tag, post) -> no_store (rev pre0) = true ->
    rev pre0 ++ p = pre ++ CStore (COther tag) :: post /\ no_store pre = true.
Proof.
  induction p as [|a p IH]; intros pre0 pre tag post H Hpre0; [discriminate|].
  destruct a as [ | v | | | | ]; cbn [find_placeholder] in H;
    try (apply IH in H; [cbn [rev] in H; rewrite <- app_assoc in H; exact H
                        |cbn [rev]; rewrite no_store_app, Hpre0; reflexivity]).
  destruct v as [|t]; [discriminate|]. injection H as <- <- <-. split; [reflexivity|exact Hpre0].
Qed.

Lemma find_lookup_spec : forall q pre0 loc rest,
    find_lookup pre0 q = Some (loc, rest) -> only_local (rev pre0) = true ->
    rev pre0 ++ q = loc ++ CLookup :: rest /\ only_local loc = true.
Proof.
  induction q as [|a q IH]; intros pre0 loc rest H Hpre0; [discriminate|].
  destruct a as [ | v | | | | ]; cbn [find_lookup] in H; try discriminate.
  - injection H as <- <-. split; [reflexivity|exact Hpre0].
  - apply IH in H.
    + cbn [rev] in H. rewrite <- app_assoc in H. exact H.
    + cbn [rev]. rewrite only_local_app, Hpre0. reflexivity.
Qed.

Lemma find_checkread_spec : forall q pre0 loc rest,
    find_checkread pre0 q = Some (loc, rest) -> only_local (rev pre0) = true ->
    rev pre0 ++ q = loc ++ CCheck :: CRead :: rest /\ only_local loc = true.
Proof.
  induction q as [|a q IH]; intros pre0 loc rest H Hpre0; [discriminate|].
  destruct a as [ | v | | | | ]; cbn [find_checkread] in H; try discriminate.
  - apply IH in H.
    + cbn [rev] in H. rewrite <- app_assoc in H. exact H.
    + cbn [rev]. rewrite only_local_app, Hpre0. reflexivity.
  - destruct q as [|b q']; [discriminate|]. destruct b; try discriminate.
    injection H as <- <-. split; [reflexivity|exact Hpre0].
Qed.

Lemma foreign_view_cons : forall a p, foreign_view (a :: p) = (match a with CClear => CClear | _ => CLocal end) :: foreign_view p.
Proof. reflexivity. Qed.

Lemma find_clear_foreign_spec : forall q pre0 pre post,
    find_clear pre0 (foreign_view q) = Some (pre, post) -> only_local (rev pre0) = true ->
    rev pre0 ++ foreign_view q = pre ++ CClear :: post /\ only_local pre = true.
Proof.
  induction q as [|a q IH]; intros pre0 pre post H Hpre0; [discriminate|].
  rewrite foreign_view_cons in *.
  destruct a as [ | v | | | | ]; cbn [find_clear] in H;
    try (apply IH in H; [cbn [rev] in H; rewrite <- app_assoc in H; exact H
                        |cbn [rev]; rewrite only_local_app, Hpre0; reflexivity]).
  injection H as <- <-. split; [reflexivity|exact Hpre0].
Qed.

(* the placeholder needs a prefix without membership tests; the generated protocols have at most a lookup or a
   check-then-read in front of their first store: handled by a boolean side condition *)
Definition placeholder_ready (p : cprog) : bool :=
  match find_placeholder [] p with Some (pre, _, _) => plain pre | None => false end.

Theorem cache_classify2_racy : forall p q,
    cache_classify2 p q = CacheRacy -> placeholder_ready p = true ->
    exists sched tag, cresult (crun sched None (cstart [p; q])) 1 = Some (COther tag).
Proof.
  intros p q H Hready. unfold cache_classify2 in H.
  destruct (protocols_safe [p; q]); [discriminate|].
  unfold placeholder_ready in Hready.
  destruct (find_placeholder [] p) as [[[pre tag] post]|] eqn:Hp; [|discriminate].
  apply find_placeholder_spec in Hp; [|reflexivity]. destruct Hp as [Hp Hpre]. cbn [rev app] in Hp. subst p.
  unfold find_reader in H.
  destruct (find_lookup [] q) as [[loc rest]|] eqn:Hq.
  - apply find_lookup_spec in Hq; [|reflexivity]. destruct Hq as [Hq Hloc]. cbn [rev app] in Hq. subst q.
    exists (placeholder_sched pre loc), tag. apply cache_placeholder_witness; assumption.
  - destruct (find_checkread [] q) as [[loc rest]|] eqn:Hq2; [|discriminate].
    apply find_checkread_spec in Hq2; [|reflexivity]. destruct Hq2 as [Hq2 Hloc]. cbn [rev app] in Hq2. subst q.
    exists (repeat 0 (S (length pre)) ++ repeat 1 (S (S (length loc)))), tag.
    apply cache_placeholder_witness_cr; assumption.
Qed.

Theorem removal_racy2_witness : forall p q v,
    removal_racy2 p q = true ->
    exists sched, cfailed (crun sched (Some v) (cstart [p; foreign_view q])) 0 = true.
Proof.
  intros p q v H. unfold removal_racy2 in H.
  destruct (find_checkread [] p) as [[loc rest]|] eqn:Hp; [|discriminate].
  destruct (find_clear [] (foreign_view q)) as [[pre post]|] eqn:Hq; [|discriminate].
  apply find_checkread_spec in Hp; [|reflexivity]. destruct Hp as [Hp Hloc]. cbn [rev app] in Hp. subst p.
  apply find_clear_foreign_spec in Hq; [|reflexivity]. destruct Hq as [Hq Hpre]. cbn [rev app] in Hq. rewrite Hq.
  exists (removal_sched loc pre). apply cache_removal_witness; assumption.
Qed.

Theorem cache_classified_safe : forall ps sched s i,
    cache_classify ps = CacheSafe -> slot_ok s ->
    cfailed (crun sched s (cstart ps)) i = false /\
    forall r, cresult (crun sched s (cstart ps)) i = Some r -> r = CFinal.
Proof.
  intros ps sched s i H Hs. unfold cache_classify in H.
  destruct (protocols_safe ps) eqn:Hall.
  - apply cache_protocols_safe; assumption.
  - destruct (_ || _); discriminate.
Qed.

(* racy: a placeholder that a reader can return, or a check-then-read next to a removal site that makes
   the reader raise *)
Theorem cache_classified_racy : forall ps,
    cache_classify ps = CacheRacy ->
    (exists p q, In p ps /\ In q ps /\ cache_classify2 p q = CacheRacy) \/
    (exists p q, In p ps /\ In q ps /\
                 forall v, exists sched, cfailed (crun sched (Some v) (cstart [p; foreign_view q])) 0 = true).
Proof.
  intros ps H. unfold cache_classify in H.
  destruct (protocols_safe ps); [discriminate|].
  destruct (existsb (fun p => existsb (fun q => match cache_classify2 p q with CacheRacy => true | _ => false end) ps) ps) eqn:Hex.
  - left. apply existsb_exists in Hex as [p [Hp Hex]]. apply existsb_exists in Hex as [q [Hq Hpq]].
    exists p, q. split; [exact Hp|split; [exact Hq|]]. destruct (cache_classify2 p q); try discriminate. reflexivity.
  - cbn [orb] in H. destruct (existsb (fun p => existsb (removal_racy2 p) ps) ps) eqn:Hex2; [|discriminate].
    right. apply existsb_exists in Hex2 as [p [Hp Hex2]]. apply existsb_exists in Hex2 as [q [Hq Hpq]].
    exists p, q. split; [exact Hp|split; [exact Hq|]]. intro v. apply removal_racy2_witness. exact Hpq.
Qed.

Theorem cache_safe_excludes_witness : forall ps sched i tag,
    cache_classify ps = CacheSafe ->
    cresult (crun sched None (cstart ps)) i = Some (COther tag) -> False.
Proof.
  intros ps sched i tag H Hr.
  destruct (cache_classified_safe ps sched None i H (or_introl eq_refl)) as [_ Hres].
  specialize (Hres _ Hr). discriminate.
Qed.

(* ------------------------------------------------------------------ progress: threads do return *)

Definition remaining (t : tstate) : nat := match t with Running r => S (length r) | _ => 0 end.

Lemma cstep_remaining : forall s t, remaining (snd (cstep s t)) < remaining t \/ remaining t = 0.
Proof.
  intros s t. destruct t as [r|v|]; [|right; reflexivity|right; reflexivity]. left.
  destruct r as [|a r]; [cbn; lia|].
  destruct a as [ | v | | | | ]; cbn [cstep]; try (cbn; lia); destruct s; cbn; try lia.
  destruct r as [|b r']; cbn; try lia. destruct b; cbn; lia.
Qed.

Lemma nth_error_set_nth_same : forall A (l : list A) i x y,
    nth_error l i = Some y -> nth_error (set_nth l i x) i = Some x.
Proof.
  induction l as [|z l IH]; intros i x y H; destruct i; cbn in *; try discriminate; auto.
  eapply IH; eauto.
Qed.

Lemma nth_error_set_nth_other : forall A (l : list A) i j x,
    i <> j -> nth_error (set_nth l i x) j = nth_error l j.
Proof.
  induction l as [|z l IH]; intros i j x H; destruct i, j; cbn; auto; try congruence.
Qed.

Lemma cstep_finished : forall s t, remaining t = 0 -> cstep s t = (s, t).
Proof. intros s [r|v|] H; [cbn in H; discriminate|reflexivity|reflexivity]. Qed.

(* every step of thread i shortens what it has left; steps of other threads do not touch it *)
Lemma crun_progress : forall sched s ts i t,
    nth_error ts i = Some t ->
    exists t', nth_error (snd (crun sched s ts)) i = Some t' /\
               (remaining t' + count_occ Nat.eq_dec sched i <= remaining t \/ remaining t' = 0).
Proof.
  induction sched as [|j sched IH]; intros s ts i t Hi.
  - exists t. split; [exact Hi|left; cbn; lia].
  - cbn [crun]. destruct (nth_error ts j) as [tj|] eqn:Hj.
    + destruct (cstep s tj) as [s' tj'] eqn:Hstep.
      destruct (Nat.eq_dec j i) as [->|Hne].
      * rewrite Hi in Hj. injection Hj as <-.
        assert (Hi' : nth_error (set_nth ts i tj') i = Some tj') by (eapply nth_error_set_nth_same; exact Hi).
        destruct (IH s' (set_nth ts i tj') i tj' Hi') as [t' [Hn [Hle|Hz]]]; exists t'; (split; [exact Hn|]).
        -- pose proof (cstep_remaining s t) as Hrem. rewrite Hstep in Hrem. cbn [snd] in Hrem.
           cbn [count_occ]. destruct (Nat.eq_dec i i) as [_|C]; [|congruence].
           destruct Hrem as [Hlt|Hz]; [left; lia|].
           right. rewrite (cstep_finished s t Hz) in Hstep. injection Hstep as <- <-. lia.
        -- right. exact Hz.
      * assert (Hi' : nth_error (set_nth ts j tj') i = Some t) by (rewrite nth_error_set_nth_other; assumption).
        destruct (IH s' (set_nth ts j tj') i t Hi') as [t' [Hn [Hle|Hz]]]; exists t'; (split; [exact Hn|]).
        -- left. cbn [count_occ]. destruct (Nat.eq_dec j i); [congruence|lia].
        -- right. exact Hz.
    + destruct (Nat.eq_dec j i) as [->|Hne]; [rewrite Hi in Hj; discriminate|].
      destruct (IH s ts i t Hi) as [t' [Hn [Hle|Hz]]]; exists t'; (split; [exact Hn|]).
      * left. cbn [count_occ]. destruct (Nat.eq_dec j i); [congruence|lia].
      * right. exact Hz.
Qed.

(* total correctness: whatever the other threads do and however the steps are interleaved, a thread that
   is scheduled often enough (its protocol's length + 1 times) has returned, and it has returned the
   completely computed value *)
Theorem cache_final_complete : forall ps sched s i p,
    protocols_safe ps = true -> slot_ok s ->
    nth_error ps i = Some p ->
    S (length p) <= count_occ Nat.eq_dec sched i ->
    cresult (crun sched s (cstart ps)) i = Some CFinal.
Proof.
  intros ps sched s i p Hps Hs Hp Hcount.
  assert (Hi : nth_error (cstart ps) i = Some (Running p)).
  { unfold cstart. rewrite nth_error_map, Hp. reflexivity. }
  destruct (cache_protocols_safe ps sched s i Hps Hs) as [Hnf Hres].
  destruct (crun_progress sched s (cstart ps) i (Running p) Hi) as [t' [Hn Hz]].
  assert (Hz0 : remaining t' = 0) by (destruct Hz as [Hle|Hz]; [cbn [remaining] in Hle; lia|exact Hz]).
  unfold cfailed, cresult in *. rewrite Hn in *.
  destruct t' as [r|v|]; [cbn in Hz0; discriminate| |discriminate].
  f_equal. apply Hres. reflexivity.
Qed.

(* ------------------------------------------------------------------ many keys: slots are independent *)

Lemma set_nth_same : forall A (l : list A) i x, nth_error l i = Some x -> set_nth l i x = l.
Proof.
  induction l as [|y l IH]; intros i x H; destruct i; cbn in *; try discriminate.
  - injection H as ->. reflexivity.
  - f_equal. apply IH. exact H.
Qed.

Lemma map_set_nth : forall A B (f : A -> B) (l : list A) i x,
    map f (set_nth l i x) = set_nth (map f l) i (f x).
Proof. induction l as [|y l IH]; intros i x; destruct i; cbn; try reflexivity. f_equal. apply IH. Qed.

Lemma kupd_same : forall m k s, kupd m k s k = s.
Proof. intros. unfold kupd. rewrite Nat.eqb_refl. reflexivity. Qed.

Lemma kupd_other : forall m k s k', k' <> k -> kupd m k s k' = m k'.
Proof. intros m k s k' H. unfold kupd. apply Nat.eqb_neq in H. rewrite H. reflexivity. Qed.

(* the run of the whole dictionary, seen from key k, IS the single-slot run of the threads of key k
   (under the same schedule: steps of the other threads are no-ops of inert threads) *)
Lemma kproj_set_own : forall k (ts : list kthread) i t',
    kproj k (set_nth ts i (k, t')) = set_nth (kproj k ts) i t'.
Proof. intros. unfold kproj. rewrite map_set_nth. cbn [fst snd]. rewrite Nat.eqb_refl. reflexivity. Qed.

Lemma kproj_set_other : forall k k' (ts : list kthread) i t t',
    Nat.eqb k' k = false -> nth_error ts i = Some (k', t) ->
    kproj k (set_nth ts i (k', t')) = kproj k ts.
Proof.
  intros k k' ts i t t' Hk Hi. unfold kproj. rewrite map_set_nth. cbn [fst snd]. rewrite Hk.
  apply set_nth_same. rewrite nth_error_map, Hi. cbn [option_map fst snd]. rewrite Hk. reflexivity.
Qed.

Theorem krun_project : forall sched m ts k,
    crun sched (m k) (kproj k ts)
    = (fst (krun sched m ts) k, kproj k (snd (krun sched m ts))).
Proof.
  induction sched as [|i sched IH]; intros m ts k; [reflexivity|].
  cbn [crun krun].
  assert (Hp : nth_error (kproj k ts) i
               = option_map (fun kt : kthread => if Nat.eqb (fst kt) k then snd kt else Done CFinal) (nth_error ts i))
    by (unfold kproj; apply nth_error_map).
  rewrite Hp. clear Hp.
  destruct (nth_error ts i) as [[k' t]|] eqn:Hi; cbn [option_map fst snd]; [|apply IH].
  destruct (Nat.eqb k' k) eqn:Hk.
  - apply Nat.eqb_eq in Hk. subst k'.
    destruct (cstep (m k) t) as [s' t'] eqn:Hstep.
    rewrite <- (kproj_set_own k ts i t').
    rewrite <- (kupd_same m k s') at 1.
    apply IH.
  - cbn [cstep]. destruct (cstep (m k') t) as [s' t'] eqn:Hstep.
    assert (Hne : k <> k') by (intro E; subst; rewrite Nat.eqb_refl in Hk; discriminate).
    assert (Hsame : set_nth (kproj k ts) i (Done CFinal) = kproj k ts).
    { apply set_nth_same. unfold kproj. rewrite nth_error_map, Hi. cbn [option_map fst snd]. rewrite Hk. reflexivity. }
    rewrite Hsame.
    rewrite <- (kproj_set_other k k' ts i t t' Hk Hi).
    rewrite <- (kupd_other m k' s' k Hne) at 1.
    apply IH.
Qed.

(* hence the single-slot theorem lifts to the whole cache: threads working on any keys, any schedule *)
Theorem cache_keyed_final_safe : forall kps sched m i r,
    forallb (fun kp : nat * cprog => stores_final (snd kp)) kps = true ->
    forallb (fun kp : nat * cprog => no_read (snd kp)) kps = true ->
    (forall k, slot_ok (m k)) ->
    kresult (krun sched m (kstart kps)) i = Some r -> r = CFinal.
Proof.
  intros kps sched m i r Hps Hnr Hm Hr. unfold kresult in Hr.
  destruct (nth_error (snd (krun sched m (kstart kps))) i) as [[k t]|] eqn:Hn; [|discriminate].
  destruct t as [rest|v|]; try discriminate. injection Hr as <-.
  pose proof (krun_project sched m (kstart kps) k) as Hproj.
  assert (Hok : Forall tstate_ok (kproj k (kstart kps))).
  { unfold kproj, kstart. rewrite map_map. clear - Hps Hnr. induction kps as [|kp kps IH]; cbn; constructor.
    - cbn in Hps, Hnr. apply andb_true_iff in Hps as [H1 _]. apply andb_true_iff in Hnr as [H2 _]. cbn [fst snd].
      destruct (Nat.eqb (fst kp) k); cbn; [split; assumption|reflexivity].
    - apply IH; [cbn in Hps; apply andb_true_iff in Hps; tauto|cbn in Hnr; apply andb_true_iff in Hnr; tauto]. }
  destruct (crun_ok sched (m k) (kproj k (kstart kps)) (Hm k) Hok) as [_ Hall].
  rewrite Hproj in Hall. cbn [snd] in Hall.
  assert (Hin : nth_error (kproj k (snd (krun sched m (kstart kps)))) i = Some (Done v)).
  { unfold kproj. rewrite nth_error_map, Hn. cbn [option_map fst snd]. rewrite Nat.eqb_refl. reflexivity. }
  exact (nth_error_Forall _ _ _ _ _ Hall Hin).
Qed.
