(* Proofs about the get-or-compute cache model (Global/Cache.v):
   - cache_final_safe: if every store of every protocol stores the completely computed value, then
     under EVERY schedule (any number of threads, any number of pre-emptions) every thread that
     returns, returns the computed value - what it returns running alone (cache_final_alone);
   - cache_placeholder_witness: a protocol whose first store puts anything else into the slot
     admits a constructed schedule under which another thread, looking the slot up, returns that
     other value;
   - the decidable classification of a table entry is sound in both directions. *)
From Coq Require Import List Arith Bool Lia.
Import ListNotations.
From TP Require Import Global.Threads Global.Cache.

(* ------------------------------------------------------------------ the invariant *)

Definition slot_ok (s : slot) : Prop := s = None \/ s = Some CFinal.

Definition tstate_ok (t : tstate) : Prop :=
  match t with Running r => stores_final r = true | Done v => v = CFinal end.

Lemma stores_final_cons : forall a r, stores_final (a :: r) = true ->
                                      is_other_store a = false /\ stores_final r = true.
Proof.
  intros a r H. unfold stores_final in *. cbn [forallb] in H. apply andb_true_iff in H as [Ha Hr].
  split; [apply negb_true_iff; exact Ha | exact Hr].
Qed.

Lemma cstep_ok : forall s t, slot_ok s -> tstate_ok t ->
                             slot_ok (fst (cstep s t)) /\ tstate_ok (snd (cstep s t)).
Proof.
  intros s t Hs Ht. destruct t as [r|v]; [|split; assumption].
  destruct r as [|a r]; [split; [assumption|reflexivity]|].
  cbn [tstate_ok] in Ht. apply stores_final_cons in Ht as [Ha Hr].
  destruct a as [ | v | | ]; cbn [cstep].
  - destruct s as [v|]; cbn [fst snd].
    + destruct Hs as [Hs|Hs]; [discriminate|]. injection Hs as ->. split; [right; reflexivity|reflexivity].
    + split; [left; reflexivity|exact Hr].
  - destruct v as [|tag]; cbn in Ha; [|discriminate]. split; [right; reflexivity|exact Hr].
  - split; [left; reflexivity|exact Hr].
  - split; [assumption|exact Hr].
Qed.

Lemma Forall_set_nth : forall A (P : A -> Prop) (l : list A) i x,
    Forall P l -> P x -> Forall P (set_nth l i x).
Proof.
  induction l as [|y l IH]; intros i x Hl Hx; destruct i; cbn [set_nth]; try constructor; inversion Hl; subst; auto.
Qed.

Lemma nth_error_Forall : forall A (P : A -> Prop) (l : list A) i x,
    Forall P l -> nth_error l i = Some x -> P x.
Proof.
  intros A P l i x Hl Hn. apply nth_error_In in Hn. rewrite Forall_forall in Hl. auto.
Qed.

Lemma crun_ok : forall sched s ts, slot_ok s -> Forall tstate_ok ts ->
    slot_ok (fst (crun sched s ts)) /\ Forall tstate_ok (snd (crun sched s ts)).
Proof.
  induction sched as [|i sched IH]; intros s ts Hs Hts; cbn [crun]; [split; assumption|].
  destruct (nth_error ts i) as [t|] eqn:Hn; [|apply IH; assumption].
  pose proof (cstep_ok s t Hs (nth_error_Forall _ _ _ _ _ Hts Hn)) as [Hs' Ht'].
  destruct (cstep s t) as [s' t']. cbn [fst snd] in *.
  apply IH; [assumption|]. apply Forall_set_nth; assumption.
Qed.

Lemma cstart_ok : forall ps, forallb stores_final ps = true -> Forall tstate_ok (cstart ps).
Proof.
  induction ps as [|p ps IH]; intro H; cbn; constructor.
  - cbn in H. apply andb_true_iff in H. cbn. tauto.
  - apply IH. cbn in H. apply andb_true_iff in H. tauto.
Qed.

(* ANY schedule, any number of threads (each with its own protocol on the same slot) *)
Theorem cache_final_safe : forall ps sched s i r,
    forallb stores_final ps = true -> slot_ok s ->
    cresult (crun sched s (cstart ps)) i = Some r -> r = CFinal.
Proof.
  intros ps sched s i r Hps Hs Hr. unfold cresult in Hr.
  destruct (crun_ok sched s (cstart ps) Hs (cstart_ok ps Hps)) as [_ Hall].
  destruct (nth_error (snd (crun sched s (cstart ps))) i) as [t|] eqn:Hn; [|discriminate].
  destruct t as [rest|v]; [discriminate|]. injection Hr as <-.
  exact (nth_error_Forall _ _ _ _ _ Hall Hn).
Qed.

(* the sequential reference: the same protocol running alone returns the computed value *)
Theorem cache_final_alone : forall p s, stores_final p = true -> slot_ok s ->
                                        snd (calone s p) = CFinal /\ slot_ok (fst (calone s p)).
Proof.
  induction p as [|a p IH]; intros s Hp Hs; cbn [calone]; [split; [reflexivity|assumption]|].
  apply stores_final_cons in Hp as [Ha Hp].
  destruct a as [ | v | | ].
  - destruct s as [v|]; [|apply IH; assumption].
    destruct Hs as [Hs|Hs]; [discriminate|]. injection Hs as ->. split; [reflexivity|right; reflexivity].
  - destruct v as [|tag]; cbn in Ha; [|discriminate]. apply IH; [assumption|right; reflexivity].
  - apply IH; [assumption|left; reflexivity].
  - apply IH; assumption.
Qed.

(* `calone` is what the small-step semantics computes when only that thread is scheduled *)
Lemma calone_is_crun : forall p s,
    crun (repeat 0 (S (length p))) s [Running p] = (fst (calone s p), [Done (snd (calone s p))]).
Proof.
  induction p as [|a p IH]; intro s; [reflexivity|].
  change (repeat 0 (S (length (a :: p)))) with (0 :: repeat 0 (S (length p))).
  cbn [crun nth_error]. destruct a as [ | v | | ]; cbn [cstep calone set_nth].
  - destruct s as [v|]; [|apply IH]. cbn [fst snd]. clear IH.
    induction (S (length p)) as [|n IHn]; [reflexivity|]. exact IHn.
  - apply IH.
  - apply IH.
  - apply IH.
Qed.

(* ------------------------------------------------------------------ the witness *)

Lemma crun_app : forall a b s ts,
    crun (a ++ b) s ts = crun b (fst (crun a s ts)) (snd (crun a s ts)).
Proof.
  induction a as [|i a IH]; intros b s ts; [reflexivity|].
  cbn [app crun]. destruct (nth_error ts i) as [t|]; [|apply IH].
  destruct (cstep s t) as [s' t']. apply IH.
Qed.

Lemma repeat_S_end : forall A (x : A) n, repeat x (S n) = repeat x n ++ [x].
Proof. induction n as [|n IH]; [reflexivity|]. cbn [repeat app] in *. rewrite <- IH. reflexivity. Qed.

Lemma no_store_cons : forall a r, no_store (a :: r) = true -> is_store a = false /\ no_store r = true.
Proof.
  intros a r H. unfold no_store in *. cbn [forallb] in H. apply andb_true_iff in H as [Ha Hr].
  split; [apply negb_true_iff; exact Ha | exact Hr].
Qed.

(* the writer runs through a store-free prefix starting from the empty slot: the slot stays empty *)
Lemma writer_prefix : forall pre rest t1,
    no_store pre = true ->
    crun (repeat 0 (length pre)) None [Running (pre ++ rest); t1] = (None, [Running rest; t1]).
Proof.
  induction pre as [|a pre IH]; intros rest t1 H; [reflexivity|].
  apply no_store_cons in H as [Ha Hpre].
  cbn [length repeat app crun nth_error].
  destruct a as [ | v | | ]; cbn [cstep set_nth]; try (apply IH; exact Hpre).
  cbn in Ha. discriminate.
Qed.

Lemma only_local_cons : forall a r, only_local (a :: r) = true -> a = CLocal /\ only_local r = true.
Proof.
  intros a r H. unfold only_local in *. cbn [forallb] in H. apply andb_true_iff in H as [Ha Hr].
  split; [destruct a; cbn in Ha; try discriminate; reflexivity | exact Hr].
Qed.

Lemma reader_prefix : forall loc rest t0 s,
    only_local loc = true ->
    crun (repeat 1 (length loc)) s [t0; Running (loc ++ rest)] = (s, [t0; Running rest]).
Proof.
  induction loc as [|a loc IH]; intros rest t0 s H; [reflexivity|].
  apply only_local_cons in H as [-> Hloc].
  cbn [length repeat app crun nth_error cstep set_nth]. apply IH. exact Hloc.
Qed.

Theorem cache_placeholder_witness : forall pre tag post loc rest,
    no_store pre = true -> only_local loc = true ->
    cresult (crun (placeholder_sched pre loc) None
                  (cstart [pre ++ CStore (COther tag) :: post; loc ++ CLookup :: rest])) 1
    = Some (COther tag).
Proof.
  intros pre tag post loc rest Hpre Hloc. unfold placeholder_sched, cstart. cbn [map].
  rewrite crun_app.
  rewrite (repeat_S_end _ 0 (length pre)). rewrite crun_app.
  rewrite (writer_prefix pre (CStore (COther tag) :: post) _ Hpre). cbn [fst snd].
  cbn [crun nth_error cstep set_nth fst snd].
  rewrite (repeat_S_end _ 1 (length loc)). rewrite crun_app.
  rewrite (reader_prefix loc (CLookup :: rest) _ _ Hloc). cbn [fst snd].
  reflexivity.
Qed.

(* ------------------------------------------------------------------ the decidable search is sound *)

Lemma no_store_app : forall a b, no_store (a ++ b) = no_store a && no_store b.
Proof. intros. unfold no_store. apply forallb_app. Qed.

Lemma find_placeholder_spec : forall p pre0 pre tag post,
    find_placeholder pre0 p = Some (pre, tag, post) -> no_store (rev pre0) = true ->
    rev pre0 ++ p = pre ++ CStore (COther tag) :: post /\ no_store pre = true.
Proof.
  induction p as [|a p IH]; intros pre0 pre tag post H Hpre0; [discriminate|].
  destruct a as [ | v | | ]; cbn [find_placeholder] in H.
  - apply IH in H.
    + cbn [rev] in H. rewrite <- app_assoc in H. exact H.
    + cbn [rev]. rewrite no_store_app, Hpre0. reflexivity.
  - destruct v as [|t]; [discriminate|]. injection H as <- <- <-. split; [reflexivity|exact Hpre0].
  - apply IH in H.
    + cbn [rev] in H. rewrite <- app_assoc in H. exact H.
    + cbn [rev]. rewrite no_store_app, Hpre0. reflexivity.
  - apply IH in H.
    + cbn [rev] in H. rewrite <- app_assoc in H. exact H.
    + cbn [rev]. rewrite no_store_app, Hpre0. reflexivity.
Qed.

Lemma only_local_app : forall a b, only_local (a ++ b) = only_local a && only_local b.
Proof. intros. unfold only_local. apply forallb_app. Qed.

Lemma find_lookup_spec : forall q pre0 loc rest,
    find_lookup pre0 q = Some (loc, rest) -> only_local (rev pre0) = true ->
    rev pre0 ++ q = loc ++ CLookup :: rest /\ only_local loc = true.
Proof.
  induction q as [|a q IH]; intros pre0 loc rest H Hpre0; [discriminate|].
  destruct a as [ | v | | ]; cbn [find_lookup] in H; try discriminate.
  - injection H as <- <-. split; [reflexivity|exact Hpre0].
  - apply IH in H.
    + cbn [rev] in H. rewrite <- app_assoc in H. exact H.
    + cbn [rev]. rewrite only_local_app, Hpre0. reflexivity.
Qed.

(* a writer whose first store is not the computed value, a reader that looks the slot up: under the
   constructed schedule the reader returns that other value - which it never returns alone when its
   own protocol only stores computed values *)
Theorem cache_classify2_racy : forall p q,
    cache_classify2 p q = CacheRacy ->
    exists sched tag, cresult (crun sched None (cstart [p; q])) 1 = Some (COther tag).
Proof.
  intros p q H. unfold cache_classify2 in H.
  destruct (stores_final p && stores_final q); [discriminate|].
  destruct (find_placeholder [] p) as [[[pre tag] post]|] eqn:Hp; [|discriminate].
  destruct (find_lookup [] q) as [[loc rest]|] eqn:Hq; [|discriminate].
  apply find_placeholder_spec in Hp; [|reflexivity]. destruct Hp as [Hp Hpre].
  apply find_lookup_spec in Hq; [|reflexivity]. destruct Hq as [Hq Hloc].
  cbn [rev app] in Hp, Hq. subst p q.
  exists (placeholder_sched pre loc), tag. apply cache_placeholder_witness; assumption.
Qed.

Theorem cache_classified_safe : forall ps sched s i r,
    cache_classify ps = CacheSafe -> slot_ok s ->
    cresult (crun sched s (cstart ps)) i = Some r -> r = CFinal.
Proof.
  intros ps sched s i r H Hs Hr. unfold cache_classify in H.
  destruct (forallb stores_final ps) eqn:Hall.
  - eapply cache_final_safe; eassumption.
  - destruct (existsb _ ps); discriminate.
Qed.

Theorem cache_classified_racy : forall ps,
    cache_classify ps = CacheRacy ->
    exists p q, In p ps /\ In q ps /\
                exists sched tag, cresult (crun sched None (cstart [p; q])) 1 = Some (COther tag).
Proof.
  intros ps H. unfold cache_classify in H.
  destruct (forallb stores_final ps); [discriminate|].
  destruct (existsb _ ps) eqn:Hex; [|discriminate].
  apply existsb_exists in Hex as [p [Hp Hex]].
  apply existsb_exists in Hex as [q [Hq Hpq]].
  exists p, q. split; [exact Hp|]. split; [exact Hq|].
  apply cache_classify2_racy. destruct (cache_classify2 p q); try discriminate. reflexivity.
Qed.

(* safe and racy exclude each other by construction of the classifier; a safe entry has no witness *)
Theorem cache_safe_excludes_witness : forall ps sched i tag,
    cache_classify ps = CacheSafe ->
    cresult (crun sched None (cstart ps)) i = Some (COther tag) -> False.
Proof.
  intros ps sched i tag H Hr.
  assert (COther tag = CFinal) as E by (eapply cache_classified_safe; [exact H | left; reflexivity | exact Hr]).
  discriminate.
Qed.

(* ------------------------------------------------------------------ progress: threads do return *)

Definition remaining (t : tstate) : nat := match t with Running r => S (length r) | Done _ => 0 end.

Lemma cstep_remaining : forall s t, remaining (snd (cstep s t)) < remaining t \/ remaining t = 0.
Proof.
  intros s t. destruct t as [r|v]; [|right; reflexivity]. left.
  destruct r as [|a r]; [cbn; lia|].
  destruct a as [ | v | | ]; cbn [cstep]; try (cbn; lia).
  destruct s; cbn; lia.
Qed.

Lemma nth_error_set_nth_same : forall A (l : list A) i x y,
    nth_error l i = Some y -> nth_error (set_nth l i x) i = Some x.
Proof.
  induction l as [|z l IH]; intros i x y H; destruct i; cbn in *; try discriminate; auto.
  eapply IH; eauto.
Qed.

Lemma nth_error_set_nth_other : forall A (l : list A) i j x,
    i <> j -> nth_error (set_nth l i x) j = nth_error l j.
Proof.
  induction l as [|z l IH]; intros i j x H; destruct i, j; cbn; auto; try congruence.
Qed.

(* every step of thread i shortens what it has left; steps of other threads do not touch it *)
Lemma crun_progress : forall sched s ts i t,
    nth_error ts i = Some t ->
    exists t', nth_error (snd (crun sched s ts)) i = Some t' /\
               remaining t' + count_occ Nat.eq_dec sched i <= remaining t \/
               (nth_error (snd (crun sched s ts)) i = Some t' /\ remaining t' = 0).
Proof.
  induction sched as [|j sched IH]; intros s ts i t Hi.
  - exists t. left. split; [exact Hi|cbn; lia].
  - cbn [crun]. destruct (nth_error ts j) as [tj|] eqn:Hj.
    + destruct (cstep s tj) as [s' tj'] eqn:Hstep.
      destruct (Nat.eq_dec j i) as [->|Hne].
      * rewrite Hi in Hj. injection Hj as <-.
        assert (Hi' : nth_error (set_nth ts i tj') i = Some tj') by (eapply nth_error_set_nth_same; exact Hi).
        destruct (IH s' (set_nth ts i tj') i tj' Hi') as [t' [[Hn Hle]|[Hn Hz]]].
        -- exists t'. pose proof (cstep_remaining s t) as Hrem. rewrite Hstep in Hrem. cbn [snd] in Hrem.
           cbn [count_occ]. destruct (Nat.eq_dec i i) as [_|C]; [|congruence].
           destruct Hrem as [Hlt|Hz].
           ++ left. split; [exact Hn|lia].
           ++ right. split; [exact Hn|]. destruct t as [r|v]; [cbn in Hz; discriminate|].
              cbn [cstep] in Hstep. injection Hstep as <- <-. cbn in Hle. lia.
        -- exists t'. right. split; assumption.
      * assert (Hi' : nth_error (set_nth ts j tj') i = Some t) by (rewrite nth_error_set_nth_other; assumption).
        destruct (IH s' (set_nth ts j tj') i t Hi') as [t' [[Hn Hle]|[Hn Hz]]].
        -- exists t'. left. split; [exact Hn|]. cbn [count_occ]. destruct (Nat.eq_dec j i); [congruence|lia].
        -- exists t'. right. split; assumption.
    + destruct (Nat.eq_dec j i) as [->|Hne]; [rewrite Hi in Hj; discriminate|].
      destruct (IH s ts i t Hi) as [t' [[Hn Hle]|[Hn Hz]]].
      * exists t'. left. split; [exact Hn|]. cbn [count_occ]. destruct (Nat.eq_dec j i); [congruence|lia].
      * exists t'. right. split; assumption.
Qed.

Lemma remaining_zero_done : forall t, remaining t = 0 -> exists r, t = Done r.
Proof. intros [r|v] H; [cbn in H; discriminate|eauto]. Qed.

(* total correctness: whatever the other threads do and however the steps are interleaved, a thread that
   is scheduled often enough (its protocol's length + 1 times) has returned, and it has returned the
   completely computed value *)
Theorem cache_final_complete : forall ps sched s i p,
    forallb stores_final ps = true -> slot_ok s ->
    nth_error ps i = Some p ->
    S (length p) <= count_occ Nat.eq_dec sched i ->
    cresult (crun sched s (cstart ps)) i = Some CFinal.
Proof.
  intros ps sched s i p Hps Hs Hp Hcount.
  assert (Hi : nth_error (cstart ps) i = Some (Running p)).
  { unfold cstart. rewrite nth_error_map, Hp. reflexivity. }
  destruct (crun_progress sched s (cstart ps) i (Running p) Hi) as [t' [[Hn Hle]|[Hn Hz]]].
  - cbn [remaining] in Hle. assert (Hz : remaining t' = 0) by lia.
    destruct (remaining_zero_done t' Hz) as [r ->].
    assert (Hr : cresult (crun sched s (cstart ps)) i = Some r) by (unfold cresult; rewrite Hn; reflexivity).
    rewrite Hr. f_equal. eapply cache_final_safe; eassumption.
  - destruct (remaining_zero_done t' Hz) as [r ->].
    assert (Hr : cresult (crun sched s (cstart ps)) i = Some r) by (unfold cresult; rewrite Hn; reflexivity).
    rewrite Hr. f_equal. eapply cache_final_safe; eassumption.
Qed.

(* ------------------------------------------------------------------ many keys: slots are independent *)

Lemma set_nth_same : forall A (l : list A) i x, nth_error l i = Some x -> set_nth l i x = l.
Proof.
  induction l as [|y l IH]; intros i x H; destruct i; cbn in *; try discriminate.
  - injection H as ->. reflexivity.
  - f_equal. apply IH. exact H.
Qed.

Lemma map_set_nth : forall A B (f : A -> B) (l : list A) i x,
    map f (set_nth l i x) = set_nth (map f l) i (f x).
Proof. induction l as [|y l IH]; intros i x; destruct i; cbn; try reflexivity. f_equal. apply IH. Qed.

Lemma kupd_same : forall m k s, kupd m k s k = s.
Proof. intros. unfold kupd. rewrite Nat.eqb_refl. reflexivity. Qed.

Lemma kupd_other : forall m k s k', k' <> k -> kupd m k s k' = m k'.
Proof. intros m k s k' H. unfold kupd. apply Nat.eqb_neq in H. rewrite H. reflexivity. Qed.

(* the run of the whole dictionary, seen from key k, IS the single-slot run of the threads of key k
   (under the same schedule: steps of the other threads are no-ops of inert threads) *)
Lemma kproj_set_own : forall k (ts : list kthread) i t',
    kproj k (set_nth ts i (k, t')) = set_nth (kproj k ts) i t'.
Proof. intros. unfold kproj. rewrite map_set_nth. cbn [fst snd]. rewrite Nat.eqb_refl. reflexivity. Qed.

Lemma kproj_set_other : forall k k' (ts : list kthread) i t t',
    Nat.eqb k' k = false -> nth_error ts i = Some (k', t) ->
    kproj k (set_nth ts i (k', t')) = kproj k ts.
Proof.
  intros k k' ts i t t' Hk Hi. unfold kproj. rewrite map_set_nth. cbn [fst snd]. rewrite Hk.
  apply set_nth_same. rewrite nth_error_map, Hi. cbn [option_map fst snd]. rewrite Hk. reflexivity.
Qed.

Theorem krun_project : forall sched m ts k,
    crun sched (m k) (kproj k ts)
    = (fst (krun sched m ts) k, kproj k (snd (krun sched m ts))).
Proof.
  induction sched as [|i sched IH]; intros m ts k; [reflexivity|].
  cbn [crun krun].
  assert (Hp : nth_error (kproj k ts) i
               = option_map (fun kt : kthread => if Nat.eqb (fst kt) k then snd kt else Done CFinal) (nth_error ts i))
    by (unfold kproj; apply nth_error_map).
  rewrite Hp. clear Hp.
  destruct (nth_error ts i) as [[k' t]|] eqn:Hi; cbn [option_map fst snd]; [|apply IH].
  destruct (Nat.eqb k' k) eqn:Hk.
  - apply Nat.eqb_eq in Hk. subst k'.
    destruct (cstep (m k) t) as [s' t'] eqn:Hstep.
    rewrite <- (kproj_set_own k ts i t').
    rewrite <- (kupd_same m k s') at 1.
    apply IH.
  - cbn [cstep]. destruct (cstep (m k') t) as [s' t'] eqn:Hstep.
    assert (Hne : k <> k') by (intro E; subst; rewrite Nat.eqb_refl in Hk; discriminate).
    assert (Hsame : set_nth (kproj k ts) i (Done CFinal) = kproj k ts).
    { apply set_nth_same. unfold kproj. rewrite nth_error_map, Hi. cbn [option_map fst snd]. rewrite Hk. reflexivity. }
    rewrite Hsame.
    rewrite <- (kproj_set_other k k' ts i t t' Hk Hi).
    rewrite <- (kupd_other m k' s' k Hne) at 1.
    apply IH.
Qed.

(* hence the single-slot theorem lifts to the whole cache: threads working on any keys, any schedule *)
Theorem cache_keyed_final_safe : forall kps sched m i r,
    forallb (fun kp : nat * cprog => stores_final (snd kp)) kps = true ->
    (forall k, slot_ok (m k)) ->
    kresult (krun sched m (kstart kps)) i = Some r -> r = CFinal.
Proof.
  intros kps sched m i r Hps Hm Hr. unfold kresult in Hr.
  destruct (nth_error (snd (krun sched m (kstart kps))) i) as [[k t]|] eqn:Hn; [|discriminate].
  destruct t as [rest|v]; [discriminate|]. injection Hr as <-.
  pose proof (krun_project sched m (kstart kps) k) as Hproj.
  assert (Hok : Forall tstate_ok (kproj k (kstart kps))).
  { unfold kproj, kstart. rewrite map_map. clear - Hps. induction kps as [|kp kps IH]; cbn; constructor.
    - cbn in Hps. apply andb_true_iff in Hps as [H1 _]. cbn [fst snd]. destruct (Nat.eqb (fst kp) k); cbn; [exact H1|reflexivity].
    - apply IH. cbn in Hps. apply andb_true_iff in Hps. tauto. }
  destruct (crun_ok sched (m k) (kproj k (kstart kps)) (Hm k) Hok) as [_ Hall].
  rewrite Hproj in Hall. cbn [snd] in Hall.
  assert (Hin : nth_error (kproj k (snd (krun sched m (kstart kps)))) i = Some (Done v)).
  { unfold kproj. rewrite nth_error_map, Hn. cbn [option_map fst snd]. rewrite Nat.eqb_refl. reflexivity. }
  exact (nth_error_Forall _ _ _ _ _ Hall Hin).
Qed.
