From Coq Require Import List Arith Bool Lia.
Import ListNotations.
From TP Require Import Global.Threads Global.ThreadsProofs Global.Toggle.

Lemma fifo_is_interleaving : forall c v, interleave [toggle c v; toggle c v] (fifo_trace c v).
Proof.
  intros c v. unfold toggle, fifo_trace.
  repeat (eapply il_step; [reflexivity | cbn [set_nth]]). apply il_done. repeat constructor.
Qed.

Lemma lifo_is_interleaving : forall c v, interleave [toggle c v; toggle c v] (lifo_trace c v).
Proof.
  intros c v. unfold toggle, lifo_trace.
  repeat (eapply il_step; [reflexivity | cbn [set_nth]]). apply il_done. repeat constructor.
Qed.

(* alone, from ANY memory, the thread uses the value it installed *)
Lemma toggle_alone_uses_own : forall c v m, used (obs_seq m (toggle c v)) = v.
Proof.
  intros c v m. unfold used, obs_seq, toggle. cbn [run_seq step weval app snd nth].
  unfold upd. rewrite Nat.eqb_refl. reflexivity.
Qed.

(* FIFO overlap: the second thread uses the value the cell had BEFORE either of them - not its own *)
Theorem toggle_fifo_witness : forall c v m0,
    interleave [toggle c v; toggle c v] (fifo_trace c v) /\
    used (obs_in m0 (fifo_trace c v) 1) = m0 c /\
    (m0 c <> v -> forall m, used (obs_in m0 (fifo_trace c v) 1) <> used (obs_seq m (toggle c v))).
Proof.
  intros c v m0. split; [apply fifo_is_interleaving|].
  assert (E : used (obs_in m0 (fifo_trace c v) 1) = m0 c).
  { unfold used, obs_in, fifo_trace. cbn [exec step weval hupd no_hist Nat.eqb app snd nth hd].
    unfold upd. rewrite !Nat.eqb_refl. reflexivity. }
  split; [exact E|]. intros Hne m. rewrite E, toggle_alone_uses_own. exact Hne.
Qed.

(* nested overlap is harmless: both threads use the value they installed *)
Theorem toggle_lifo_harmless : forall c v m0,
    used (obs_in m0 (lifo_trace c v) 0) = v /\ used (obs_in m0 (lifo_trace c v) 1) = v.
Proof.
  intros c v m0. unfold used, obs_in, lifo_trace.
  cbn [exec step weval hupd no_hist Nat.eqb app snd nth hd].
  unfold upd. rewrite !Nat.eqb_refl. split; reflexivity.
Qed.
