(* Proofs about the interleaving model (Global/Threads.v):
   - safe_all_schedules: if every cell is, for every thread, private or idempotently written, then
     under EVERY interleaving (any number of threads, any number of pre-emptions) every thread
     observes exactly what it observes running alone;
   - race_witness: the W c v1 ... R c / W c v2 shape admits a constructed schedule under which the
     first thread observes something it observes in no sequential order. *)
From Coq Require Import List Arith Bool Lia.
Import ListNotations.
From TP Require Import Global.Threads.

(* ------------------------------------------------------------------ basics *)

Lemma val_eqb_eq : forall a b, val_eqb a b = true <-> a = b.
Proof.
  unfold val_eqb. induction a as [|x a IH]; destruct b as [|y b]; split; intro H; try reflexivity; try discriminate.
  - apply andb_true_iff in H. destruct H as [H1 H2]. apply Nat.eqb_eq in H1. apply IH in H2. subst. reflexivity.
  - inversion H; subst. apply andb_true_iff. split; [apply Nat.eqb_refl | apply IH; reflexivity].
Qed.

Lemma nth_error_set_nth_eq : forall A (l : list A) i x y,
    nth_error l i = Some y -> nth_error (set_nth l i x) i = Some x.
Proof.
  induction l as [|z l IH]; intros i x y H; destruct i; cbn in *; try discriminate; auto.
  eapply IH; eauto.
Qed.

Lemma nth_error_set_nth_neq : forall A (l : list A) i j x,
    i <> j -> nth_error (set_nth l i x) j = nth_error l j.
Proof.
  induction l as [|z l IH]; intros i j x H; destruct i, j; cbn; auto; try congruence.
Qed.

Lemma nth_set_nth_neq : forall A (l : list A) i j x d,
    i <> j -> nth j (set_nth l i x) d = nth j l d.
Proof.
  induction l as [|z l IH]; intros i j x d H; destruct i, j; cbn; auto; try congruence.
Qed.

Lemma nth_set_nth_eq : forall A (l : list A) i x y d,
    nth_error l i = Some y -> nth i (set_nth l i x) d = x.
Proof.
  intros. eapply nth_error_nth. eapply nth_error_set_nth_eq; eauto.
Qed.

Lemma set_nth_length : forall A (l : list A) i x, length (set_nth l i x) = length l.
Proof. induction l; intros; destruct i; cbn; auto. Qed.

Lemma run_seq_app : forall t1 t2 m h,
    run_seq m h (t1 ++ t2) = let '(m', h') := run_seq m h t1 in run_seq m' h' t2.
Proof.
  induction t1 as [|a t1 IH]; intros; cbn [app run_seq]; [reflexivity|].
  destruct (step m h a) as [m' h']. apply IH.
Qed.

Lemma exec_app : forall tr1 tr2 m hs,
    exec m hs (tr1 ++ tr2) = let '(m', hs') := exec m hs tr1 in exec m' hs' tr2.
Proof.
  induction tr1 as [|[i a] tr1 IH]; intros; cbn [app exec]; [reflexivity|].
  destruct (step m (hs i) a) as [m' h']. apply IH.
Qed.

(* ------------------------------------------------------------------ the safety invariant *)

Definition no_other_writes (ts : list thread) (i : nat) (c : cell) : Prop :=
  forall j t e, j <> i -> nth_error ts j = Some t -> ~ In (W c e) t.
Definition all_const (ts : list thread) (c : cell) (k : val) : Prop :=
  forall j t e, nth_error ts j = Some t -> In (W c e) t -> e = WConst k.
Definition no_access (t : thread) (c : cell) : Prop := forall a, In a t -> acc_cell a <> c.

Definition cell_inv (ts : list thread) (i : nat) (m mi : mem) (c : cell) : Prop :=
  (m c = mi c /\ no_other_writes ts i c)
  \/ no_access (nth i ts []) c
  \/ (exists k, all_const ts c k /\
                (first_is_write_b c (nth i ts []) = true \/ (m c = k /\ mi c = k))).

Lemma no_other_writes_shrink : forall ts i c j a rest,
    nth_error ts j = Some (a :: rest) ->
    no_other_writes ts i c -> no_other_writes (set_nth ts j rest) i c.
Proof.
  intros ts i c j a rest Hj H j' t e Hne Hn Hin.
  destruct (Nat.eq_dec j j') as [->|Hjj].
  - rewrite (nth_error_set_nth_eq _ _ _ _ _ Hj) in Hn. inversion Hn; subst t.
    eapply (H j' (a :: rest) e); eauto. right; exact Hin.
  - rewrite nth_error_set_nth_neq in Hn by exact Hjj. eapply H; eauto.
Qed.

Lemma all_const_shrink : forall ts c k j a rest,
    nth_error ts j = Some (a :: rest) ->
    all_const ts c k -> all_const (set_nth ts j rest) c k.
Proof.
  intros ts c k j a rest Hj H j' t e Hn Hin.
  destruct (Nat.eq_dec j j') as [->|Hjj].
  - rewrite (nth_error_set_nth_eq _ _ _ _ _ Hj) in Hn. inversion Hn; subst t.
    eapply (H j' (a :: rest) e); eauto. right; exact Hin.
  - rewrite nth_error_set_nth_neq in Hn by exact Hjj. eapply H; eauto.
Qed.

Lemma upd_same : forall m c v, upd m c v c = v.
Proof. intros. unfold upd. rewrite Nat.eqb_refl. reflexivity. Qed.
Lemma upd_other : forall m c v c', c' <> c -> upd m c v c' = m c'.
Proof. intros. unfold upd. destruct (Nat.eqb c' c) eqn:E; [apply Nat.eqb_eq in E; congruence | reflexivity]. Qed.

Lemma hupd_same : forall hs i h, hupd hs i h i = h.
Proof. intros. unfold hupd. rewrite Nat.eqb_refl. reflexivity. Qed.
Lemma hupd_other : forall hs i h j, j <> i -> hupd hs i h j = hs j.
Proof. intros. unfold hupd. destruct (Nat.eqb j i) eqn:E; [apply Nat.eqb_eq in E; congruence | reflexivity]. Qed.

(* the simulation: thread i inside any interleaving vs thread i alone *)
Lemma simulation : forall ts tr,
    interleave ts tr ->
    forall i m mi hs,
      (forall c, cell_inv ts i m mi c) ->
      snd (exec m hs tr) i = snd (run_seq mi (hs i) (nth i ts [])).
Proof.
  induction 1 as [ts Hall | ts j a rest tr Hj Hil IH]; intros i m mi hs Hinv.
  - cbn [exec snd].
    assert (Hn : nth i ts [] = []).
    { destruct (nth_error ts i) as [t|] eqn:E.
      - rewrite (nth_error_nth _ _ _ E). rewrite Forall_forall in Hall. apply Hall.
        eapply nth_error_In; eauto.
      - apply nth_overflow. apply nth_error_None. exact E. }
    unfold thread in *. rewrite Hn. reflexivity.
  - cbn [exec]. unfold thread in *.
    destruct (Nat.eq_dec j i) as [->|Hji].
    + (* the step is by thread i itself *)
      rewrite (nth_error_nth _ _ [] Hj). cbn [run_seq].
      destruct a as [c e | c].
      * (* W c e *)
        cbn [step].
        rewrite (IH i (upd m c (weval e (hs i))) (upd mi c (weval e (hs i))) (hupd hs i (hs i))).
        { rewrite hupd_same. rewrite (nth_set_nth_eq _ _ _ _ _ _ Hj). reflexivity. }
        intro c'. specialize (Hinv c'). unfold cell_inv in Hinv |- *. unfold thread in *. rewrite (nth_error_nth _ _ [] Hj) in Hinv.
        rewrite (nth_set_nth_eq _ _ _ _ _ _ Hj).
        destruct (Nat.eq_dec c' c) as [->|Hc].
        -- destruct Hinv as [[Hm Hno] | [Hna | [k [Hac Hk]]]].
           ++ left. split; [rewrite !upd_same; reflexivity|].
              eapply no_other_writes_shrink; eauto.
           ++ exfalso. apply (Hna (W c e)); [left; reflexivity | reflexivity].
           ++ right; right. exists k. split; [eapply all_const_shrink; eauto|].
              right. assert (He : e = WConst k) by (eapply Hac; [exact Hj | left; reflexivity]).
              subst e. cbn [weval]. rewrite !upd_same. split; reflexivity.
        -- destruct Hinv as [[Hm Hno] | [Hna | [k [Hac Hk]]]].
           ++ left. split; [rewrite !upd_other by exact Hc; exact Hm|].
              eapply no_other_writes_shrink; eauto.
           ++ right; left. intros a Ha. apply Hna. right; exact Ha.
           ++ right; right. exists k. split; [eapply all_const_shrink; eauto|].
              destruct Hk as [Hf | Hmk].
              ** left. cbn [first_is_write_b] in Hf.
                 destruct (Nat.eqb c c') eqn:E; [apply Nat.eqb_eq in E; congruence | exact Hf].
              ** right. rewrite !upd_other by exact Hc. exact Hmk.
      * (* R c *)
        cbn [step].
        assert (Hmc : m c = mi c).
        { specialize (Hinv c). unfold cell_inv in Hinv. unfold thread in *. rewrite (nth_error_nth _ _ [] Hj) in Hinv.
          destruct Hinv as [[Hm _] | [Hna | [k [_ Hk]]]].
          - exact Hm.
          - exfalso. apply (Hna (R c)); [left; reflexivity | reflexivity].
          - destruct Hk as [Hf | [H1 H2]].
            + cbn [first_is_write_b] in Hf. rewrite Nat.eqb_refl in Hf. discriminate.
            + congruence. }
        rewrite (IH i m mi (hupd hs i (hs i ++ [m c]))).
        { rewrite hupd_same. rewrite (nth_set_nth_eq _ _ _ _ _ _ Hj). rewrite Hmc. reflexivity. }
        intro c'. specialize (Hinv c'). unfold cell_inv in Hinv |- *. unfold thread in *. rewrite (nth_error_nth _ _ [] Hj) in Hinv.
        rewrite (nth_set_nth_eq _ _ _ _ _ _ Hj).
        destruct Hinv as [[Hm Hno] | [Hna | [k [Hac Hk]]]].
        -- left. split; [exact Hm | eapply no_other_writes_shrink; eauto].
        -- right; left. intros a Ha. apply Hna. right; exact Ha.
        -- right; right. exists k. split; [eapply all_const_shrink; eauto|].
           destruct Hk as [Hf | Hmk]; [|right; exact Hmk].
           left. cbn [first_is_write_b] in Hf.
           destruct (Nat.eqb c c') eqn:E; [discriminate | exact Hf].
    + (* the step is by another thread j *)
      destruct (step m (hs j) a) as [m' h'] eqn:Hs.
      rewrite (IH i m' mi (hupd hs j h')).
      { rewrite hupd_other by congruence. rewrite nth_set_nth_neq by exact Hji. reflexivity. }
      intro c'. specialize (Hinv c'). unfold cell_inv in Hinv |- *. unfold thread in *. rewrite nth_set_nth_neq by exact Hji.
      destruct a as [c e | c]; cbn [step] in Hs; inversion Hs; subst m' h'; clear Hs.
      * destruct (Nat.eq_dec c' c) as [->|Hc].
        -- destruct Hinv as [[Hm Hno] | [Hna | [k [Hac Hk]]]].
           ++ exfalso. eapply (Hno j (W c e :: rest) e); eauto. left; reflexivity.
           ++ right; left. exact Hna.
           ++ right; right. exists k. split; [eapply all_const_shrink; eauto|].
              destruct Hk as [Hf | [H1 H2]]; [left; exact Hf|].
              right. assert (He : e = WConst k) by (eapply Hac; [exact Hj | left; reflexivity]).
              subst e. cbn [weval]. rewrite upd_same. split; [reflexivity | exact H2].
        -- destruct Hinv as [[Hm Hno] | [Hna | [k [Hac Hk]]]].
           ++ left. split; [rewrite upd_other by exact Hc; exact Hm|].
              eapply no_other_writes_shrink; eauto.
           ++ right; left. exact Hna.
           ++ right; right. exists k. split; [eapply all_const_shrink; eauto|].
              destruct Hk as [Hf | Hmk]; [left; exact Hf|].
              right. rewrite upd_other by exact Hc. exact Hmk.
      * destruct Hinv as [[Hm Hno] | [Hna | [k [Hac Hk]]]].
        -- left. split; [exact Hm | eapply no_other_writes_shrink; eauto].
        -- right; left. exact Hna.
        -- right; right. exists k. split; [eapply all_const_shrink; eauto | exact Hk].
Qed.

(* ------------------------------------------------------------------ from the boolean conditions *)

Lemma writes_b_false : forall c t, writes_b c t = false -> forall e, ~ In (W c e) t.
Proof.
  unfold writes_b. intros c t H e Hin.
  assert (existsb (is_write_to c) t = true).
  { apply existsb_exists. exists (W c e). split; [exact Hin | cbn; apply Nat.eqb_refl]. }
  congruence.
Qed.

Lemma accesses_b_false : forall c t, accesses_b c t = false -> no_access t c.
Proof.
  unfold accesses_b, no_access. intros c t H a Hin Heq.
  assert (existsb (fun a => Nat.eqb (acc_cell a) c) t = true).
  { apply existsb_exists. exists a. split; [exact Hin | apply Nat.eqb_eq; exact Heq]. }
  congruence.
Qed.

Lemma others_write_from_false : forall ts k c i,
    others_write_from k c ts i = false ->
    forall j t, nth_error ts j = Some t -> k + j <> i -> writes_b c t = false.
Proof.
  induction ts as [|t0 ts IH]; intros k c i H j t Hn Hne; [destruct j; discriminate|].
  cbn [others_write_from] in H. apply orb_false_iff in H. destruct H as [H1 H2].
  destruct j as [|j].
  - cbn in Hn. inversion Hn; subst t0. apply andb_false_iff in H1. destruct H1 as [H1|H1]; [|exact H1].
    apply negb_false_iff in H1. apply Nat.eqb_eq in H1. lia.
  - cbn in Hn. eapply (IH (S k)); eauto. lia.
Qed.

Lemma const_writes_b_spec : forall c k t, const_writes_b c k t = true ->
    forall e, In (W c e) t -> e = WConst k.
Proof.
  induction t as [|a t IH]; intros H e Hin; [destruct Hin|].
  destruct a as [c' e' | c']; cbn [const_writes_b] in H.
  - apply andb_true_iff in H. destruct H as [H1 H2].
    destruct Hin as [Heq | Hin]; [|apply IH; assumption].
    inversion Heq; subst c' e'. rewrite Nat.eqb_refl in H1.
    destruct e as [v|f]; [|discriminate]. apply val_eqb_eq in H1. subst. reflexivity.
  - destruct Hin as [Heq | Hin]; [discriminate | apply IH; assumption].
Qed.

Lemma in_cells_of : forall ts i a, In a (nth i ts []) -> In (acc_cell a) (cells_of ts).
Proof.
  intros ts i a Hin. unfold cells_of. apply in_map. apply in_concat.
  exists (nth i ts []). split; [|exact Hin].
  destruct (nth_error ts i) as [t|] eqn:E.
  - rewrite (nth_error_nth _ _ _ E). eapply nth_error_In; eauto.
  - rewrite nth_overflow in Hin by (apply nth_error_None; exact E). destruct Hin.
Qed.

Lemma initial_inv : forall ts i m c,
    i < length ts ->
    (In c (cells_of ts) -> private_cell_b ts i c || idem_cell_b ts i c = true) ->
    cell_inv ts i m m c.
Proof.
  intros ts i m c Hi H.
  destruct (in_dec Nat.eq_dec c (cells_of ts)) as [Hin | Hnin].
  - specialize (H Hin). apply orb_true_iff in H. destruct H as [H | H].
    + unfold private_cell_b in H. apply orb_true_iff in H. destruct H as [H | H].
      * left. split; [reflexivity|]. apply negb_true_iff in H.
        intros j t e Hne Hn. apply writes_b_false.
        eapply (others_write_from_false ts 0 c i H j t Hn). cbn. exact Hne.
      * right; left. apply negb_true_iff in H. apply accesses_b_false. exact H.
    + unfold idem_cell_b in H. destruct (first_const_write_all c ts) as [k|]; [|discriminate].
      apply andb_true_iff in H. destruct H as [H1 H2].
      right; right. exists k. split; [|left; exact H2].
      intros j t e Hn Hin'. rewrite forallb_forall in H1.
      eapply const_writes_b_spec; [apply H1; eapply nth_error_In; eauto | exact Hin'].
  - right; left. intros a Ha Heq. apply Hnin. rewrite <- Heq. eapply in_cells_of; eauto.
Qed.

(* ------------------------------------------------------------------ the safety theorems *)

Theorem safe_all_schedules : forall ts m0 tr i,
    safe_b ts = true -> interleave ts tr -> i < length ts ->
    obs_in m0 tr i = obs_seq m0 (nth i ts []).
Proof.
  intros ts m0 tr i Hs Hil Hi. unfold obs_in, obs_seq.
  rewrite (simulation ts tr Hil i m0 m0 no_hist); [reflexivity|].
  intro c. apply initial_inv; [exact Hi|]. intro Hin.
  unfold safe_b in Hs. rewrite forallb_forall in Hs.
  specialize (Hs i). rewrite forallb_forall in Hs. apply Hs; [|exact Hin].
  apply in_seq. lia.
Qed.

Lemma private_safe_b : forall ts, private_b ts = true -> safe_b ts = true.
Proof.
  unfold private_b, safe_b. intros ts H. rewrite forallb_forall in *. intros i Hi.
  specialize (H i Hi). rewrite forallb_forall in *. intros c Hc. rewrite (H c Hc). reflexivity.
Qed.

Lemma idempotent_safe_b : forall ts, idempotent_b ts = true -> safe_b ts = true.
Proof.
  unfold idempotent_b, safe_b. intros ts H. rewrite forallb_forall in *. intros i Hi.
  specialize (H i Hi). rewrite forallb_forall in *. intros c Hc. rewrite (H c Hc). apply orb_true_r.
Qed.

Theorem private_all_schedules : forall ts m0 tr i,
    private_b ts = true -> interleave ts tr -> i < length ts ->
    obs_in m0 tr i = obs_seq m0 (nth i ts []).
Proof. intros. apply safe_all_schedules; auto. apply private_safe_b; assumption. Qed.

Theorem idempotent_all_schedules : forall ts m0 tr i,
    idempotent_b ts = true -> interleave ts tr -> i < length ts ->
    obs_in m0 tr i = obs_seq m0 (nth i ts []).
Proof. intros. apply safe_all_schedules; auto. apply idempotent_safe_b; assumption. Qed.

(* what private_b says, as a proposition: no cell written by one thread is accessed by another *)
Lemma private_b_spec : forall ts,
    private_b ts = true ->
    forall i j c, i < length ts -> j <> i ->
                  writes_b c (nth j ts []) = true -> accesses_b c (nth i ts []) = false.
Proof.
  intros ts H i j c Hi Hne Hw.
  destruct (accesses_b c (nth i ts [])) eqn:Ha; [|reflexivity]. exfalso.
  unfold private_b in H. rewrite forallb_forall in H.
  assert (Hi' : In i (seq 0 (length ts))) by (apply in_seq; lia).
  specialize (H i Hi'). rewrite forallb_forall in H.
  assert (Hc : In c (cells_of ts)).
  { unfold accesses_b in Ha. apply existsb_exists in Ha. destruct Ha as [a [Hin Heq]].
    apply Nat.eqb_eq in Heq. rewrite <- Heq. eapply in_cells_of; eauto. }
  specialize (H c Hc). unfold private_cell_b in H. rewrite Ha in H. cbn in H.
  rewrite orb_false_r in H. apply negb_true_iff in H.
  destruct (nth_error ts j) as [t|] eqn:E.
  - unfold thread in *. rewrite (nth_error_nth _ _ [] E) in Hw.
    pose proof (others_write_from_false ts 0 c i H j t E) as Hf. cbn in Hf.
    rewrite (Hf Hne) in Hw. discriminate.
  - unfold thread in *. rewrite nth_overflow in Hw by (apply nth_error_None; exact E). discriminate.
Qed.

(* ------------------------------------------------------------------ interleavings exist *)

Lemma interleave_nil_threads : forall n, interleave (repeat [] n) [].
Proof. intros. apply il_done. apply Forall_forall. intros t Ht. apply repeat_spec in Ht. exact Ht. Qed.

(* running thread i's first actions *)
Lemma interleave_prefix : forall p ts i rest tr,
    nth_error ts i = Some (p ++ rest) ->
    interleave (set_nth ts i rest) tr ->
    interleave ts (tag i p ++ tr).
Proof.
  induction p as [|a p IH]; intros ts i rest tr Hn Hil.
  - cbn. assert (Heq : set_nth ts i rest = ts).
    { clear Hil. revert i Hn. induction ts as [|t ts IHts]; intros i Hn; destruct i; cbn in *; try discriminate.
      - inversion Hn; subst. reflexivity.
      - f_equal. apply IHts. exact Hn. }
    rewrite Heq in Hil. exact Hil.
  - cbn [tag map app]. eapply il_step; [exact Hn|].
    apply (IH (set_nth ts i (p ++ rest)) i rest tr).
    + eapply nth_error_set_nth_eq; eauto.
    + assert (Heq : set_nth (set_nth ts i (p ++ rest)) i rest = set_nth ts i rest).
      { clear. revert i. induction ts as [|t ts IHts]; intros i; destruct i; cbn; auto. f_equal. apply IHts. }
      rewrite Heq. exact Hil.
Qed.

Lemma interleave_whole : forall p ts i tr,
    nth_error ts i = Some p ->
    interleave (set_nth ts i []) tr ->
    interleave ts (tag i p ++ tr).
Proof.
  intros p ts i tr Hn Hil. apply (interleave_prefix p ts i [] tr); [rewrite app_nil_r; exact Hn | exact Hil].
Qed.

(* ------------------------------------------------------------------ the race witness *)

Lemma tag_app : forall i a b, tag i (a ++ b) = tag i a ++ tag i b.
Proof. intros. unfold tag. apply map_app. Qed.

Lemma witness_is_interleaving : forall s o,
    interleave [thread1_of s; thread2_of (s_c s) o] (witness_trace s o).
Proof.
  intros s o. unfold witness_trace, thread1_of, thread2_of.
  set (p1 := s_pre s ++ W (s_c s) (WConst (s_v s)) :: s_mid s).
  set (r1 := R (s_c s) :: s_post s).
  set (p2 := o_pre o ++ [W (s_c s) (WConst (o_v o))]).
  assert (E1 : s_pre s ++ W (s_c s) (WConst (s_v s)) :: s_mid s ++ r1 = p1 ++ r1).
  { unfold p1. rewrite <- app_assoc. reflexivity. }
  assert (E2 : o_pre o ++ W (s_c s) (WConst (o_v o)) :: o_post o = p2 ++ o_post o).
  { unfold p2. rewrite <- app_assoc. reflexivity. }
  fold r1. rewrite E1, E2.
  apply (interleave_prefix p1 _ 0 r1); [reflexivity|]. cbn [set_nth].
  apply (interleave_prefix p2 _ 1 (o_post o)); [reflexivity|]. cbn [set_nth].
  replace (tag 0 r1 ++ tag 1 (o_post o)) with (tag 0 r1 ++ tag 1 (o_post o) ++ [])
    by (rewrite app_nil_r; reflexivity).
  apply (interleave_whole r1 _ 0); [reflexivity|]. cbn [set_nth].
  apply (interleave_whole (o_post o) _ 1); [reflexivity|]. cbn [set_nth].
  apply (interleave_nil_threads 2).
Qed.

(* executing a stretch of one thread inside a global trace = running it alone on that memory
   (stated pointwise: no functional extensionality) *)
Definition hists_eq (a b : hists) : Prop := forall i, a i = b i.

Lemma exec_ext : forall tr m hs hs', hists_eq hs hs' ->
    fst (exec m hs tr) = fst (exec m hs' tr) /\ hists_eq (snd (exec m hs tr)) (snd (exec m hs' tr)).
Proof.
  induction tr as [|[i a] tr IH]; intros m hs hs' H; cbn [exec].
  - split; [reflexivity | exact H].
  - rewrite <- (H i). destruct (step m (hs i) a) as [m' h']. apply IH.
    intro j. unfold hupd. destruct (Nat.eqb j i); [reflexivity | apply H].
Qed.

Lemma exec_tag : forall t i m hs,
    fst (exec m hs (tag i t)) = fst (run_seq m (hs i) t) /\
    hists_eq (snd (exec m hs (tag i t))) (hupd hs i (snd (run_seq m (hs i) t))).
Proof.
  induction t as [|a t IH]; intros i m hs; cbn [tag map exec run_seq].
  - split; [reflexivity|]. intro j. unfold hupd. destruct (Nat.eqb j i) eqn:E; [apply Nat.eqb_eq in E; subst; reflexivity | reflexivity].
  - destruct (step m (hs i) a) as [m' h'] eqn:Hs.
    specialize (IH i m' (hupd hs i h')). fold (tag i t). rewrite hupd_same in IH.
    destruct IH as [IH1 IH2]. split; [exact IH1|].
    intro j. rewrite (IH2 j). unfold hupd. destruct (Nat.eqb j i); reflexivity.
Qed.

Lemma run_seq_obs_length : forall t m h,
    length (snd (run_seq m h t)) = length h + count_reads t.
Proof.
  induction t as [|a t IH]; intros m h; cbn [run_seq].
  - cbn. lia.
  - destruct a as [c e | c]; cbn [step].
    + rewrite IH. unfold count_reads. cbn [filter]. lia.
    + rewrite IH. rewrite app_length. unfold count_reads. cbn [filter length]. lia.
Qed.

Lemma run_seq_obs_prefix : forall t m h, exists l, snd (run_seq m h t) = h ++ l.
Proof.
  induction t as [|a t IH]; intros m h; cbn [run_seq].
  - exists []. rewrite app_nil_r. reflexivity.
  - destruct a as [c e | c]; cbn [step].
    + apply IH.
    + destruct (IH m (h ++ [m c])) as [l Hl]. exists ([m c] ++ l). rewrite Hl. rewrite <- app_assoc. reflexivity.
Qed.

(* a stretch without writes to c leaves c alone *)
Lemma run_seq_no_write : forall t c m h,
    no_write_to c t = true -> fst (run_seq m h t) c = m c.
Proof.
  induction t as [|a t IH]; intros c m h H; cbn [run_seq]; [reflexivity|].
  unfold no_write_to, writes_b in H. cbn [existsb] in H. apply negb_true_iff in H.
  apply orb_false_iff in H. destruct H as [H1 H2].
  destruct a as [c' e | c']; cbn [step].
  - rewrite IH by (unfold no_write_to, writes_b; rewrite H2; reflexivity).
    cbn [is_write_to] in H1. apply upd_other. intro Heq. subst. rewrite Nat.eqb_refl in H1. discriminate.
  - apply IH. unfold no_write_to, writes_b. rewrite H2. reflexivity.
Qed.

(* the value thread 1 reads back at its designated read, running alone from ANY memory, is v1 *)
Lemma seq_readback : forall s m,
    no_write_to (s_c s) (s_mid s) = true ->
    nth_error (obs_seq m (thread1_of s)) (count_reads (s_pre s ++ s_mid s)) = Some (s_v s).
Proof.
  intros s m Hnw. unfold obs_seq, thread1_of.
  rewrite run_seq_app. destruct (run_seq m [] (s_pre s)) as [m1 h1] eqn:E1.
  cbn [run_seq step].
  rewrite run_seq_app. destruct (run_seq (upd m1 (s_c s) (weval (WConst (s_v s)) h1)) h1 (s_mid s)) as [m2 h2] eqn:E2.
  cbn [run_seq step].
  assert (Hm2 : m2 (s_c s) = s_v s).
  { pose proof (run_seq_no_write (s_mid s) (s_c s) (upd m1 (s_c s) (s_v s)) h1 Hnw) as H.
    cbn [weval] in E2. rewrite E2 in H. cbn in H. rewrite H. apply upd_same. }
  assert (Hlen : length h2 = count_reads (s_pre s ++ s_mid s)).
  { pose proof (run_seq_obs_length (s_mid s) (upd m1 (s_c s) (s_v s)) h1) as H. cbn [weval] in E2. rewrite E2 in H. cbn in H.
    pose proof (run_seq_obs_length (s_pre s) m []) as H'. rewrite E1 in H'. cbn in H'.
    unfold count_reads in *. rewrite filter_app, app_length. lia. }
  destruct (run_seq_obs_prefix (s_post s) m2 (h2 ++ [m2 (s_c s)])) as [l Hl].
  rewrite Hl. rewrite <- app_assoc. rewrite nth_error_app2 by lia.
  rewrite Hlen, Nat.sub_diag. cbn. rewrite Hm2. reflexivity.
Qed.

(* under the constructed schedule it is v2 *)
Lemma witness_readback : forall s o m,
    nth_error (obs_in m (witness_trace s o) 0) (count_reads (s_pre s ++ s_mid s)) = Some (o_v o).
Proof.
  intros s o m. unfold obs_in, witness_trace.
  set (p1 := s_pre s ++ W (s_c s) (WConst (s_v s)) :: s_mid s).
  set (p2 := o_pre o ++ [W (s_c s) (WConst (o_v o))]).
  rewrite exec_app.
  destruct (exec m no_hist (tag 0 p1)) as [m1 hs1] eqn:E1.
  pose proof (exec_tag p1 0 m no_hist) as [_ H1]. rewrite E1 in H1. cbn [snd] in H1.
  rewrite exec_app.
  destruct (exec m1 hs1 (tag 1 p2)) as [m2 hs2] eqn:E2.
  pose proof (exec_tag p2 1 m1 hs1) as [H2m H2]. rewrite E2 in H2, H2m. cbn [snd fst] in H2, H2m.
  (* memory after thread 1's conflicting write *)
  assert (Hm2 : m2 (s_c s) = o_v o).
  { rewrite H2m. unfold p2. rewrite run_seq_app.
    destruct (run_seq m1 (hs1 1) (o_pre o)) as [m' h']. cbn [run_seq step fst weval]. apply upd_same. }
  (* thread 0's history is what it read during p1 *)
  assert (Hh0 : hs2 0 = snd (run_seq m [] p1)).
  { rewrite (H2 0). rewrite hupd_other by lia. rewrite (H1 0). rewrite hupd_same. reflexivity. }
  assert (Hlen : length (hs2 0) = count_reads (s_pre s ++ s_mid s)).
  { rewrite Hh0. rewrite run_seq_obs_length. cbn [length].
    unfold p1, count_reads. rewrite !filter_app. cbn [filter]. rewrite !app_length. lia. }
  rewrite exec_app. cbn [tag map]. cbn [exec app step].
  fold (tag 0 (s_post s)).
  destruct (exec m2 (hupd hs2 0 (hs2 0 ++ [m2 (s_c s)])) (tag 0 (s_post s))) as [m3 hs3] eqn:E3.
  pose proof (exec_tag (s_post s) 0 m2 (hupd hs2 0 (hs2 0 ++ [m2 (s_c s)]))) as [_ H3].
  rewrite E3 in H3. cbn [snd] in H3. rewrite hupd_same in H3.
  destruct (exec m3 hs3 (tag 1 (o_post o))) as [m4 hs4] eqn:E4.
  pose proof (exec_tag (o_post o) 1 m3 hs3) as [_ H4]. rewrite E4 in H4. cbn [snd] in H4.
  cbn [snd]. rewrite (H4 0). rewrite hupd_other by lia. rewrite (H3 0). rewrite hupd_same.
  destruct (run_seq_obs_prefix (s_post s) m2 (hs2 0 ++ [m2 (s_c s)])) as [l Hl].
  rewrite Hl. rewrite <- app_assoc. rewrite nth_error_app2 by lia.
  rewrite Hlen, Nat.sub_diag. cbn. rewrite Hm2. reflexivity.
Qed.

(* The race theorem: for threads of the shape
     t1 = pre1 ++ W c v1 :: mid ++ R c :: post1   (no write to c in mid)
     t2 = pre2 ++ W c v2 :: post2                 (v2 <> v1)
   the constructed schedule is an interleaving of [t1; t2] under which thread 0 observes something
   it observes in NO execution where it runs without interference, whatever the memory it starts
   from - in particular in neither sequential order. *)
Theorem race_witness : forall s o,
    no_write_to (s_c s) (s_mid s) = true ->
    o_v o <> s_v s ->
    interleave [thread1_of s; thread2_of (s_c s) o] (witness_trace s o) /\
    forall m0 m, obs_in m0 (witness_trace s o) 0 <> obs_seq m (thread1_of s).
Proof.
  intros s o Hnw Hne. split; [apply witness_is_interleaving|].
  intros m0 m Heq.
  pose proof (witness_readback s o m0) as H1.
  pose proof (seq_readback s m Hnw) as H2.
  rewrite Heq in H1. rewrite H1 in H2. inversion H2. congruence.
Qed.

(* the decidable search finds exactly such a shape *)
Lemma find_read_spec : forall c t mid0 mid post,
    find_read c mid0 t = Some (mid, post) ->
    exists mid', mid = rev mid0 ++ mid' /\ t = mid' ++ R c :: post /\ no_write_to c mid' = true.
Proof.
  induction t as [|a t IH]; intros mid0 mid post H; cbn [find_read] in H; [discriminate|].
  destruct a as [c' e | c'].
  - destruct (Nat.eqb c' c) eqn:E; [discriminate|].
    apply IH in H. destruct H as [mid' [H1 [H2 H3]]]. exists (W c' e :: mid'). cbn [rev] in H1.
    rewrite <- app_assoc in H1. split; [exact H1|]. split; [subst t; reflexivity|].
    unfold no_write_to, writes_b in *. cbn [existsb is_write_to]. rewrite E. exact H3.
  - destruct (Nat.eqb c' c) eqn:E.
    + apply Nat.eqb_eq in E. subst c'. inversion H; subst. exists []. rewrite app_nil_r. auto.
    + apply IH in H. destruct H as [mid' [H1 [H2 H3]]]. exists (R c' :: mid'). cbn [rev] in H1.
      rewrite <- app_assoc in H1. split; [exact H1|]. split; [subst t; reflexivity|].
      unfold no_write_to, writes_b in *. cbn [existsb is_write_to]. exact H3.
Qed.

Lemma find_other_write_spec : forall c v t pre0 o,
    find_other_write c v pre0 t = Some o ->
    rev pre0 ++ t = thread2_of c o /\ o_v o <> v.
Proof.
  induction t as [|a t IH]; intros pre0 o H; cbn [find_other_write] in H; [discriminate|].
  destruct a as [c' [v'|f] | c'].
  - destruct (Nat.eqb c' c && negb (val_eqb v' v)) eqn:E.
    + inversion H; subst o. apply andb_true_iff in E. destruct E as [E1 E2].
      apply Nat.eqb_eq in E1. subst c'. unfold thread2_of. cbn. split; [reflexivity|].
      apply negb_true_iff in E2. intro Hv. subst v'.
      assert (val_eqb v v = true) by (apply val_eqb_eq; reflexivity). congruence.
    + apply IH in H. cbn [rev] in H. rewrite <- app_assoc in H. exact H.
  - apply IH in H. cbn [rev] in H. rewrite <- app_assoc in H. exact H.
  - apply IH in H. cbn [rev] in H. rewrite <- app_assoc in H. exact H.
Qed.

Lemma find_race_spec : forall t1 t2 pre0 s o,
    find_race pre0 t1 t2 = Some (s, o) ->
    rev pre0 ++ t1 = thread1_of s /\ t2 = thread2_of (s_c s) o /\
    no_write_to (s_c s) (s_mid s) = true /\ o_v o <> s_v s.
Proof.
  induction t1 as [|a t1 IH]; intros t2 pre0 s o H; cbn [find_race] in H; [discriminate|].
  destruct a as [c [v|f] | c].
  - destruct (find_read c [] t1) as [[mid post]|] eqn:E1.
    + destruct (find_other_write c v [] t2) as [o'|] eqn:E2.
      * inversion H; subst s o'. cbn [s_c s_mid s_v]. unfold thread1_of. cbn [s_pre s_c s_v s_mid s_post].
        apply find_read_spec in E1. destruct E1 as [mid' [H1 [H2 H3]]]. cbn in H1. subst mid'.
        apply find_other_write_spec in E2. destruct E2 as [H4 H5]. cbn in H4.
        subst t1. auto.
      * apply IH in H. cbn [rev] in H. rewrite <- app_assoc in H. exact H.
    + apply IH in H. cbn [rev] in H. rewrite <- app_assoc in H. exact H.
  - apply IH in H. cbn [rev] in H. rewrite <- app_assoc in H. exact H.
  - apply IH in H. cbn [rev] in H. rewrite <- app_assoc in H. exact H.
Qed.

Theorem find_race_witness : forall t1 t2 s o,
    find_race [] t1 t2 = Some (s, o) ->
    interleave [t1; t2] (witness_trace s o) /\
    forall m0 m, obs_in m0 (witness_trace s o) 0 <> obs_seq m t1.
Proof.
  intros t1 t2 s o H. apply find_race_spec in H. cbn [rev app] in H.
  destruct H as [H1 [H2 [H3 H4]]]. subst t1 t2. apply race_witness; assumption.
Qed.

(* the safe and the racy verdicts exclude each other (two threads) *)
Theorem safe_excludes_race : forall t1 t2 s o,
    safe_b [t1; t2] = true -> find_race [] t1 t2 = Some (s, o) -> False.
Proof.
  intros t1 t2 s o Hs Hr.
  destruct (find_race_witness t1 t2 s o Hr) as [Hil Hne].
  apply (Hne (fun _ => []) (fun _ => [])).
  apply (safe_all_schedules [t1; t2] (fun _ => []) (witness_trace s o) 0 Hs Hil). cbn. lia.
Qed.

(* a third thread run after a two-thread schedule *)
Lemma interleave_extend : forall c tr a b,
    interleave [a; b] tr -> interleave [a; b; c] (tr ++ tag 2 c).
Proof.
  induction tr as [|[j x] tr IH]; intros a b Hi; inversion Hi; subst.
  - match goal with H : Forall _ _ |- _ => inversion H as [|? ? Ha Hr]; subst; inversion Hr as [|? ? Hb _]; subst end.
    cbn [app]. replace (tag 2 c) with (tag 2 c ++ []) by apply app_nil_r.
    apply (interleave_whole c _ 2); [reflexivity|]. cbn [set_nth]. apply (interleave_nil_threads 3).
  - cbn [app]. destruct j as [|[|j]].
    + match goal with H : nth_error _ _ = Some _ |- _ => cbn in H; inversion H; subst end.
      eapply il_step; [reflexivity|]. cbn [set_nth] in *. apply IH. assumption.
    + match goal with H : nth_error _ _ = Some _ |- _ => cbn in H; inversion H; subst end.
      eapply il_step; [reflexivity|]. cbn [set_nth] in *. apply IH. assumption.
    + match goal with H : nth_error _ _ = Some _ |- _ => cbn in H; destruct j; discriminate end.
Qed.

Lemma obs_in_extend : forall m tr c i, i <> 2 -> obs_in m (tr ++ tag 2 c) i = obs_in m tr i.
Proof.
  intros m tr c i Hi. unfold obs_in. rewrite exec_app.
  destruct (exec m no_hist tr) as [m1 hs1] eqn:E1.
  pose proof (exec_tag c 2 m1 hs1) as [_ Hh]. cbn [snd].
  rewrite (Hh i). rewrite hupd_other by exact Hi. reflexivity.
Qed.
