(* Key kinds of typedpy's process-wide caches and registries.  Which kind each table has is GENERATED
   from /repo on every run (Gen/Globals.v, by harness/gen.py from the AST of structures.py, mappers.py,
   serialization.py); anything the recogniser does not understand is [UnrecognisedKey], which no safety
   predicate accepts. *)
From Coq Require Import NArith List Bool.
Import ListNotations.
From TP Require Import Base.PyVal.

Inductive keykind :=
| ClassIdentity        (* the class object itself (hash/eq by identity) *)
| ClassName            (* cls.__name__ : the bare class name *)
| ClassQualName        (* (module, qualname): narrower than the bare name, still not the identity *)
| ClassAndFlags        (* (class object, every other argument the cached function depends on) *)
| ClassIgnoringFlags   (* class object only, although the cached function has further arguments *)
| UnrecognisedKey.

(* what the cached function depends on *)
Inductive dependency := DepClass | DepClassAndFlags.

(* does a key of this kind determine everything the function depends on? *)
Definition kind_safe_for (d : dependency) (k : keykind) : bool :=
  match d, k with
  | DepClass, (ClassIdentity | ClassAndFlags | ClassIgnoringFlags) => true
  | DepClassAndFlags, ClassAndFlags => true
  | _, _ => false
  end.

(* a registry entry is looked up for a CLASS only *)
Definition registry_kind_injective (k : keykind) : bool := kind_safe_for DepClass k.

Record cache_info := { cache_name : pystr; cache_kind : keykind; cache_dep : dependency }.
Definition cache_safe (c : cache_info) : bool := kind_safe_for (cache_dep c) (cache_kind c).
Definition unsafe_caches (l : list cache_info) : list cache_info := filter (fun c => negb (cache_safe c)) l.

(* where the StructureReference counter flows *)
Inductive counter_use := OnlyInlineClassName | CounterOther.
