(* C15 model: typedpy's process-wide state as an explicit environment [genv] of association lists,
   the events of a definition/use history, and the behaviour fingerprint of a class as a function of
   what the tables hold for it.  Executable (the correspondence harness evaluates it with vm_compute);
   no proofs here.

   What is modelled (anchors in /repo/typedpy):
     registry   FieldMeta._registry                      structures/structures.py  FieldMeta.__getitem__
     classes    the class objects created by StructMeta.__new__ (their own Field instances, resolved)
     cache      aggregated_mapper_by_class and the lru_cache'd analyses of serialization.py, as ONE memo
                table of a function [an] of (class entry, flags); its key kind is a parameter ([ck]),
                instantiated with the generated kinds (Gen/Globals.v)
     installed  cls.serialize installed by create_serializer        serialization/fast_serialization.py
     counter    StructureReference.counter                          fields/structure_reference.py
     defaults   TypedPyDefaults.* / Structure._fail_fast             structures/defaults.py
   The key kind of the registry ([rk]) is a parameter too.  A class statement [stmt] is the list of the
   class definitions it needs, dependencies first, the class itself last: defining it defines what is
   not defined yet (as importing a module would). *)
From Coq Require Import NArith List Bool.
Import ListNotations.
From TP Require Import Base.PyVal Global.Keys.

Definition utype := (N * pystr)%type.        (* a plain user class: (identity, bare name) *)

Inductive regkey := KId (n : N) | KName (s : pystr) | KAny.

Definition regkey_eqb (a b : regkey) : bool :=
  match a, b with
  | KId x, KId y => N.eqb x y
  | KName x, KName y => pystr_eqb x y
  | KAny, KAny => true
  | _, _ => false
  end.

Definition class_key (k : keykind) (id : N) (nm : pystr) : regkey :=
  match k with
  | ClassIdentity | ClassAndFlags | ClassIgnoringFlags => KId id
  | ClassName | ClassQualName => KName nm
  | UnrecognisedKey => KAny
  end.

Definition reg_key (k : keykind) (u : utype) : regkey := class_key k (fst u) (snd u).

Inductive ckey := CK (c : regkey) (flags : option N).

Definition ckey_eqb (a b : ckey) : bool :=
  match a, b with
  | CK x f, CK y g =>
      regkey_eqb x y && match f, g with
                        | None, None => true
                        | Some p, Some q => N.eqb p q
                        | _, _ => false
                        end
  end.

Definition cache_key (k : keykind) (id : N) (nm : pystr) (fl : N) : ckey :=
  CK (class_key k id nm) (match k with ClassAndFlags => Some fl | _ => None end).

Record cdef := { cid : N; cname : pystr; cbody : N; cwraps : list utype; cnsref : N; cfast : bool }.

(* what the class object holds once defined: name, the rest of its definition, and for each implicit
   wrapper field the identity of the user class its values are checked against *)
Definition rentry := (pystr * N * list N)%type.
Definition entry_of (c : cdef) : rentry := (cname c, cbody c, map fst (cwraps c)).

Record genv := { registry : list (regkey * utype);
                 classes : list (N * rentry);
                 cache : list (ckey * N);
                 installed : list (N * N);
                 counter : N;
                 defaults : list (N * bool) }.

Definition g0 : genv := {| registry := []; classes := []; cache := []; installed := []; counter := 0%N;
                           defaults := [] |}.

Fixpoint nlookup {A} (l : list (N * A)) (k : N) : option A :=
  match l with
  | [] => None
  | (k', v) :: t => if N.eqb k' k then Some v else nlookup t k
  end.

Fixpoint rlookup (l : list (regkey * utype)) (k : regkey) : option utype :=
  match l with
  | [] => None
  | (k', v) :: t => if regkey_eqb k' k then Some v else rlookup t k
  end.

Fixpoint clookup (l : list (ckey * N)) (k : ckey) : option N :=
  match l with
  | [] => None
  | (k', v) :: t => if ckey_eqb k' k then Some v else clookup t k
  end.

Inductive event :=
| Define (stmt : list cdef)
| Construct (c k : N)
| Ser (c i fl : N)
| Deser (c i fl : N)
| ToSchema (c : N)
| CreateSerializer (c fl : N)
| TrustedDeser (c i : N)
| SetDefault (k : N) (v : bool)
| Probe (c : N).

Section Model.
  Variable rk : keykind.                  (* key kind of FieldMeta._registry *)
  Variable ck : keykind.                  (* key kind of the memo table *)
  Variable an : rentry -> N -> N.         (* the memoised analysis: any pure function *)
  Variable origs : list (N * bool).       (* TypedPyDefaults: (key, value at import) *)

  (* FieldMeta.__getitem__ on a plain class: the registered wrapper for this KEY if there is one,
     a new wrapper (registered) otherwise.  Returns the class the wrapper checks against. *)
  Definition resolve (reg : list (regkey * utype)) (u : utype) : list (regkey * utype) * N :=
    match rlookup reg (reg_key rk u) with
    | Some u' => (reg, fst u')
    | None => ((reg_key rk u, u) :: reg, fst u)
    end.

  Fixpoint resolve_all (reg : list (regkey * utype)) (us : list utype) : list (regkey * utype) * list N :=
    match us with
    | [] => (reg, [])
    | u :: t => let '(reg1, id) := resolve reg u in
                let '(reg2, ids) := resolve_all reg1 t in (reg2, id :: ids)
    end.

  Definition define1 (g : genv) (c : cdef) : genv :=
    match nlookup (classes g) (cid c) with
    | Some _ => g
    | None =>
        let '(reg, ids) := resolve_all (registry g) (cwraps c) in
        {| registry := reg; classes := (cid c, (cname c, cbody c, ids)) :: classes g; cache := cache g;
           installed := installed g; counter := (counter g + cnsref c)%N; defaults := defaults g |}
    end.

  Definition memo_put (t : list (ckey * N)) (k : ckey) (v : N) : list (ckey * N) :=
    match clookup t k with Some _ => t | None => (k, v) :: t end.

  Definition memo_get (t : list (ckey * N)) (k : ckey) (v : N) : N :=
    match clookup t k with Some w => w | None => v end.

  (* a use of class c that goes through the memoised analysis with flags fl *)
  Definition use (g : genv) (c fl : N) : genv :=
    match nlookup (classes g) c with
    | None => g
    | Some e =>
        {| registry := registry g; classes := classes g;
           cache := memo_put (cache g) (cache_key ck c (fst (fst e)) fl) (an e fl);
           installed := installed g; counter := counter g; defaults := defaults g |}
    end.

  Definition probe_flags : list N := [0; 1; 2; 3; 4]%N.

  Definition step (g : genv) (ev : event) : genv :=
    match ev with
    | Define stmt => fold_left define1 stmt g
    | Construct _ _ => g
    | Ser c _ fl => use g c fl
    | Deser c _ fl => use g c fl
    | ToSchema _ => g
    | TrustedDeser c _ => use g c 0%N
    | Probe c => fold_left (fun g fl => use g c fl) probe_flags g
    | CreateSerializer c fl =>
        {| registry := registry g; classes := classes g; cache := cache g;
           installed := (c, fl) :: installed g; counter := counter g; defaults := defaults g |}
    | SetDefault k v =>
        {| registry := registry g; classes := classes g; cache := cache g; installed := installed g;
           counter := counter g; defaults := (k, v) :: defaults g |}
    end.

  Definition run (h : list event) (g : genv) : genv := fold_left step h g.

  Definition default_of (g : genv) (k : N) (orig : bool) : bool :=
    match nlookup (defaults g) k with Some v => v | None => orig end.

  (* The behaviour fingerprint of the class a statement defines: what the class objects of the statement
     hold, the serializer configuration of each, and the memoised analysis of the class itself under
     every flag combination the probes use.  The StructureReference counter is NOT part of it: it only
     names inline classes, and neither __str__ nor any normal form shows that name (C15_counter_hidden). *)
  Definition beh_class (g : genv) (c : cdef) : option (rentry * option N * list N) :=
    match nlookup (classes g) (cid c) with
    | None => None
    | Some e => Some (e, nlookup (installed g) (cid c),
                      map (fun fl => memo_get (cache g) (cache_key ck (cid c) (fst (fst e)) fl) (an e fl)) probe_flags)
    end.

  (* the configuration every use reads at the time of the use *)
  Definition dview (g : genv) : list bool := map (fun p => default_of g (fst p) (snd p)) origs.

  Definition beh (g : genv) (stmt : list cdef) : list (option (rentry * option N * list N)) * list bool :=
    (map (beh_class g) stmt, dview g).
End Model.

(* ------------------------------------------------------------------ decidable hypotheses *)

Definition utype_eq_dec (a b : utype) : {a = b} + {a <> b}.
Proof. decide equality; [apply (list_eq_dec N.eq_dec) | apply N.eq_dec]. Defined.

Definition cdef_eq_dec (a b : cdef) : {a = b} + {a <> b}.
Proof.
  decide equality; try apply bool_dec; try apply N.eq_dec;
    try apply (list_eq_dec N.eq_dec); apply (list_eq_dec utype_eq_dec).
Defined.

Fixpoint cdefs_of (h : list event) : list cdef :=
  match h with
  | [] => []
  | Define stmt :: t => stmt ++ cdefs_of t
  | _ :: t => cdefs_of t
  end.

Definition utypes_of (h : list event) : list utype := flat_map cwraps (cdefs_of h).

(* one class identity, one definition *)
Definition consistent_b (cs : list cdef) : bool :=
  forallb (fun c => forallb (fun c' => if N.eqb (cid c) (cid c') then
                                         if cdef_eq_dec c c' then true else false else true) cs) cs.

(* no two different user classes under one registry key *)
Definition no_collision_b (rk : keykind) (us : list utype) : bool :=
  forallb (fun u => forallb (fun u' => if regkey_eqb (reg_key rk u) (reg_key rk u') then
                                         if utype_eq_dec u u' then true else false else true) us) us.

Definition configures (ev : event) (c : N) : bool :=
  match ev with CreateSerializer c' _ => N.eqb c' c | _ => false end.

Definition no_config_b (h : list event) (stmt : list cdef) : bool :=
  forallb (fun ev => forallb (fun c => negb (configures ev (cid c))) stmt) h.

Fixpoint defines_b (h : list event) (stmt : list cdef) : bool :=
  match h with
  | [] => false
  | Define s :: t => (if list_eq_dec cdef_eq_dec s stmt then true else false) || defines_b t stmt
  | _ :: t => defines_b t stmt
  end.
