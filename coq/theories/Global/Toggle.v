(* C20 — "save; write; use; restore" on a shared cell (a non-atomic toggle): a validator that saves the name of a
   shared Field object, installs its own, uses it and puts the saved one back.  Sequentially the cell is the same
   before and after; nested (LIFO) overlaps of two such threads are harmless; a FIFO overlap - the thread that
   entered first leaves first - puts the OLD value back while the other thread is still using its own.
   Executable definitions only. *)
From Coq Require Import List Arith Bool.
Import ListNotations.
From TP Require Import Global.Threads.

(* save (read), install v, use (read), restore what was saved *)
Definition toggle (c : cell) (v : val) : thread :=
  [R c; W c (WConst v); R c; W c (WFun (fun h => hd [] h))].

(* FIFO overlap, two pre-emptions: T0 enters; T1 enters; T0 uses and leaves; T1 uses and leaves *)
Definition fifo_trace (c : cell) (v : val) : trace :=
  [ (0, R c); (0, W c (WConst v));
    (1, R c); (1, W c (WConst v));
    (0, R c); (0, W c (WFun (fun h => hd [] h)));
    (1, R c); (1, W c (WFun (fun h => hd [] h))) ].

(* nested overlap (LIFO), also two pre-emptions: T0 enters; T1 enters, uses, leaves; T0 uses and leaves *)
Definition lifo_trace (c : cell) (v : val) : trace :=
  [ (0, R c); (0, W c (WConst v));
    (1, R c); (1, W c (WConst v)); (1, R c); (1, W c (WFun (fun h => hd [] h)));
    (0, R c); (0, W c (WFun (fun h => hd [] h))) ].

(* the value a thread USES: its second read *)
Definition used (obs : list val) : val := nth 1 obs [].
