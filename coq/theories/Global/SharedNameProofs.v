(* What the classification of a generated access list (Global/SharedName.v: classify) means in the
   interleaving model: both verdicts are theorems about ALL schedules of the instantiated threads. *)
From Coq Require Import List Arith Bool Lia String.
Import ListNotations.
From TP Require Import Global.Threads Global.ThreadsProofs Global.SharedName.

Lemma classify_safe_safe_b : forall e,
    (classify e = SafePrivate \/ classify e = SafeIdempotent) -> safe_b (sample_threads e) = true.
Proof.
  intros e H. unfold classify in H.
  destruct (existsb is_unrecognised (v_acc e) || existsb is_unknown_scratch (v_acc e)); [destruct H; discriminate|].
  destruct (has_toggle e); [destruct H; discriminate|].
  destruct (existsb is_attr (v_acc e)).
  { destruct (forallb attr_const (v_acc e)); destruct H; discriminate. }
  destruct (safe_b (sample_threads e)) eqn:E; [reflexivity|].
  destruct (find_race [] (nth 0 (sample_threads e) []) (nth 1 (sample_threads e) [])); destruct H; discriminate.
Qed.

(* a validator classified safe: under every interleaving of the three sample threads (3, 2 and 4
   elements of the SAME field of the SAME class) every thread reads exactly what it reads alone,
   hence (model_outcome being a function of what is read) returns exactly what it returns alone *)
Theorem classified_safe_all_schedules : forall e m0 tr i,
    (classify e = SafePrivate \/ classify e = SafeIdempotent) ->
    interleave (sample_threads e) tr -> i < 3 ->
    obs_in m0 tr i = obs_seq m0 (nth i (sample_threads e) []).
Proof.
  intros e m0 tr i H Hil Hi. apply safe_all_schedules; [apply classify_safe_safe_b; exact H | exact Hil | exact Hi].
Qed.

Theorem classified_safe_outcome : forall e m0 tr i n,
    (classify e = SafePrivate \/ classify e = SafeIdempotent) ->
    interleave (sample_threads e) tr -> i < 3 ->
    model_outcome e n (obs_in m0 tr i) = model_outcome e n (obs_seq m0 (nth i (sample_threads e) [])).
Proof. intros. f_equal. apply classified_safe_all_schedules; assumption. Qed.

(* a validator classified racy: a constructed schedule of two threads (3 and 2 elements) under which
   the first reads something it reads in no interference-free run, whatever memory it starts from *)
Theorem classified_racy_witness : forall e,
    classify e = Racy ->
    exists tr, interleave [nth 0 (sample_threads e) []; nth 1 (sample_threads e) []] tr /\
               forall m0 m, obs_in m0 tr 0 <> obs_seq m (nth 0 (sample_threads e) []).
Proof.
  intros e H. unfold classify in H.
  destruct (existsb is_unrecognised (v_acc e) || existsb is_unknown_scratch (v_acc e)); [discriminate|].
  destruct (has_toggle e); [discriminate|].
  destruct (existsb is_attr (v_acc e)).
  { destruct (forallb attr_const (v_acc e)); discriminate. }
  destruct (safe_b (sample_threads e)).
  { destruct (private_b (sample_threads e)); discriminate. }
  destruct (find_race [] (nth 0 (sample_threads e) []) (nth 1 (sample_threads e) [])) as [[s o]|] eqn:E; [|discriminate].
  exists (witness_trace s o). apply find_race_witness. exact E.
Qed.
