(* C20 — get-or-compute caches shared by all threads (the global aggregated-mapper cache, lru caches,
   attributes installed lazily on shared class / Field objects).

   One cache SLOT (the entry of one key) and any number of threads that each run a PROTOCOL on it: a list
   of atomic actions (in the harness: source lines) — look the slot up and return its content if it is
   filled, store a value, clear it, or do something that touches no shared state.  A thread that reaches
   the end of its protocol returns the completely computed value, [CFinal]: a function of the key alone,
   hence the same for every thread.  Every other value a store may put into the slot - a placeholder, a
   partially built value - is [COther tag].

   The protocols are GENERATED from the AST of /repo on every run (Gen/CacheAccess.v).
   Executable model only (no proofs). *)
From Coq Require Import List Arith Bool String.
Import ListNotations.
From TP Require Import Global.Threads.      (* set_nth *)

Inductive cval := CFinal | COther (tag : nat).

Definition cval_eqb (a b : cval) : bool :=
  match a, b with
  | CFinal, CFinal => true
  | COther x, COther y => Nat.eqb x y
  | _, _ => false
  end.

Inductive cact :=
| CLookup                 (* ONE atomic step: `cache.get(key)`, an lru_cache hit, `getattr(self, "_serialize", None)` *)
| CStore (v : cval)       (* `cache[key] = ...` *)
| CClear                  (* a REMOVAL: `del cache[key]`, `cache.pop(key)`, `cache.clear()` *)
| CLocal                  (* a line that touches no shared state *)
| CCheck                  (* `if key in cache:` - the membership test alone; a following CRead is the hit branch *)
| CRead.                  (* `cache[key]` - raises KeyError when the key is not there *)

Definition cprog := list cact.

(* Failed: the thread raised KeyError out of a subscript read *)
Inductive tstate := Running (rest : cprog) | Done (r : cval) | Failed.

Definition slot := option cval.

(* one atomic step of one thread *)
Definition cstep (s : slot) (t : tstate) : slot * tstate :=
  match t with
  | Done r => (s, Done r)
  | Running [] => (s, Done CFinal)
  | Running (CLookup :: r) => match s with Some v => (s, Done v) | None => (s, Running r) end
  | Running (CStore v :: r) => (Some v, Running r)
  | Running (CClear :: r) => (None, Running r)
  | Running (CLocal :: r) => (s, Running r)
  | Running (CCheck :: r) =>
      match s with
      | Some _ => (s, Running r)                                              (* hit: go on to the read *)
      | None => (s, Running (match r with CRead :: r' => r' | _ => r end))    (* miss: skip the hit branch *)
      end
  | Running (CRead :: r) => match s with Some v => (s, Done v) | None => (s, Failed) end
  | Failed => (s, Failed)
  end.

(* ANY schedule: a list of thread indices (any number of threads, any number of pre-emptions;
   scheduling a finished or non-existent thread is a no-op) *)
Fixpoint crun (sched : list nat) (s : slot) (ts : list tstate) : slot * list tstate :=
  match sched with
  | [] => (s, ts)
  | i :: r =>
      match nth_error ts i with
      | None => crun r s ts
      | Some t => let '(s', t') := cstep s t in crun r s' (set_nth ts i t')
      end
  end.

Definition cstart (ps : list cprog) : list tstate := map Running ps.

Definition cresult (cfg : slot * list tstate) (i : nat) : option cval :=
  match nth_error (snd cfg) i with Some (Done r) => Some r | _ => None end.

Definition cfailed (cfg : slot * list tstate) (i : nat) : bool :=
  match nth_error (snd cfg) i with Some Failed => true | _ => false end.

(* a thread running alone, to completion: the value it returns, or None if it raises *)
Fixpoint calone (s : slot) (p : cprog) : slot * option cval :=
  match p with
  | [] => (s, Some CFinal)
  | CLookup :: r => match s with Some v => (s, Some v) | None => calone s r end
  | CStore v :: r => calone (Some v) r
  | CClear :: r => calone None r
  | CLocal :: r => calone s r
  | CCheck :: r => match s with
                   | Some _ => calone s r
                   | None => match r with CRead :: r' => calone s r' | _ => calone s r end
                   end
  | CRead :: r => match s with Some v => (s, Some v) | None => (s, None) end
  end.

Definition tstate_of (r : option cval) : tstate := match r with Some v => Done v | None => Failed end.

(* ---- decidable side conditions ---- *)

Definition is_other_store (a : cact) : bool := match a with CStore (COther _) => true | _ => false end.
Definition is_store (a : cact) : bool := match a with CStore _ => true | _ => false end.
Definition is_local (a : cact) : bool := match a with CLocal => true | _ => false end.
Definition is_clear (a : cact) : bool := match a with CClear => true | _ => false end.
Definition is_read (a : cact) : bool := match a with CRead => true | _ => false end.

(* every store of the protocol stores the completely computed value *)
Definition stores_final (p : cprog) : bool := forallb (fun a => negb (is_other_store a)) p.
Definition no_store (p : cprog) : bool := forallb (fun a => negb (is_store a)) p.
Definition only_local (p : cprog) : bool := forallb is_local p.
(* no removal site / no subscript read *)
Definition no_clear (p : cprog) : bool := forallb (fun a => negb (is_clear a)) p.
Definition no_read (p : cprog) : bool := forallb (fun a => negb (is_read a)) p.

(* every subscript read is the hit branch of a membership test immediately before it (check-then-read) *)
Fixpoint guarded (p : cprog) : bool :=
  match p with
  | [] => true
  | CCheck :: CRead :: r => guarded r
  | CRead :: _ => false
  | _ :: r => guarded r
  end.

(* a check-then-read reached through local steps only *)
Fixpoint find_checkread (pre : cprog) (p : cprog) : option (cprog * cprog) :=
  match p with
  | CCheck :: CRead :: r => Some (rev pre, r)
  | CLocal :: r => find_checkread (CLocal :: pre) r
  | _ => None
  end.

(* a thread working on ANOTHER key sees this slot only through its removals (`cache.clear()` empties every slot) *)
Definition foreign_view (p : cprog) : cprog := map (fun a => match a with CClear => CClear | _ => CLocal end) p.

(* the first removal site *)
Fixpoint find_clear (pre : cprog) (p : cprog) : option (cprog * cprog) :=
  match p with
  | [] => None
  | CClear :: r => Some (rev pre, r)
  | a :: r => find_clear (a :: pre) r
  end.

(* the constructed schedule: the reader up to and including its membership test (a hit), the other thread
   up to and including its removal, the reader's subscript read *)
Definition removal_sched (loc pre : cprog) : list nat :=
  repeat 0 (S (List.length loc)) ++ repeat 1 (S (List.length pre)) ++ [0].

(* the first store of the protocol, if it stores something else than the final value *)
Fixpoint find_placeholder (pre : cprog) (p : cprog) : option (cprog * nat * cprog) :=
  match p with
  | [] => None
  | CStore (COther tag) :: r => Some (rev pre, tag, r)
  | CStore CFinal :: _ => None
  | a :: r => find_placeholder (a :: pre) r
  end.

(* a lookup reached through local steps only *)
Fixpoint find_lookup (pre : cprog) (p : cprog) : option (cprog * cprog) :=
  match p with
  | CLookup :: r => Some (rev pre, r)
  | CLocal :: r => find_lookup (CLocal :: pre) r
  | _ => None
  end.

(* the constructed schedule: thread 0 up to and including its placeholder store, then thread 1 up to
   and including its lookup *)
Definition placeholder_sched (pre loc : cprog) : list nat :=
  repeat 0 (S (List.length pre)) ++ repeat 1 (S (List.length loc)).

Inductive cverdict := CacheSafe | CacheRacy | CacheUndecided.

Definition cverdict_code (v : cverdict) : nat :=
  match v with CacheSafe => 0 | CacheRacy => 2 | CacheUndecided => 4 end.

(* the reader of a placeholder: an atomic lookup or a check-then-read, reached through local steps *)
Definition find_reader (q : cprog) : option (cprog * nat) :=
  match find_lookup [] q with
  | Some (loc, _) => Some (loc, 1)
  | None => match find_checkread [] q with Some (loc, _) => Some (loc, 2) | None => None end
  end.

(* what makes a family of protocols on one slot safe: only computed values are stored, and either every
   lookup is one atomic step, or nothing is ever removed and every subscript read is guarded by its test *)
Definition protocols_safe (ps : list cprog) : bool :=
  forallb stores_final ps && (forallb no_read ps || (forallb no_clear ps && forallb guarded ps)).

(* writer protocol p, reader protocol q (two entry points of the same cache, possibly the same one) *)
Definition cache_classify2 (p q : cprog) : cverdict :=
  if protocols_safe [p; q] then CacheSafe
  else match find_placeholder [] p, find_reader q with
       | Some _, Some _ => CacheRacy
       | _, _ => CacheUndecided
       end.

(* reader p, remover q: a check-then-read next to a removal site *)
Definition removal_racy2 (p q : cprog) : bool :=
  match find_checkread [] p, find_clear [] (foreign_view q) with
  | Some _, Some _ => true
  | _, _ => false
  end.

(* a table entry: all the protocols that operate on one cache *)
Definition cache_classify (ps : list cprog) : cverdict :=
  if protocols_safe ps then CacheSafe
  else if existsb (fun p => existsb (fun q => match cache_classify2 p q with CacheRacy => true | _ => false end) ps) ps
          || existsb (fun p => existsb (removal_racy2 p) ps) ps
       then CacheRacy else CacheUndecided.

(* the witness as data, for the harness: (index of the writer, steps of the writer, index of the reader,
   steps of the reader) *)
Fixpoint first_some {A B} (f : A -> option B) (l : list A) : option B :=
  match l with [] => None | x :: r => match f x with Some y => Some y | None => first_some f r end end.

Definition cache_witness (ps : list cprog) : option (nat * nat * nat * nat) :=
  first_some (fun ip : nat * cprog =>
    match find_placeholder [] (snd ip) with
    | None => None
    | Some (pre, _, _) =>
        first_some (fun jq : nat * cprog =>
          match find_reader (snd jq) with
          | Some (loc, k) => Some (fst ip, S (List.length pre), fst jq, k + List.length loc)
          | None => None
          end) (combine (seq 0 (List.length ps)) ps)
    end) (combine (seq 0 (List.length ps)) ps).

(* the removal witness as data: (reader protocol, steps of the reader up to its test, remover protocol,
   steps of the remover up to its removal) *)
Definition removal_witness (ps : list cprog) : option (nat * nat * nat * nat) :=
  first_some (fun ip : nat * cprog =>
    match find_checkread [] (snd ip) with
    | None => None
    | Some (loc, _) =>
        first_some (fun jq : nat * cprog =>
          match find_clear [] (foreign_view (snd jq)) with
          | Some (pre, _) => Some (fst ip, S (List.length loc), fst jq, S (List.length pre))
          | None => None
          end) (combine (seq 0 (List.length ps)) ps)
    end) (combine (seq 0 (List.length ps)) ps).

(* ---- the generated table (Gen/CacheAccess.v): one entry per cache, one protocol per function that
   touches it ---- *)
Record centry := { ce_name : string; ce_kind : string; ce_file : string; ce_progs : list (string * cprog) }.

Definition centry_progs (e : centry) : list cprog := map snd (ce_progs e).
Definition centry_verdict (e : centry) : cverdict := cache_classify (centry_progs e).
Definition centry_witness (e : centry) : option (nat * nat * nat * nat) := cache_witness (centry_progs e).
Definition centry_removal_witness (e : centry) : option (nat * nat * nat * nat) := removal_witness (centry_progs e).

(* ---- many keys: the cache is a dictionary of slots, every thread works on the slot of ITS key ---- *)
Definition kmem := nat -> slot.
Definition kupd (m : kmem) (k : nat) (s : slot) : kmem := fun k' => if Nat.eqb k' k then s else m k'.
Definition kthread := (nat * tstate)%type.        (* (key, state) *)

Fixpoint krun (sched : list nat) (m : kmem) (ts : list kthread) : kmem * list kthread :=
  match sched with
  | [] => (m, ts)
  | i :: r =>
      match nth_error ts i with
      | None => krun r m ts
      | Some (k, t) => let '(s', t') := cstep (m k) t in krun r (kupd m k s') (set_nth ts i (k, t'))
      end
  end.

Definition kstart (kps : list (nat * cprog)) : list kthread := map (fun kp => (fst kp, Running (snd kp))) kps.

Definition kresult (cfg : kmem * list kthread) (i : nat) : option cval :=
  match nth_error (snd cfg) i with Some (_, Done r) => Some r | _ => None end.

(* the view of one key: the threads of other keys are inert (a per-key removal; `cache.clear()`, which empties
   EVERY slot, is what foreign_view models in the one-slot runs) *)
Definition kproj (k : nat) (ts : list kthread) : list tstate :=
  map (fun kt : kthread => if Nat.eqb (fst kt) k then snd kt else Done CFinal) ts.
