(* C20 — composition of thread families that work on DISJOINT shared cells: the fields of one class (each
   field has its own Field objects, hence its own cells), the fields of a nested Structure class, the
   validators of several classes used by one operation.  Every thread of the composed family runs its
   program of the first family followed by its program of the second.  Executable definitions only. *)
From Coq Require Import List Arith Bool.
Import ListNotations.
From TP Require Import Global.Threads.

Fixpoint zip_app (a b : list thread) : list thread :=
  match a, b with
  | x :: a', y :: b' => (x ++ y) :: zip_app a' b'
  | _, _ => []
  end.

Definition mem_b (c : cell) (l : list cell) : bool := existsb (Nat.eqb c) l.

(* no cell accessed by some thread of a is accessed by a thread of b *)
Definition disjoint_b (a b : list thread) : bool :=
  forallb (fun c => negb (mem_b c (cells_of b))) (cells_of a).

(* a class with several fields: fold of zip_app over the per-field families *)
Fixpoint compose_all (n : nat) (fams : list (list thread)) : list thread :=
  match fams with
  | [] => repeat [] n
  | f :: r => zip_app f (compose_all n r)
  end.

Fixpoint pairwise_disjoint_b (n : nat) (fams : list (list thread)) : bool :=
  match fams with
  | [] => true
  | f :: r => disjoint_b f (compose_all n r) && pairwise_disjoint_b n r
  end.

(* ---- renaming of cells: the same program working on other Field objects ---- *)
Definition shift_action (k : nat) (a : action) : action :=
  match a with W c e => W (c + k) e | R c => R (c + k) end.
Definition shift_thread (k : nat) (t : thread) : thread := map (shift_action k) t.
Definition shift_family (k : nat) (ts : list thread) : list thread := map (shift_thread k) ts.
