(* Proofs about the C15 model (Global/History.v). *)
From Coq Require Import NArith List Bool Lia String.
Import ListNotations.
From TP Require Import Base.PyVal Global.Keys Global.History.

(* ====================================================================== A. memo tables, generically *)

Section Memo.
  Variables A K V : Type.
  Variable keqb : K -> K -> bool.
  Hypothesis keqb_eq : forall a b, keqb a b = true <-> a = b.
  Variable key : A -> K.
  Variable F : A -> V.

  Fixpoint mlookup (t : list (K * V)) (k : K) : option V :=
    match t with
    | [] => None
    | (k', v) :: r => if keqb k' k then Some v else mlookup r k
    end.

  (* the two things code does with a memo table *)
  Inductive mop := MGet (a : A) | MPut (a : A).
  Definition marg (o : mop) : A := match o with MGet a | MPut a => a end.

  Definition mapply (t : list (K * V)) (o : mop) : list (K * V) :=
    match o with
    | MGet _ => t
    | MPut a => match mlookup t (key a) with Some _ => t | None => (key a, F a) :: t end
    end.

  Definition mget (t : list (K * V)) (a : A) : V :=
    match mlookup t (key a) with Some v => v | None => F a end.

  Variable dom : A -> Prop.
  Definition key_determines : Prop := forall a b, dom a -> dom b -> key a = key b -> F a = F b.

  Definition mcorrect (t : list (K * V)) : Prop :=
    forall k v, mlookup t k = Some v -> exists b, dom b /\ key b = k /\ v = F b.

  Lemma mapply_correct t o : dom (marg o) -> mcorrect t -> mcorrect (mapply t o).
  Proof.
    intros Hd Hc. destruct o as [a|a]; cbn [mapply]; [exact Hc|].
    destruct (mlookup t (key a)) eqn:E; [exact Hc|].
    intros k v. cbn [mlookup]. destruct (keqb (key a) k) eqn:Ek.
    - intro H. inversion H; subst. apply keqb_eq in Ek. exists a. cbn [marg] in Hd. auto.
    - apply Hc.
  Qed.

  Lemma mfold_correct hist : forall t, Forall (fun o => dom (marg o)) hist -> mcorrect t ->
                                       mcorrect (fold_left mapply hist t).
  Proof.
    induction hist as [|o r IH]; intros t Hf Hc; cbn [fold_left]; [exact Hc|].
    inversion Hf; subst. apply IH; [assumption|]. apply mapply_correct; assumption.
  Qed.

  (* for ANY history of lookups and insertions, the memoised lookup is the direct computation *)
  Theorem memo_transparent : key_determines ->
    forall hist a, Forall (fun o => dom (marg o)) hist -> dom a ->
                   mget (fold_left mapply hist []) a = F a.
  Proof.
    intros Hk hist a Hf Ha. unfold mget.
    destruct (mlookup (fold_left mapply hist []) (key a)) as [w|] eqn:E; [|reflexivity].
    assert (Hc : mcorrect (fold_left mapply hist [])).
    { apply mfold_correct; [assumption|]. intros k v H. discriminate H. }
    destruct (Hc _ _ E) as [b [Hb [Hkb Hv]]]. subst w. symmetry. apply Hk; auto.
  Qed.

  (* a key coarser than what the function depends on IS observable *)
  Theorem memo_coarse_observable : forall a b, key a = key b -> F a <> F b ->
                                               mget (mapply [] (MPut a)) b <> F b.
  Proof.
    intros a b Hk Hne. unfold mget. cbn [mapply mlookup].
    rewrite <- Hk. assert (E : keqb (key a) (key a) = true) by (apply keqb_eq; reflexivity).
    rewrite E. exact Hne.
  Qed.
End Memo.

(* ====================================================================== B. keys *)

Lemma regkey_eqb_eq a b : regkey_eqb a b = true <-> a = b.
Proof.
  destruct a, b; cbn [regkey_eqb]; split; intro H; try discriminate; try reflexivity.
  - apply N.eqb_eq in H. congruence.
  - inversion H. apply N.eqb_refl.
  - apply pystr_eqb_spec in H. congruence.
  - inversion H. apply pystr_eqb_refl.
Qed.

Lemma ckey_eqb_eq a b : ckey_eqb a b = true <-> a = b.
Proof.
  destruct a as [x f], b as [y g]; cbn [ckey_eqb]; split; intro H.
  - apply andb_true_iff in H as [H1 H2]. apply regkey_eqb_eq in H1. subst y.
    destruct f, g; try discriminate; [apply N.eqb_eq in H2; congruence | reflexivity].
  - inversion H; subst. apply andb_true_iff. split; [apply regkey_eqb_eq; reflexivity|].
    destruct g; [apply N.eqb_refl | reflexivity].
Qed.

(* the arguments of a cached analysis: (class identity, class name, flags) *)
Definition carg := (N * pystr * N)%type.
Definition carg_key (k : keykind) (a : carg) : ckey := cache_key k (fst (fst a)) (snd (fst a)) (snd a).
Definition ignores_flags {V} (F : carg -> V) : Prop := forall i n f f', F (i, n, f) = F (i, n, f').
(* the arguments that occur: one identity, one name *)
Definition one_name (dom : carg -> Prop) : Prop :=
  forall a b, dom a -> dom b -> fst (fst a) = fst (fst b) -> snd (fst a) = snd (fst b).

Lemma safe_kind_determines {V} (F : carg -> V) (dom : carg -> Prop) k d :
  kind_safe_for d k = true -> one_name dom -> (d = DepClass -> ignores_flags F) ->
  key_determines carg ckey V (carg_key k) F dom.
Proof.
  intros Hs Hn Hi [[i n] f] [[i' n'] f'] Ha Hb Hk.
  specialize (Hn _ _ Ha Hb). cbn [fst snd] in Hn.
  unfold carg_key, cache_key, class_key in Hk. cbn [fst snd] in Hk.
  destruct d, k; try discriminate Hs; inversion Hk; subst;
    try (rewrite (Hn eq_refl)); try reflexivity; apply (Hi eq_refl).
Qed.

(* ====================================================================== C. histories *)

Section Hist.
  Variable rk ck : keykind.
  Variable an : rentry -> N -> N.
  Variable origs : list (N * bool).
  Variable UC : list cdef.
  Variable UU : list utype.
  Hypothesis HC : forall c c', In c UC -> In c' UC -> cid c = cid c' -> c = c'.
  Hypothesis HW : forall c, In c UC -> incl (cwraps c) UU.
  Hypothesis HN : forall u u', In u UU -> In u' UU -> reg_key rk u = reg_key rk u' -> u = u'.
  Hypothesis HK : kind_safe_for DepClassAndFlags ck = true.

  Notation define1 := (define1 rk).
  Notation use := (use ck an).
  Notation step := (step rk ck an).
  Notation run := (run rk ck an).

  Definition reg_ok (reg : list (regkey * utype)) : Prop :=
    forall k u, rlookup reg k = Some u -> In u UU /\ reg_key rk u = k.

  Definition inv (g : genv) : Prop :=
    reg_ok (registry g) /\
    (forall i e, nlookup (classes g) i = Some e -> exists c, In c UC /\ cid c = i /\ e = entry_of c) /\
    (forall k v, clookup (cache g) k = Some v ->
                 exists c fl, In c UC /\ k = cache_key ck (cid c) (cname c) fl /\ v = an (entry_of c) fl).

  Lemma resolve_ok reg u : reg_ok reg -> In u UU ->
    snd (resolve rk reg u) = fst u /\ reg_ok (fst (resolve rk reg u)).
  Proof.
    intros Hr Hu. unfold resolve. destruct (rlookup reg (reg_key rk u)) as [u'|] eqn:E; cbn [fst snd].
    - destruct (Hr _ _ E) as [Hin Hk]. rewrite (HN _ _ Hin Hu Hk). split; [reflexivity | exact Hr].
    - split; [reflexivity|]. intros k v. cbn [rlookup].
      destruct (regkey_eqb (reg_key rk u) k) eqn:Ek.
      + intro H. inversion H; subst. apply regkey_eqb_eq in Ek. auto.
      + apply Hr.
  Qed.

  Lemma resolve_all_ok us : forall reg, reg_ok reg -> incl us UU ->
    snd (resolve_all rk reg us) = map fst us /\ reg_ok (fst (resolve_all rk reg us)).
  Proof.
    induction us as [|u t IH]; intros reg Hr Hi; cbn [resolve_all]; [split; [reflexivity | exact Hr]|].
    assert (Hu : In u UU) by (apply Hi; left; reflexivity).
    assert (Ht : incl t UU) by (intros x Hx; apply Hi; right; exact Hx).
    destruct (resolve_ok reg u Hr Hu) as [H1 H2].
    destruct (resolve rk reg u) as [reg1 id] eqn:E1. cbn [fst snd] in H1, H2.
    destruct (IH reg1 H2 Ht) as [H3 H4].
    destruct (resolve_all rk reg1 t) as [reg2 ids] eqn:E2. cbn [fst snd] in *.
    subst. split; [reflexivity | exact H4].
  Qed.

  Lemma define1_inv g c : In c UC -> inv g -> inv (define1 g c).
  Proof.
    intros Hc [Hr [Hcl Hca]]. unfold History.define1.
    destruct (nlookup (classes g) (cid c)) eqn:E; [exact (conj Hr (conj Hcl Hca))|].
    destruct (resolve_all_ok (cwraps c) (registry g) Hr (HW c Hc)) as [H1 H2].
    destruct (resolve_all rk (registry g) (cwraps c)) as [reg ids]. cbn [fst snd] in H1, H2.
    split; [exact H2|]. split; [|exact Hca].
    intros i e. cbn [classes nlookup]. destruct (N.eqb (cid c) i) eqn:Ei.
    - intro H. inversion H; subst. apply N.eqb_eq in Ei. exists c. repeat split; auto.
    - apply Hcl.
  Qed.

  Lemma defines_inv stmt : forall g, incl stmt UC -> inv g -> inv (fold_left define1 stmt g).
  Proof.
    induction stmt as [|c t IH]; intros g Hi Hg; cbn [fold_left]; [exact Hg|].
    apply IH; [intros x Hx; apply Hi; right; exact Hx|].
    apply define1_inv; [apply Hi; left; reflexivity | exact Hg].
  Qed.

  Lemma use_inv g c fl : inv g -> inv (use g c fl).
  Proof.
    intros [Hr [Hcl Hca]]. unfold History.use.
    destruct (nlookup (classes g) c) as [e|] eqn:E; [|exact (conj Hr (conj Hcl Hca))].
    split; [exact Hr|]. split; [exact Hcl|]. cbn [cache].
    destruct (Hcl _ _ E) as [c0 [Hin [Hid He]]]. subst e c.
    unfold memo_put. destruct (clookup (cache g) _) eqn:El; [exact Hca|].
    intros k v. cbn [clookup]. destruct (ckey_eqb _ k) eqn:Ek.
    - intro H. inversion H; subst. apply ckey_eqb_eq in Ek. exists c0, fl. repeat split; auto.
    - apply Hca.
  Qed.

  Lemma uses_inv c fls : forall g, inv g -> inv (fold_left (fun g fl => use g c fl) fls g).
  Proof.
    induction fls as [|f t IH]; intros g Hg; cbn [fold_left]; [exact Hg|]. apply IH, use_inv, Hg.
  Qed.

  Lemma step_inv g ev : incl (cdefs_of [ev]) UC -> inv g -> inv (step g ev).
  Proof.
    intros Hi Hg. destruct ev; cbn [History.step]; try exact Hg; try (apply use_inv; exact Hg).
    - apply defines_inv; [|exact Hg]. cbn [cdefs_of] in Hi. rewrite app_nil_r in Hi. exact Hi.
    - apply uses_inv, Hg.
  Qed.

  Lemma cdefs_of_cons ev h : cdefs_of (ev :: h) = cdefs_of [ev] ++ cdefs_of h.
  Proof. destruct ev; cbn [cdefs_of]; try reflexivity. rewrite app_nil_r. reflexivity. Qed.

  Lemma run_inv h : forall g, incl (cdefs_of h) UC -> inv g -> inv (run h g).
  Proof.
    induction h as [|ev t IH]; intros g Hi Hg; [exact Hg|].
    unfold History.run. cbn [fold_left]. rewrite cdefs_of_cons in Hi.
    apply IH; [intros x Hx; apply Hi, in_or_app; right; exact Hx|].
    apply step_inv; [intros x Hx; apply Hi, in_or_app; left; exact Hx | exact Hg].
  Qed.

  (* ---- once defined, a class object stays what it is *)
  Lemma define1_keeps g c i e : nlookup (classes g) i = Some e -> nlookup (classes (define1 g c)) i = Some e.
  Proof.
    intro H. unfold History.define1. destruct (nlookup (classes g) (cid c)) eqn:E; [exact H|].
    destruct (resolve_all rk (registry g) (cwraps c)) as [reg ids]. cbn [classes nlookup].
    destruct (N.eqb (cid c) i) eqn:Ei; [|exact H]. apply N.eqb_eq in Ei. congruence.
  Qed.

  Lemma defines_keeps stmt i e : forall g, nlookup (classes g) i = Some e ->
                                           nlookup (classes (fold_left define1 stmt g)) i = Some e.
  Proof.
    induction stmt as [|c t IH]; intros g H; cbn [fold_left]; [exact H|]. apply IH, define1_keeps, H.
  Qed.

  Lemma use_classes g c fl : classes (use g c fl) = classes g.
  Proof. unfold History.use. destruct (nlookup (classes g) c); reflexivity. Qed.

  Lemma uses_classes c fls : forall g, classes (fold_left (fun g fl => use g c fl) fls g) = classes g.
  Proof.
    induction fls as [|f t IH]; intro g; cbn [fold_left]; [reflexivity|]. rewrite IH. apply use_classes.
  Qed.

  Lemma step_keeps g ev i e : nlookup (classes g) i = Some e -> nlookup (classes (step g ev)) i = Some e.
  Proof.
    intro H. destruct ev; cbn [History.step]; try exact H; try (rewrite use_classes; exact H).
    - apply defines_keeps, H.
    - rewrite uses_classes. exact H.
  Qed.

  Lemma run_keeps h i e : forall g, nlookup (classes g) i = Some e -> nlookup (classes (run h g)) i = Some e.
  Proof.
    induction h as [|ev t IH]; intros g H; [exact H|]. unfold History.run. cbn [fold_left].
    apply IH, step_keeps, H.
  Qed.

  Lemma define1_defines g c : nlookup (classes (define1 g c)) (cid c) <> None.
  Proof.
    unfold History.define1. destruct (nlookup (classes g) (cid c)) eqn:E; [congruence|].
    destruct (resolve_all rk (registry g) (cwraps c)) as [reg ids]. cbn [classes nlookup].
    rewrite N.eqb_refl. discriminate.
  Qed.

  Lemma defines_defines stmt c : forall g, In c stmt -> nlookup (classes (fold_left define1 stmt g)) (cid c) <> None.
  Proof.
    induction stmt as [|d t IH]; intros g Hin; [destruct Hin|]. cbn [fold_left].
    destruct Hin as [->|Hin]; [|apply IH, Hin].
    destruct (nlookup (classes (define1 g c)) (cid c)) eqn:E; [|exfalso; exact (define1_defines g c E)].
    rewrite (defines_keeps t _ _ _ E). discriminate.
  Qed.

  (* ---- serializer configuration and defaults are only written by their own events *)
  Lemma define1_other g c : installed (define1 g c) = installed g /\ defaults (define1 g c) = defaults g.
  Proof.
    unfold History.define1. destruct (nlookup (classes g) (cid c)); [split; reflexivity|].
    destruct (resolve_all rk (registry g) (cwraps c)). split; reflexivity.
  Qed.

  Lemma defines_other stmt : forall g, installed (fold_left define1 stmt g) = installed g /\
                                       defaults (fold_left define1 stmt g) = defaults g.
  Proof.
    induction stmt as [|c t IH]; intro g; cbn [fold_left]; [split; reflexivity|].
    destruct (IH (define1 g c)) as [A B]. destruct (define1_other g c) as [A' B']. split; congruence.
  Qed.

  Lemma use_other g c fl : installed (use g c fl) = installed g /\ defaults (use g c fl) = defaults g.
  Proof. unfold History.use. destruct (nlookup (classes g) c); split; reflexivity. Qed.

  Lemma uses_other c fls : forall g, installed (fold_left (fun g fl => use g c fl) fls g) = installed g /\
                                      defaults (fold_left (fun g fl => use g c fl) fls g) = defaults g.
  Proof.
    induction fls as [|f t IH]; intro g; cbn [fold_left]; [split; reflexivity|].
    destruct (IH (use g c f)) as [A B]. destruct (use_other g c f) as [A' B']. split; congruence.
  Qed.

  Lemma run_installed h i : forall g, forallb (fun ev => negb (configures ev i)) h = true ->
                                      nlookup (installed (run h g)) i = nlookup (installed g) i.
  Proof.
    induction h as [|ev t IH]; intros g H; [reflexivity|]. unfold History.run. cbn [fold_left].
    cbn [forallb] in H. apply andb_true_iff in H as [H1 H2]. unfold History.run in IH. rewrite (IH _ H2).
    destruct ev; cbn [History.step]; try reflexivity;
      try (rewrite (proj1 (use_other _ _ _)); reflexivity).
    - rewrite (proj1 (defines_other _ _)). reflexivity.
    - cbn [configures] in H1. cbn [installed nlookup]. destruct (N.eqb c i); [discriminate|reflexivity].
    - rewrite (proj1 (uses_other _ _ _)). reflexivity.
  Qed.

  (* ---- the memo table is unobservable *)
  Lemma memo_get_direct g c fl : inv g -> In c UC ->
    memo_get (cache g) (cache_key ck (cid c) (cname c) fl) (an (entry_of c) fl) = an (entry_of c) fl.
  Proof.
    intros [_ [_ Hca]] Hc. unfold memo_get.
    destruct (clookup (cache g) _) as [v|] eqn:E; [|reflexivity].
    destruct (Hca _ _ E) as [c' [fl' [Hin [Hk Hv]]]]. subst v.
    destruct ck; try discriminate HK. unfold cache_key, class_key in Hk. inversion Hk; subst.
    rewrite (HC c c' Hc Hin) by assumption. reflexivity.
  Qed.

  (* ---- the behaviour of a defined class, whatever the history *)
  Lemma beh_class_char h stmt c :
    incl (cdefs_of h) UC -> In (Define stmt) h -> In c stmt ->
    forallb (fun ev => negb (configures ev (cid c))) h = true ->
    beh_class ck an (run h g0) c =
      Some (entry_of c, None, map (fun fl => an (entry_of c) fl) probe_flags).
  Proof.
    intros Hi Hd Hc Hcfg.
    assert (Hinv : inv (run h g0)).
    { apply run_inv; [exact Hi|]. split; [|split]; intros ? ? Hx; discriminate Hx. }
    assert (HcU : In c UC).
    { apply Hi. clear -Hd Hc. induction h as [|ev t IH]; [destruct Hd|].
      rewrite cdefs_of_cons. apply in_or_app. destruct Hd as [->|Hd].
      - left. cbn [cdefs_of]. rewrite app_nil_r. exact Hc.
      - right. apply IH, Hd. }
    assert (Hl : nlookup (classes (run h g0)) (cid c) = Some (entry_of c)).
    { destruct (in_split _ _ Hd) as [h1 [h2 Heq]].
      assert (Hrun : run h g0 = run h2 (fold_left define1 stmt (run h1 g0))).
      { rewrite Heq. unfold History.run. rewrite fold_left_app. reflexivity. }
      destruct (nlookup (classes (fold_left define1 stmt (run h1 g0))) (cid c)) as [e|] eqn:E;
        [|exfalso; exact (defines_defines stmt c _ Hc E)].
      pose proof (run_keeps h2 _ _ _ E) as Hk. rewrite <- Hrun in Hk.
      destruct Hinv as [_ [Hcl _]].
      destruct (Hcl _ _ Hk) as [c' [Hin' [Hid He]]]. rewrite (HC c' c Hin' HcU Hid) in He.
      rewrite Hk, He. reflexivity. }
    unfold beh_class. rewrite Hl. rewrite (run_installed h (cid c) g0 Hcfg). cbn [g0 installed nlookup].
    f_equal. f_equal. apply map_ext_in. intros fl _. cbn [entry_of fst].
    change (cname c, cbody c, map fst (cwraps c)) with (entry_of c).
    apply memo_get_direct; assumption.
  Qed.
End Hist.

(* ---- boolean hypotheses are sound *)
Lemma consistent_b_sound cs : consistent_b cs = true ->
  forall c c', In c cs -> In c' cs -> cid c = cid c' -> c = c'.
Proof.
  intros H c c' Hc Hc' Hid. unfold consistent_b in H. rewrite forallb_forall in H.
  specialize (H c Hc). rewrite forallb_forall in H. specialize (H c' Hc').
  rewrite Hid, N.eqb_refl in H. destruct (cdef_eq_dec c c'); [assumption|discriminate].
Qed.

Lemma no_collision_b_sound rk us : no_collision_b rk us = true ->
  forall u u', In u us -> In u' us -> reg_key rk u = reg_key rk u' -> u = u'.
Proof.
  intros H u u' Hu Hu' Hk. unfold no_collision_b in H. rewrite forallb_forall in H.
  specialize (H u Hu). rewrite forallb_forall in H. specialize (H u' Hu').
  assert (E : regkey_eqb (reg_key rk u) (reg_key rk u') = true) by (apply regkey_eqb_eq; exact Hk).
  rewrite E in H. destruct (utype_eq_dec u u'); [assumption|discriminate].
Qed.

Lemma defines_b_sound h stmt : defines_b h stmt = true -> In (Define stmt) h.
Proof.
  induction h as [|ev t IH]; cbn [defines_b]; [discriminate|]. intro H.
  destruct ev; try (right; apply IH; exact H).
  apply orb_true_iff in H as [H|H]; [|right; apply IH; exact H].
  destruct (list_eq_dec cdef_eq_dec stmt0 stmt); [left; congruence|discriminate].
Qed.

Lemma no_config_b_class h stmt c : no_config_b h stmt = true -> In c stmt ->
  forallb (fun ev => negb (configures ev (cid c))) h = true.
Proof.
  intros H Hc. unfold no_config_b in H. rewrite forallb_forall in H. apply forallb_forall. intros ev Hev.
  specialize (H ev Hev). rewrite forallb_forall in H. apply (H c Hc).
Qed.

Lemma dview_define rk ck an origs stmt g :
  dview origs (step rk ck an g (Define stmt)) = dview origs g.
Proof.
  unfold dview, default_of. cbn [step]. rewrite (proj2 (defines_other rk stmt g)). reflexivity.
Qed.

(* ====================================================================== D. the property *)

Theorem independent rk ck an origs : forall h stmt,
  consistent_b (cdefs_of h) = true ->
  no_collision_b rk (utypes_of h) = true ->
  kind_safe_for DepClassAndFlags ck = true ->
  defines_b h stmt = true ->
  no_config_b h stmt = true ->
  dview origs (run rk ck an h g0) = dview origs g0 ->
  beh ck an origs (run rk ck an h g0) stmt = beh ck an origs (run rk ck an [Define stmt] g0) stmt.
Proof.
  intros h stmt Hcons Hnc Hk Hdef Hcfg Hd.
  pose proof (consistent_b_sound _ Hcons) as HC.
  pose proof (no_collision_b_sound _ _ Hnc) as HN.
  pose proof (defines_b_sound _ _ Hdef) as Hin.
  assert (HW : forall c, In c (cdefs_of h) -> incl (cwraps c) (utypes_of h)).
  { intros c Hc u Hu. unfold utypes_of. apply in_flat_map. exists c. split; assumption. }
  assert (Hsub : incl (cdefs_of [Define stmt]) (cdefs_of h)).
  { cbn [cdefs_of]. rewrite app_nil_r. clear -Hin. induction h as [|ev t IH]; [destruct Hin|].
    rewrite cdefs_of_cons. intros x Hx. apply in_or_app. destruct Hin as [->|Hin].
    - left. cbn [cdefs_of]. rewrite app_nil_r. exact Hx.
    - right. apply IH; assumption. }
  unfold beh. f_equal.
  - apply map_ext_in. intros c Hc.
    rewrite (beh_class_char rk ck an (cdefs_of h) (utypes_of h) HC HW HN Hk h stmt c
               (fun x Hx => Hx) Hin Hc (no_config_b_class h stmt c Hcfg Hc)).
    rewrite (beh_class_char rk ck an (cdefs_of h) (utypes_of h) HC HW HN Hk [Define stmt] stmt c
               Hsub (or_introl eq_refl) Hc eq_refl).
    reflexivity.
  - rewrite Hd. unfold run. cbn [fold_left]. rewrite dview_define. reflexivity.
Qed.

(* with an identity-keyed registry there is nothing to collide: distinct classes have distinct identities *)
Lemma identity_never_collides rk us : registry_kind_injective rk = true ->
  (forall u u', In u us -> In u' us -> fst u = fst u' -> u = u') ->
  forall u u', In u us -> In u' us -> reg_key rk u = reg_key rk u' -> u = u'.
Proof.
  intros Hi Hid u u' Hu Hu' Hk. apply Hid; try assumption.
  destruct rk; try discriminate Hi; unfold reg_key, class_key in Hk; congruence.
Qed.

(* ---- the witness: two different user classes with one bare name *)
Definition wU0 : utype := (0%N, s2p "Foo"%string).
Definition wU1 : utype := (1%N, s2p "Foo"%string).
Definition wA : cdef := {| cid := 0; cname := s2p "A"%string; cbody := 10; cwraps := [wU0]; cnsref := 0; cfast := false |}.
Definition wB : cdef := {| cid := 1; cname := s2p "B"%string; cbody := 11; cwraps := [wU1]; cnsref := 0; cfast := false |}.
Definition w_history : list event := [Define [wA]; Define [wB]].
Definition std_an (e : rentry) (fl : N) : N := (snd (fst e) * 16 + fl)%N.

Theorem witness_registry rk ck origs : registry_kind_injective rk = false ->
  consistent_b (cdefs_of w_history) = true /\ defines_b w_history [wB] = true /\
  no_config_b w_history [wB] = true /\
  beh ck std_an origs (run rk ck std_an w_history g0) [wB] <>
  beh ck std_an origs (run rk ck std_an [Define [wB]] g0) [wB].
Proof.
  intro H. repeat split; try (vm_compute; reflexivity).
  destruct rk; try discriminate H; destruct ck; vm_compute; intro E; inversion E.
Qed.

(* ---- the counter names inline classes and nothing else reads it *)
Definition with_counter (g : genv) (n : N) : genv :=
  {| registry := registry g; classes := classes g; cache := cache g; installed := installed g;
     counter := n; defaults := defaults g |}.

Theorem counter_hidden ck an origs g n stmt : beh ck an origs (with_counter g n) stmt = beh ck an origs g stmt.
Proof. reflexivity. Qed.

Lemma define1_counter rk g n c : define1 rk (with_counter g n) c =
                                 with_counter (define1 rk g c) (counter (define1 rk (with_counter g n) c)).
Proof.
  unfold define1. cbn [with_counter classes registry]. destruct (nlookup (classes g) (cid c)); [reflexivity|].
  destruct (resolve_all rk (registry g) (cwraps c)). reflexivity.
Qed.
