#!/usr/bin/env python3
"""Writes MANIFEST.json from the table below (kept as code so that the file stays valid)."""
import json

CHECKS = {
    "C17": dict(
        text="Coq theorems (Props/C17.v, closed under the global context) over all documents, version histories "
             "of any length and all split points of an executable model of convert_dict/_convert/deep_get; the model "
             "is tied to typedpy by differential correspondence evaluated inside Coq (vm_compute) on generated histories, "
             "and the statement's clauses are evaluated on the implementation to find replays.",
        design="DESIGN.md §6 C17",
        note="Trusted: Coq kernel + vm_compute; hand-written model Ser/Versioned.v (validated by correspondence, not derived); "
             "FunctionCall functions assumed pure; harness generators/reifier; CPython.",
        technique="Coq proof (induction over version history) + model/implementation correspondence in vm_compute"),
}

CHECKS["C02"] = dict(
    text="Coq theorem C02_agree (Props/C02.v, closed under the global context): for EVERY declaration of the modelled "
         "field vocabulary (any nesting, by structural induction with the strong induction principle) and every value in "
         "the statement's domain, the code-shaped model of the __set__ chains accepts exactly when the documented rules "
         "(Fields/Doc.v, transcribed from the docstrings) do, with the same normal form, and every rejection is a "
         "TypeError/ValueError. The model is tied to typedpy by differential correspondence evaluated in Coq, and the "
         "documented rules are evaluated on the implementation's observed behaviour to find replays.",
    design="DESIGN.md §6 C02",
    note="Trusted: Coq kernel + vm_compute; hand-written model Fields/SetChain.v and spec Fields/Doc.v; re.match as an oracle; "
         "float(int) exact only for |z|<=2^53; Decimal/date fields, StructureReference, EnumString not yet in the model.",
    technique="Coq proof (structural induction over field declarations) + model/implementation correspondence in vm_compute")

CHECKS["C19"] = dict(
    text="PARTIAL. Coq theorems (Props/C19.v, closed under the global context) over a store model with sharing: for every "
         "operation whose effect summary is copy-only, the call leaves every caller-reachable object unchanged and no later "
         "sequence of client mutations of arguments or results changes the instance's abstract state (induction over action "
         "and mutation lists); a constructed witness per unsafe effect kind. The effect kind of each copy/alias site is "
         "regenerated from the AST of /repo on every run (Gen/AliasSites.v); the effect observed on the real implementation "
         "(deep snapshots of all arguments, mutation of every returned/argument container, instance/class fingerprints) is "
         "compared in Coq with the effect predicted from the generated sites, and the property's clauses are evaluated on "
         "the observations. The proof covers the aliasing logic; the generated sites and the differential cover the code.",
    design="DESIGN.md §6 C19, §12",
    note="Trusted: Coq kernel + vm_compute; site recognisers in harness/aliasgen.py (fail closed to UnknownEff); store model "
         "Struct/Alias.v; harness snapshots/fingerprints; CPython. Untyped Array/Map/Anything content is outside the claim.",
    technique="Coq proof (noninterference over a store model, induction over mutation histories) + generated effect sites + "
              "model/implementation correspondence in vm_compute")


def _c(pid, text, note, technique, design=None):
    CHECKS[pid] = dict(text=text, design=design or ("DESIGN.md §6 %s, §12" % pid), note=note, technique=technique)


_c("C03",
   "Coq theorems (Props/C03.v, closed under the global context) about the executable model of Structure.__setattr__, "
   "__delitem__ and the wrapper mutators (Struct/Instance.v, Struct/Mutate.v), whose per-mutator shapes are regenerated from "
   "collections_impl.py and introspection of list/dict/deque on every run (Gen/Tables.v): an exact characterisation of the "
   "steps that are validated and failure-atomic (C03_step_safe, C03_setattr_exact, C03_delitem_exact, parametric in the "
   "table), its lift to histories of any length by induction (C03_history, C03_failed_steps_stutter), and a constructed "
   "violating (class, state, op) for every unsafe table entry (C03_witness) plus C03_refuted for the full statement, which is "
   "false of the faithful model on the pinned tree. The model's mstep is compared with typedpy on generated histories inside "
   "Coq, and the property's clauses (snapshot unchanged on raise, allowed exception class, struct_ok after success) are "
   "evaluated on every observed step to produce replays.",
   "Trusted: Coq kernel + vm_compute; hand-written Instance.v/Mutate.v; shape recogniser harness/gen.py (fail closed); CPython's "
   "base-container result used as the oracle of a wrapper op; nested containers and DateString checked on the implementation only.",
   "Coq proof (invariant by induction over operation histories, characterisation parametric in generated tables) + "
   "model/implementation correspondence in vm_compute")
_c("C05",
   "Coq theorems (Props/C05.v, closed under the global context): for every canonical valid instance of the proved fragment "
   "(Number/Integer/Float/String/Boolean with any constraints, Enum by literals / by name / by value, Array/Deque of items, "
   "Map with scalar keys, nested structures to any depth, with _ignore_none, _additional_properties, defaults, hooks) the model "
   "serializer returns pure JSON (C05_pure) and the model deserializer returns exactly the instance (C05_roundtrip; induction on "
   "fuel, field_ind' on declarations, Forall on values), falsy values included (C05_falsy); the full statement is refuted by the "
   "required-field-holding-None witness. AnyOf/Set/Tuple/positional items/Anything/date fields are in the executable model and the "
   "correspondence but not in the theorems. Model ser/deser are compared with Serializer/Deserializer inside Coq and the clauses "
   "(json.dumps accepts, only JSON types, deserialize(serialize(x)) == x, lossy fixpoint) are evaluated on the implementation.",
   "Trusted: Coq kernel + vm_compute; hand-written Ser/Serialize.v, Ser/Deserialize.v; date formats as measured oracle (RT); "
   "harness/sergen.py generator and reifier; CPython json.",
   "Coq proof (round-trip by mutual structural induction) + model/implementation correspondence in vm_compute")
_c("C06",
   "PARTIAL. Coq theorems (Props/C06.v, closed under the global context) for the extra-key clause: the exhaustive case analysis of "
   "additional-properties x keep_undefined x ignore_invalid_additional_properties (C06_extra_keys_dropped / _rejected / _cases, "
   "C06_keep_undefined_adjustment) over the executable model of the deserializer. The agreement clause (deserialize d == "
   "constructor on the documented reading of d) is NOT proved: the independently written documented reading (Ser/DocReading.v) and "
   "the model deserializer are both evaluated in Coq on every generated document (images, single-point corruptions, non-object "
   "documents, both flags) and compared with the real Deserializer and with cls(**lift(d)).",
   "Trusted: Coq kernel + vm_compute; Ser/Deserialize.v, Ser/DocReading.v hand-written; generator harness/sergen.py; CPython. "
   "C06_agree / C06_error_class are decided by the differential only.",
   "Coq proof (case analysis of the extra-key policy) + executable documented-reading spec and model/implementation "
   "correspondence in vm_compute")
_c("C07",
   "Coq theorems (Props/C07.v, closed under the global context) over the executable model of mapper aggregation (Ser/Mappers.v): "
   "for any mapper list the aggregated mapper equals the declarative left-to-right rename chain (C07_agg_is_chain, induction over "
   "the list; hypothesis chain_ok characterises the code's same-entry shortcut), nested ._mapper entries (C07_nested_mapper), the "
   "serialized key set at a level is exactly the image of the populated non-dropped fields (C07_keys_exact, _nested), DoNotSerialize "
   "fields absent, collisions only via the mapper, the lookup half of the round trip (C07_roundtrip_lookup_partial), wrapper "
   "construction rejects non-field keys; refutation witnesses where the full statement is false of the faithful model. Aggregated "
   "dicts, documents and deserializations are compared with typedpy inside Coq on all mapper assignments of depth <= 3.",
   "Trusted: Coq kernel + vm_compute; Ser/Mappers.v hand-written (single inheritance, Integer fields, identity value serialization); "
   "harness generator; CPython. Full round trip composed with deser_struct is covered by the correspondence and real ==.",
   "Coq proof (induction over mapper chains and nesting) + model/implementation correspondence in vm_compute")
_c("C09",
   "Coq theorems (Props/C09.v, closed under the global context): a model of Python's string-literal lexer and of each quoting "
   "discipline; for ALL strings, a literal emitted under discipline q lexes back to the string iff quote_ok q s (C09_lex_roundtrip, "
   "C09_lex_break: exact characterisation by induction over the string), repr is total (C09_repr_total), the unsafe character sets "
   "of the raw disciplines, and their lift to whole generated classes (C09_relex). The discipline of every emission site is "
   "regenerated from the AST of json_schema_mapping.py on every run (Gen/EmitSites.v): Repr sites are safe for all strings, every "
   "other site has a constructed witness (C09_sites, C09_sites_witness). The back-mapping and equivalence clauses are NOT proved; "
   "they are evaluated on the implementation (compile/exec, structure_to_schema round trip, independent Draft4Validator).",
   "Trusted: Coq kernel + vm_compute; lexer model Schema/PyLiteral.v validated against tokenize/literal_eval; site recogniser in "
   "harness/genmods/emit_sites.py (fail closed); jsonschema in python3-vt; CPython compile().",
   "Coq proof (lexer round-trip characterisation by induction over strings, parametric in generated emission sites) + "
   "model/implementation correspondence in vm_compute")
_c("C12",
   "Coq theorems (Props/C12.v, closed under the global context) over an executable model of StructMeta.__new__ (Struct/Define.v) "
   "and of the derivation operators followed by the same define (Struct/Derive.v): exact field sets and required sets per "
   "operator (C12_fields, C12_required, C12_required_general), never a subclass, retained members are the source's field objects "
   "(same vset, immutability, default), compositions of ANY length are the fold of the documented set operations (C12_compose, "
   "induction over the operator list), bad names raise TypeError, the source and the rest of the environment are unchanged. "
   "Class statements and derivations are run on typedpy and compared step by step inside Coq; documented sets, issubclass and "
   "source-vs-derived accept/reject/normal form are evaluated on the implementation.",
   "Trusted: Coq kernel + vm_compute; Define.v/Derive.v hand-written; harness/defgen.py; CPython metaclass protocol.",
   "Coq proof (induction over operator chains on a model of class definition) + model/implementation correspondence in vm_compute")
_c("C14",
   "Coq theorems (Props/C14.v, closed under the global context) over the same class-definition model: a subclass has every field "
   "of every base at any depth and with multiple bases (C14_fields_mono, induction over descends; invariant of every environment "
   "reachable by class statements), required-ness is monotone where the bases agree (C14_required_mono; unconditional statement "
   "refuted by a multi-base witness), unredeclared names resolve to the bases' member, one lemma per listed definition fault "
   "showing define raises (C14_fault_*), AbstractStructure. Hierarchies to depth 4 with mixins and every single-fault variant "
   "are run on typedpy and compared with the model inside Coq.",
   "Trusted: as C12. No totality theorem (valid statements define successfully): checked by correspondence.",
   "Coq proof (induction over class hierarchies, per-fault lemmas) + model/implementation correspondence in vm_compute")
_c("C16",
   "PARTIAL. Coq theorems (Props/C16.v, closed under the global context) over models of make_signature (Stubs/Signature.v) and of "
   "the stub generator at the level of (name, has-default, kind) (Stubs/StubModel.v), for hierarchies of any depth by induction: "
   "stub keywords = runtime parameters minus constants, no default iff required (under def_ok/tok_safe; unconditional statement "
   "refuted), ** iff additional properties (under kw_safe; refuted otherwise), helper methods carry the same keywords, no mandatory "
   "parameter after an optional one, determinism. That the text parses, every class is declared, enum names are kept and output is "
   "byte-identical across PYTHONHASHSEED values are runtime facts decided by the harness (real create_stub_for_file in "
   "subprocesses, ast.parse/compile, inspect.signature, constructor probes), not by the theorems.",
   "Trusted: Coq kernel + vm_compute; Signature.v/StubModel.v hand-written (single Structure inheritance); harness/c16_runner.py; CPython.",
   "Coq proof (induction over hierarchies on a model of signature and stub generation) + model/implementation correspondence in vm_compute")

_c("C20",
   "PARTIAL. Coq theorems (Props/C20.v, closed under the global context) over a model in which a thread is a list of atomic "
   "read/write actions on shared cells and interleavings are the inductive shuffle of any number of threads (any number of "
   "pre-emptions): if no cell written by one thread is accessed by another, every thread observes under EVERY interleaving what "
   "it observes alone (C20_private_safe, induction over the shuffle); the same when all writes to a cell store one constant "
   "written before it is read (C20_idempotent_write_safe); a write .. re-read pattern with a foreign write possible in between "
   "has a constructed schedule whose observation occurs in no sequential order (C20_witness, C20_find_race_sound). The ordered "
   "accesses of every collection validator to attributes of shared Field objects are regenerated from the AST on every run "
   "(Gen/SharedAccess.v), cross-checked dynamically by instrumenting Field.__setattr__, and classified by these theorems; a "
   "deterministic scheduler (real threads under sys.settrace) explores all schedules with <= 2 (thorough 3) pre-emptions at the "
   "table's lines over every field kind and compares each thread's outcome with its sequential outcome; model traces are "
   "compared with real traces inside Coq. Atomicity grain is the source line.",
   "Trusted: Coq kernel + vm_compute; access-list recogniser harness/genmods/shared_access.py (fail closed); harness/sched.py; "
   "CPython threading/settrace; pre-emption only at source lines named by the table and the mapper-cache lines.",
   "Coq proof (all interleavings by induction over the shuffle relation, witness construction) + generated access lists + "
   "deterministic schedule exploration and trace correspondence in vm_compute")

_c("C13",
   "Coq theorems (Props/C13.v, closed under the global context) over an executable model of the annotation/assignment conversion "
   "(Struct/Spelling.v: add_annotations_to_class_dict, get_typing_lib_info, FieldMeta/_CollectionMeta.__getitem__, |) that uses the "
   "builtin->Field table regenerated from convert_basic_types on every run (Gen/TypeMapping.v): the inductively generated congruence "
   "sp_eq of the property's spelling pairs (19 rules, any nesting) implies convert s1 = convert s2 (C13_equiv, mutual induction on "
   "derivations), hence identical vset for every value and identical result of any observer such as serialization (C13_behaviour, "
   "C13_observer); declaration forms (annotation vs assignment, '=' vs default= for truthy defaults, Optional vs _optional) give equal "
   "field, default and required-ness (C13_decl, C13_class); the falsy-default clause is refuted by witness (F12). Every semantic field "
   "is rendered in all its spellings, realised in module files with and without 'from __future__ import annotations', and compared on "
   "field sets, required sets, accept/reject/exception class/normal form/serialization; reified real Field objects are compared with "
   "the model's convert inside Coq.",
   "Trusted: Coq kernel + vm_compute; Spelling.v hand-written; table extractor harness/genmods/type_mapping.py (raises on anything "
   "unrecognised); typing's own Union flattening is CPython's; frame-inspection glue exercised by the harness only.",
   "Coq proof (congruence of spellings by mutual induction on derivations, parametric in the generated type table) + "
   "model/implementation correspondence in vm_compute")

_c("C01",
   "Coq theorems (Props/C01.v, closed under the global context) over the executable model of the validating entry points "
   "(Struct/Instance.v construct/clone_with/cast_to/from_other, Struct/Entry.v: keyword construction, deserialization as construct on "
   "the lifted document, from_other_class, shallow_clone_with_overrides, cast_to, wrapping, copy/deepcopy/pickle): vset soundness "
   "for every declaration by structural induction (C01_vset_sound: an accepted stable value's stored normal form is accepted by the "
   "documented rules docb, which are written independently of vset), construct soundness (required present, every stored value "
   "conforms, no undeclared attribute unless allowed, hook accepts), every single entry point, and chains of ANY length by induction "
   "(C01_chain_sound, C01_chain_deep_sound for nested instances); the unconditional field statement is refuted by the "
   "normalisation-collision witness. Each step of generated chains of 1-4 real entry points is run on typedpy; the reified instance is "
   "judged by the independent spec (inst_ok, deep_valid) and compared with the model's run_entry inside Coq.",
   "Trusted: Coq kernel + vm_compute; Instance.v/Entry.v hand-written; copy/deepcopy/pickle value-preserving in the model (compared up to "
   "==); deserialization pre-processing compared on flat documents only; StructureReference, date/time fields, constants not generated.",
   "Coq proof (structural induction over declarations, induction over entry-point chains) + model/implementation correspondence in vm_compute")
_c("C15",
   "Coq theorems (Props/C15.v, closed under the global context) over a model of typedpy's process-wide tables (Global/History.v: "
   "implicit-wrapper registry, class objects, memo tables, installed serializers, counter, defaults) whose key kinds are regenerated "
   "from the AST on every run (Gen/Globals.v): a memo table whose key determines the function is unobservable under ANY history of "
   "lookups/insertions (C15_cache_transparent, induction over the history; C15_generated_caches_safe re-checks today's key kinds), a "
   "coarser key is observable (witness), and for every history without registry-key collision a class's behaviour equals that of the "
   "class defined alone (C15_independent, invariant: every table entry is correct for its key); a name-keyed registry has a "
   "constructed refuting history (C15_witness_registry). Each generated history is run in one process and every class's behaviour "
   "fingerprint (construct, 5 serialization modes, 3 deserialization modes, trusted path, schema, str) is compared with the class "
   "alone in a fresh interpreter; the model's verdict is compared inside Coq.",
   "Trusted: Coq kernel + vm_compute; History.v hand-written, beh abstract; key-kind recogniser harness/genmods/globals_tables.py (fail "
   "closed); harness/c15_worker.py; forked-child == fresh interpreter sampled each run. In-place edits of class attributes are not in the model.",
   "Coq proof (cache transparency and independence by induction over histories, parametric in generated key kinds) + differential "
   "against fresh interpreters and model correspondence in vm_compute")
_c("C18",
   "Coq theorems (Props/C18.v, closed under the global context): every raise site of typedpy/fields, structures.py and serialization.py is "
   "regenerated as a message template on every run (Gen/Templates.v, 116 sites); the three regular expressions of errors.py are "
   "transcribed as parsers with their exact character classes; for every generated template of a scalar / collection-of-scalar site "
   "(finite forallb lifted), ALL identifier class and field names, ALL element suffixes and ALL value texts without newline, parsing "
   "the rendered message yields the field path and a non-empty problem (C18_template_ok, induction over strings; all_templates_ok is "
   "re-checked by the kernel against today's messages); collect-all reports exactly the invalid bound arguments, once each, in order; "
   "fail-fast reports the first; the helper is total; the deserialization collect-all clause is characterised and refuted (F19). Real "
   "str(exception), ErrorInfo, construction and deserialization outcomes are compared with the model inside Coq.",
   "Trusted: Coq kernel + vm_compute; Render.v/Parse.v/Collect.v hand-written; template extractor harness/genmods/templates.py (fails "
   "closed to Other); json encode/decode as oracle; ASCII identifiers.",
   "Coq proof (parser/renderer round trip by induction over strings, parametric in generated message templates; induction over "
   "bound arguments) + model/implementation correspondence in vm_compute")

_c("C10",
   "PARTIAL. Coq theorems (Props/C10.v, closed under the global context) over executable models of the trusted-deserialization "
   "classifier and mapping (Ser/Trusted.v), of the fast serializer (Ser/Fast.v) and of the per-class serializer STATE "
   "(Ser/FastState.v: which function K.serialize is after any sequence of class definitions with inheritance, "
   "create_serializer calls with any flags, instantiations / from_trusted_data and serializations; late binding of class "
   "references, the first-use caches of Array/Set.serialize, the compact wrapper). Trusted side: on the flat fragment "
   "(primitive fields, document in vset normal form under the fields' own names) the trusted path returns exactly the regular "
   "path's instance (C10_trusted_partial, induction over the field list); for an ineligible class the flag changes nothing "
   "(C10_ineligible); from_trusted_data equals construct when every value is a fixpoint of its vset chain (C10_from_trusted). "
   "Fast side: per field, fast = regular on every declaration built from leaves, Array and Set (C10_fast_value_partial); per "
   "class, for every safe class environment (nested classes, Array/Set/Optional of leaves and of classes, simple mappers, no "
   "TO_CAMELCASE on a class that nests others, no Decimal/NoneField leaves, no defaults) and every instance listed in "
   "declaration order the order-free fast document is the regular document (C10_fast_class, induction on nesting depth, field "
   "list and field type); over histories: a class whose constructor has returned keeps a serializer of its own through every "
   "later operation (C10_fast_instantiated_keeps_serializer, invariant over op sequences), in every state where the reachable "
   "classes have their own serializers and the Array/Set caches are current the installed closure returns the order-free "
   "document (C10_fast_state_independent, simulation by induction on depth), hence for EVERY order of create_serializer calls "
   "and instantiations followed by any serializations the documents depend only on the flags each class ended up with "
   "(C10_fast_settled_history) and, with default flags, equal the regular documents (C10_fast_history). The full statement is a "
   "Definition with refutation witnesses (it is false of the pinned tree: F18, AnyOf[None,T], unsupported mappers, Boolean "
   "strings, compact conditions, serializer frozen by an early Array.serialize, subclass instance in a base-class field). "
   "Everything else - Optional/Enum/SerializableField leaves and mappers on the trusted side, serialize_none/compact flags, "
   "unsafe declarations - is decided by the differential: the model's eligible / deser_regular / deser_trusted / construct / "
   "from_trusted / create_serializer / fast_ser / run_ops (state machine, op by op) / ser_regular are compared with typedpy inside "
   "Coq, and real == and equal Serializer output between the two paths, and x.serialize() / Serializer(x).serialize() against "
   "Serializer(twin).serialize(), are evaluated on every generated case (static classes, a complete lattice of short "
   "schedules over Parent/Child/Holder shapes, random families with inheritance and schedules).",
   "Trusted: Coq kernel + vm_compute; Trusted.v/Fast.v/FastState.v hand-written (validated by correspondence, not derived; "
   "nesting depth <= 3; single inheritance, at most one mapper per inheritance chain; user-defined serialize methods, "
   "_failed_serializer_creation and nested Array[Array[Class]] are outside the state model); date/Decimal (de)serialization "
   "and Map/Tuple/Anything/OneOf kinds as per-case oracles (C10_fast_class assumes a SerializableField never serializes to "
   "None); instances are compared as dicts (attribute order is fixed to declaration order in C10_fast_class); "
   "harness/c10gen.py, harness/c10hist.py; CPython.",
   "Coq proof (path equality on the characterised safe fragment by induction; invariants and a simulation over operation "
   "histories of the serializer state machine; refutation witnesses) + model/implementation correspondence in vm_compute")
_c("C11",
   "Coq theorems (Props/C11.v, closed under the global context) over the value universe and an executable model of Structure.__eq__, "
   "__str__ and __hash__ (Struct/EqHash.v; hash = an uninterpreted function of the string): Python == on model values is reflexive, "
   "symmetric and transitive across int/float/bool/Decimal, sets and dicts compared order-free (C11_value_equivalence, strong induction "
   "with a pigeonhole lemma, duplicate-free containers as explicit hypothesis), instance equality likewise and iff field-wise equality "
   "of the values read back (C11_equivalence, C11_eq_fieldwise); for canonical spellings equal instances have the same string hence "
   "hash (C11_hash_char); copy/deepcopy equal with the same string, pickle under pickle_safe (C11_copy_eq); the unconditional "
   "eq=>hash and pickle statements are Definitions refuted by witnesses (insertion order, numeric spelling, set vs frozenset, None vs "
   "absent, lost internal state). inst_eq / inst_str / hash equality are compared with real ==, str, hash inside Coq on generated "
   "pairs and triples; copies and their independence under mutation histories are checked on the implementation.",
   "Trusted: Coq kernel + vm_compute; EqHash.v hand-written; number/str/enum repr and str hash as Section-variable oracles; deepcopy is "
   "the identity in the value model (independence is decided on the implementation only).",
   "Coq proof (equivalence-relation and hash-coherence theorems by strong induction over values) + model/implementation "
   "correspondence in vm_compute")

_c("C04",
   "Coq theorems (Props/C04.v, closed under the global context) over a capability model (Struct/Handles.v): the world is the internal "
   "object tree of the instance plus the handles the client holds (Detached copy | Guarded wrapper | Live alias); what every "
   "introspected accessor hands out and what every introspected mutator of list/dict/deque/set does is COMPUTED from tables "
   "regenerated on every run (override shapes of mutators and accessors, the four immutable-type tuples and their deepcopy flags, "
   "structural flags: Gen/Tables.v, Gen/TablesC04.v). If the tables are guard-shaped, then for EVERY finite sequence of client "
   "operations (setattr/delattr/delitem/read/accessor/mutator/constructor-argument mutation/unpickle) the abstract state never changes "
   "and the client never obtains a Live handle (C04_invariant, C04_invariant_tables: induction over the op list with an invariant); "
   "every unguarded entry or unsafe flag has a constructed state-changing run (C04_witness_*); constructor arguments are detached "
   "under the deep-copy shape of __setattr__ (C04_ctor_args); a class statement with an ImmutableStructure/FinalStructure/"
   "ImmutableField base raises for all hierarchies (C04_no_subclass); the full statement is refuted on today's tables. The model's "
   "handle kinds and effects are compared with typedpy inside Coq on every immutable class shape (quick: nesting <= 1 plus a sample "
   "at 2-3; thorough: all 2038 shapes exhaustively) and the property is evaluated directly by observable snapshots.",
   "Trusted: Coq kernel + vm_compute; Handles.v hand-written (one field per class, two items per container); table recognisers in "
   "harness/gen.py and harness/genmods/c04tables.py (fail closed); two facts read off the running library rather than the AST "
   "(nested wrapper binding, unpickle keeps _instantiated); copy/deepcopy/pickle of handles probed by the harness only.",
   "Coq proof (capability invariant by induction over operation sequences, parametric in generated accessor/mutator tables) + "
   "model/implementation correspondence in vm_compute")
_c("C08",
   "PARTIAL. Coq theorems (Props/C08.v, closed under the global context) over a model of the draft-4 fragment (Schema/Draft4.v: syntax, "
   "fuelled semantics valid4, well-formedness wf4) and of structure_to_schema's per-field mappers with the dialect translation "
   "(Schema/ToSchema.v): for every field declaration free of the characterised defects the exported schema is well formed and its refs "
   "resolve (C08_wf, field_ind' over all constructors), and for every declaration of the completeness fragment (numbers with bounds/"
   "multiplesOf/signs, strings, booleans, enum classes, sized arrays, string-keyed maps, AnyOf/Optional over scalars, any nesting) the "
   "serialization of every value the documented rules accept validates against the export (C08_complete, C08_complete_vset: "
   "compiler-correctness style structural induction; only oracle assumption: re.match implies re.search); the unrestricted "
   "statements are Definitions with refutation witnesses. The class level (object form, renames, definitions closure), Set/Tuple/"
   "positional arrays/uniqueItems/AllOf/OneOf/Not/class references and the exactness clause are decided by the differential: model "
   "to_schema vs real structure_to_schema, model valid4 and wf vs the independent jsonschema Draft4Validator (python3-vt), real "
   "Serializer output validated against the real export, boundary documents on the exact sub-fragment vs the Deserializer.",
   "Trusted: Coq kernel + vm_compute; Draft4.v/ToSchema.v hand-written, validated against jsonschema 4.x; harness/c08_vt_worker.py; "
   "valid4 is fuelled (theorems carry fdepth f <= n).",
   "Coq proof (schema completeness by structural induction over field declarations against a formal draft-4 semantics) + "
   "model/implementation and model/independent-validator correspondence in vm_compute")

PENDING = {}

def main():
    props = [json.loads(l) for l in open("properties.jsonl")]
    checks = []
    na = []
    for p in props:
        pid = p["id"]
        if pid in CHECKS:
            c = CHECKS[pid]
            checks.append({
                "property_id": pid,
                "quick_cmd": f"./vcheck {pid} --tier quick",
                "thorough_cmd": f"./vcheck {pid} --tier thorough",
                "evidence_file": f"/verif/evidence/{pid}.json",
                "replay_cmd_template": "./vcheck replay {path}",
                "engine": "coq-model+correspondence",
                "level_claimed": {"category": "proof", "text": c["text"], "design_ref": c["design"]},
                "level_note": c["note"],
                "technique": c["technique"],
            })
        else:
            na.append({"property_id": pid, "reason": PENDING.get(pid, "check still being built in this round (builder in progress); see DESIGN.md §10 build order")})
    m = {
        "version": 1,
        "setup_cmd": "./vcheck setup",
        "hooks": {"guard": "TYPEDPY_VERIF", "enable": "no source hooks: all instrumentation is monkey-patching inside the harness process",
                  "baseline_off_cmd": "cd /repo && /venv/bin/python -m pytest -q -p no:cacheprovider --timeout=900",
                  "source_commits": [], "add_only": True},
        "engines": [{"name": "coq-model+correspondence", "path": "/verif/vcheck",
                     "serves_properties": [c["property_id"] for c in checks],
                     "kind_free_text": "Coq 8.16 development (coq/theories) + Python differential harness (harness/)"}],
        "checks": checks,
        "not_applicable": na,
        "notes": "One CLI: ./vcheck <ID> --tier quick|thorough ; ./vcheck replay <file>. VERIF_SEED honoured.",
    }
    json.dump(m, open("MANIFEST.json", "w"), indent=1)

main()
