#!/usr/bin/env python3
"""Writes MANIFEST.json from the table below (kept as code so that the file stays valid)."""
import json

CHECKS = {
    "C17": dict(
        text="Coq theorems (Props/C17.v, closed under the global context) over all documents, version histories "
             "of any length and all split points of an executable model of convert_dict/_convert/deep_get; the model "
             "is tied to typedpy by differential correspondence evaluated inside Coq (vm_compute) on generated histories, "
             "and the statement's clauses are evaluated on the implementation to find replays.",
        design="DESIGN.md §6 C17",
        note="Trusted: Coq kernel + vm_compute; hand-written model Ser/Versioned.v (validated by correspondence, not derived); "
             "FunctionCall functions assumed pure; harness generators/reifier; CPython.",
        technique="Coq proof (induction over version history) + model/implementation correspondence in vm_compute"),
}

CHECKS["C02"] = dict(
    text="Coq theorem C02_agree (Props/C02.v, closed under the global context): for EVERY declaration of the modelled "
         "field vocabulary (any nesting, by structural induction with the strong induction principle) and every value in "
         "the statement's domain, the code-shaped model of the __set__ chains accepts exactly when the documented rules "
         "(Fields/Doc.v, transcribed from the docstrings) do, with the same normal form, and every rejection is a "
         "TypeError/ValueError. The model is tied to typedpy by differential correspondence evaluated in Coq, and the "
         "documented rules are evaluated on the implementation's observed behaviour to find replays.",
    design="DESIGN.md §6 C02",
    note="Trusted: Coq kernel + vm_compute; hand-written model Fields/SetChain.v and spec Fields/Doc.v; re.match as an oracle; "
         "float(int) exact only for |z|<=2^53; Decimal/date fields, StructureReference, EnumString not yet in the model.",
    technique="Coq proof (structural induction over field declarations) + model/implementation correspondence in vm_compute")

CHECKS["C19"] = dict(
    text="PARTIAL. Coq theorems (Props/C19.v, closed under the global context) over a store model with sharing: for every "
         "operation whose effect summary is copy-only, the call leaves every caller-reachable object unchanged and no later "
         "sequence of client mutations of arguments or results changes the instance's abstract state (induction over action "
         "and mutation lists); a constructed witness per unsafe effect kind. The effect kind of each copy/alias site is "
         "regenerated from the AST of /repo on every run (Gen/AliasSites.v); the effect observed on the real implementation "
         "(deep snapshots of all arguments, mutation of every returned/argument container, instance/class fingerprints) is "
         "compared in Coq with the effect predicted from the generated sites, and the property's clauses are evaluated on "
         "the observations. The proof covers the aliasing logic; the generated sites and the differential cover the code.",
    design="DESIGN.md §6 C19, §12",
    note="Trusted: Coq kernel + vm_compute; site recognisers in harness/aliasgen.py (fail closed to UnknownEff); store model "
         "Struct/Alias.v; harness snapshots/fingerprints; CPython. Untyped Array/Map/Anything content is outside the claim.",
    technique="Coq proof (noninterference over a store model, induction over mutation histories) + generated effect sites + "
              "model/implementation correspondence in vm_compute")

PENDING = {}

def main():
    props = [json.loads(l) for l in open("properties.jsonl")]
    checks = []
    na = []
    for p in props:
        pid = p["id"]
        if pid in CHECKS:
            c = CHECKS[pid]
            checks.append({
                "property_id": pid,
                "quick_cmd": f"./vcheck {pid} --tier quick",
                "thorough_cmd": f"./vcheck {pid} --tier thorough",
                "evidence_file": f"/verif/evidence/{pid}.json",
                "replay_cmd_template": "./vcheck replay {path}",
                "engine": "coq-model+correspondence",
                "level_claimed": {"category": "proof", "text": c["text"], "design_ref": c["design"]},
                "level_note": c["note"],
                "technique": c["technique"],
            })
        else:
            na.append({"property_id": pid, "reason": PENDING.get(pid, "check still being built in this round (builder in progress); see DESIGN.md §10 build order")})
    m = {
        "version": 1,
        "setup_cmd": "./vcheck setup",
        "hooks": {"guard": "TYPEDPY_VERIF", "enable": "no source hooks: all instrumentation is monkey-patching inside the harness process",
                  "baseline_off_cmd": "cd /repo && /venv/bin/python -m pytest -q -p no:cacheprovider --timeout=900",
                  "source_commits": [], "add_only": True},
        "engines": [{"name": "coq-model+correspondence", "path": "/verif/vcheck",
                     "serves_properties": [c["property_id"] for c in checks],
                     "kind_free_text": "Coq 8.16 development (coq/theories) + Python differential harness (harness/)"}],
        "checks": checks,
        "not_applicable": na,
        "notes": "One CLI: ./vcheck <ID> --tier quick|thorough ; ./vcheck replay <file>. VERIF_SEED honoured.",
    }
    json.dump(m, open("MANIFEST.json", "w"), indent=1)

main()
