#!/usr/bin/env python3
"""Writes MANIFEST.json from the table below (kept as code so that the file stays valid)."""
import json

CHECKS = {
    "C17": dict(
        text="Coq theorems (Props/C17.v, closed under the global context). (1) Over an executable model of "
             "convert_dict/_convert/deep_get, for all documents, version histories of any length, all start versions and all "
             "split points, any family of pure user functions, and any setting of the four integer literals of convert_dict "
             "that passes cd_params_ok: exact-suffix application, result version, two-stage composition, latest = identity. "
             "(2) Over a model of deserialize_structure_internal for a Versioned class (prelude, kept non-field keys, "
             "construct_fields_map, the direct_trusted_mapping branch, Versioned.__init__ + constructor; fields that pass "
             "values through; entry points Deserializer.deserialize / deserialize_structure; every keep_undefined / "
             "_additional_properties / ignore-invalid setting), parametric in the table of read sites: if every read of a "
             "document variable after the prelude is of the converted document, then deserializing an older document equals "
             "deserializing its conversion, the instance carries the latest version, and no attribute of the instance comes "
             "from anywhere but the converted document; witnesses (..._refuted) for a table entry that reads the caller's "
             "document and for a constructor that only fills in a missing version. The integer literals of convert_dict, "
             "the shape of Versioned.__init__, the Versioned prelude and EVERY read site of a document variable in "
             "deserialize_structure_internal are re-read from /repo's AST on every run (Gen/VersionedShape.v); lemmas "
             "gen_*_ok check them by computation and the C17_src_* theorems are the instances at the current tables. Both "
             "models, instantiated at the generated tables, are compared with typedpy inside Coq (vm_compute) on a corpus, a "
             "deterministic lattice (every single / ordered pair of mapping-entry kinds) and seeded random histories. The "
             "statement's clauses are evaluated on the implementation: convert_dict (version, composition through every "
             "prefix, fixpoint, inputs and mapping objects intact by deep snapshot, user functions of exactly the pending "
             "mappings run once each in order), and deserialization of Versioned classes whose fields are a random subset of "
             "the latest keys (typed/untyped, trusted-eligible or not, _additional_properties unset/True/False) through 7 "
             "entry points (Deserializer, deserialize_structure, nested field, Array, Map, Optional, subclass inheriting the "
             "history) x keep_undefined x direct_trusted_mapping x camel_case_convert, old document vs its conversion "
             "(outcome, exception class, ==, public attribute state incl. extra attributes), plus 8 ways of building a new "
             "instance.",
        design="DESIGN.md §6 C17, §12",
        note="Trusted: Coq kernel + vm_compute; hand-written models Ser/Versioned.v, Ser/VersionedDeser.v (validated by "
             "correspondence, not derived); recognisers in harness/genmods/versioned_shape.py (fail closed: an unrecognised "
             "shape breaks gen_*_ok); FunctionCall functions assumed pure; harness generators/reifier; CPython. 'Inputs not "
             "modified' is trivial in the pure model and is decided on the implementation by deep snapshots. Typed fields "
             "that transform values, nested/Array/Map/Optional entry points and camel_case_convert are outside the "
             "deserialization model and decided on the implementation only. Theorems assume no top-level mapping entry "
             "names the key 'version' and an int version >= 1.",
        technique="Coq proof (induction over version history; characterisation parametric in tables generated from the "
                  "source) + model/implementation correspondence in vm_compute + spec clauses on observed behaviour"),
}

CHECKS["C02"] = dict(
    text="Coq theorem C02_agree (Props/C02.v, closed under the global context): for EVERY declaration of the modelled "
         "field vocabulary (any nesting, by structural induction with the strong induction principle) and every value in "
         "the statement's domain, the code-shaped model of the __set__ chains accepts exactly when the documented rules "
         "(Fields/Doc.v, transcribed from the docstrings) do, with the same normal form, and every rejection is a "
         "TypeError/ValueError. The model is tied to typedpy by differential correspondence evaluated in Coq, and the "
         "documented rules are evaluated on the implementation's observed behaviour to find replays. "
         "Two further models with their own theorems and streams: (a) Enum fields over enum classes WITH A MIX-IN TYPE "
         "(str/int mix-in, IntEnum, StrEnum; Fields/EnumMixin.v): C02_enum_mixin_agree / _error_class hold for every class, "
         "mix-in, declared subset and EVERY candidate (the ==/name confusions of a membership test by ==, former findings "
         "C02-mixin-eq-confusion, C02-mixin-name-confusion, are repaired in typedpy: a member is accepted by identity), "
         "and the translation of Enum._validate/__set__ "
         "regenerated from the source over that universe equals the model (C02_src_enum_mixin); (b) fields over ARBITRARY "
         "classes (Field[Foo], Array[Foo], ...; Fields/ClassField.v): by induction over the HISTORY of earlier declarations a "
         "declaration accepts exactly the instances of its own class whenever the registry key separates class objects "
         "(C02_classfield_agree), instantiated with the key generated from the current FieldMeta.__getitem__ "
         "(C02_src_classfield_today; a qualified-name key and a metaclass __eq__ are refuted). Both are exercised by "
         "deterministic lattices (class x declared subset x candidate x context; scenario x history x class x form x value) "
         "whose observed outcomes are judged by the documented rule and compared with the model inside Coq. "
         "uniqueItems is decided by == and never by hash (C02_unique_by_equality: uniq_check accepts exactly when no element is == "
         "to an earlier one); a deterministic stream offers element pairs that are equal but hash / print differently (Structure "
         "instances with equal content, 1 / 1.0 / True / Decimal(1), frozenset / set) and unequal pairs with equal hashes to every "
         "uniqueItems collection kind.",
    design="DESIGN.md §6 C02",
    note="Trusted: Coq kernel + vm_compute; hand-written model Fields/SetChain.v and spec Fields/Doc.v; re.match as an oracle; "
         "float(int) exact only for |z|<=2^53; Decimal/date fields, StructureReference, EnumString not yet in the model. "
         "The mix-in enum model and the arbitrary-class model are separate universes (Fields/EnumMixin.v, Fields/ClassField.v), not "
         "cases of vset: nesting of such fields is covered by the harness contexts (element extracted and judged by the same rule), "
         "not by a theorem; Flag enums, create_typed_field with a validate_func and bare class annotations are not modelled.",
    technique="Coq proof (structural induction over field declarations) + model/implementation correspondence in vm_compute")

CHECKS["C19"] = dict(
    text="PARTIAL. Coq theorems (Props/C19.v, closed under the global context). (1) Over a store model with sharing: for every "
         "operation whose effect summary is copy-only, the call leaves every caller-reachable object unchanged and no later "
         "sequence of client mutations of arguments or results changes the instance's abstract state (induction over action "
         "and mutation lists); a constructed witness per unsafe effect kind. (2) Over an executable model of typedpy's "
         "defensive-copy decisions (Struct/AliasIntake.v: Structure.__setattr__, Field.__set__, the ImmutableMixin copy and the "
         "wrappers' __init__, parametric in their isinstance tables), for EVERY owner kind, declared field type (any nesting) and "
         "shape of the argument value (tuples / frozensets / objects / wrappers holding mutable objects included): an "
         "ImmutableStructure and a field declared immutable share nothing with their arguments when the tables exempt only atomic "
         "types, every other table entry leaks on a constructed value, a mutable owner shares nothing through a fully typed "
         "field (induction over the declared type); the tables generated from the CURRENT source satisfy those hypotheses, so both "
         "safety statements hold of it outright (C19_immutable_structure_intake_safe_now, C19_immutable_field_intake_safe_now; "
         "Struct/AliasIntakeToday.v stops compiling when an exemption for a mutable type returns). The effect kind of each copy/alias site AND the isinstance tables / wrapper "
         "gates are regenerated from the AST of /repo on every run (Gen/AliasSites.v, Gen/AliasTables.v, module constants such as "
         "_immutable_types resolved); the effect observed on the real implementation (deep snapshots of all arguments, mutation "
         "of every returned/argument container -- below tuples, frozensets, objects, foreign wrappers and, for immutable owners, "
         "Structure instances --, instance/class fingerprints) is compared in Coq with the effect predicted from the generated "
         "facts for every (operation, owner kind, type, value shape), and the property's clauses are evaluated on the observations. "
         "Streams: random classes (plain / FastSerializable / ImmutableStructure / fields declared immutable), a deterministic "
         "lattice owner x untyped-position type x python kind of value, wrapper mutators (append, setitem, update, ...), DONORS (the live "
         "value of another instance's nested collection field handed to constructor / setattr / shallow_clone_with_overrides / cast_to / "
         "from_other_class / Deserializer / as inner element, same class and immutable twins, then inner elements updated through the "
         "donor's and the receiver's own mutators), failing "
         "construct/deserialize, Versioned deserialization, schema/code generation, derivation, convert_dict. The proofs cover the "
         "aliasing and copy-decision logic; the generated facts and the differential cover the code.",
    design="DESIGN.md §6 C19, §12",
    note="Trusted: Coq kernel + vm_compute; site / table recognisers in harness/aliasgen.py and harness/genmods/alias_tables.py "
         "(fail closed to UnknownEff / YUnknownTy); hand-written models Struct/Alias.v and Struct/AliasIntake.v (validated by "
         "correspondence, not derived); harness snapshots/fingerprints; CPython. The two models are not connected by a theorem "
         "(the store model has no immutable containers). Untyped Array/Map/Anything content of MUTABLE owners is outside the claim "
         "(checked against the model, never reported); getters (x.f, x.f[i]) are not operations of the property. Four open known "
         "findings (trusted deserialization, untyped ImmutableMap, foreign wrapper in an immutable owner, untyped content of a donor wrapper).",
    technique="Coq proof (noninterference over a store model, induction over mutation histories; characterisation of the "
              "defensive-copy tables by induction over field types) + generated effect sites and isinstance tables + "
              "model/implementation correspondence in vm_compute")


def _c(pid, text, note, technique, design=None):
    CHECKS[pid] = dict(text=text, design=design or ("DESIGN.md §6 %s, §12" % pid), note=note, technique=technique)


_c("C03",
   "Coq theorems (Props/C03.v, closed under the global context) about the executable model of Structure.__setattr__, "
   "__delitem__ and the wrapper mutators (Struct/Instance.v, Struct/Mutate.v, Struct/WrapBody.v). Two generated layers, rewritten "
   "from collections_impl.py and introspection of list/dict/deque on every run: Gen/Tables.v (which mutators exist / are "
   "overridden) and Gen/WrapBodies.v (every overriding method transliterated statement by statement); the shape of each method is "
   "decided IN COQ by classify on the translated body. Proved: for any body classified copy-mutate-reassign the statement-level "
   "execution (any number of base operations on the copy, trailing operations on the wrapper itself, base methods as oracles -- "
   "failing ones included -- live or stale handle) changes the instance exactly as the coarse step does (C03_body_sound, induction "
   "over the body), hence is validated and atomic (C03_body_step_good); an exact characterisation of the steps that are validated "
   "and failure-atomic (C03_step_safe, C03_setattr_exact, C03_delitem_exact, parametric in the table), failure atomicity of every "
   "step of safe shape with no condition on values or hooks (C03_failure_atomic: Structure.__setattr__ restores the previous entry "
   "when the descriptor chain raises, __delitem__ runs __validate__ and puts the entry back; both tied to the source by "
   "C03_src_setattr_is_model / C03_src_delitem_is_model), its lift to histories of "
   "any length by induction (C03_history, C03_failed_steps_stutter), witnesses: a constructed violating (class, state, op) for "
   "every unsafe table entry (C03_witness, strict_table_status), an in-place body exposes what a base method that fails half way "
   "leaves behind (C03_inplace_failure_exposes_partial), and C03_refuted for the statement over every conceivable mutator shape "
   "(refuted by a mutator that is not overridden; no entry of the current tables is of that shape). The explicit-None markers of `_enable_undefined_value` classes (instance._none_fields) are a second state component (Struct/NoneFields.v): Structure.__setattr__ is translated every run into the ordered list of its effects on (__dict__[key], _none_fields) (Gen/StructNoneFields.v), proved equal to the documented list (C03_src_setattr_none_fields) and all-or-nothing on both components (C03_src_setattr_atomic_on_both_components); the other order is refuted (C03_discard_before_handover_not_atomic); _none_fields is part of the state compared before/after every operation. The model's mstep is compared with typedpy inside Coq on generated histories (all introspected "
   "mutators; positional, keyword, slice, one-shot-iterator, failing-iterator and key-function arguments; `x.f += v` statement "
   "forms; re-read and re-used handles) and on enumerated streams (values Python's == cannot tell from the stored one through "
   "every entry point, a value lattice over multi-field wrappers, the same lattice on one instance after events on OTHER "
   "instances of the class (deepcopy, pickle, clone, trusted construction/assignment/deserialization, rejected operations: Field "
   "objects are shared), calls on which the base type's own method is not atomic), and the "
   "property's clauses (snapshot unchanged on raise, allowed exception class, struct_ok after success) are evaluated on every "
   "observed step to produce replays.",
   "Trusted: Coq kernel + vm_compute; hand-written Instance.v/Mutate.v/WrapBody.v; the statement transliterator "
   "harness/genmods/wrapbodies.py and the override finder harness/gen.py (both fail closed: SOther / Unrecognised); that "
   "Array/Deque/Map.__set__ stores a NEW wrapper (assumed by WrapBody.reassign, exercised by the correspondence); CPython's "
   "base-container result used as the oracle of a wrapper op; nested containers (F5), every exported Field class beyond the modelled "
   "vocabulary (DateString, HostName, ...) and a __validate__ hook that reads container sizes are checked on the implementation only.",
   "Coq proof (invariant by induction over operation histories; refinement of the statement-level wrapper model to the coarse "
   "step by induction over the translated method body; characterisation parametric in generated tables) + "
   "model/implementation correspondence in vm_compute")
_c("C05",
   "Coq theorems (Props/C05.v, closed under the global context): for every canonical valid instance of the proved fragment "
   "(Number/Integer/Float/String/Boolean with any constraints, Enum by literals / by name / by value -- members of falsy value "
   "included --, Array/Deque/Set of the fragment, Tuple of plain scalars, Map with scalar keys, nested structures to any depth, "
   "AnyOf/Optional over ARBITRARY options holding a value that distinguishes them, with _ignore_none, _additional_properties, "
   "defaults, hooks) the model serializer returns pure JSON (C05_pure) and the model deserializer returns exactly the instance "
   "(C05_roundtrip; induction on fuel, field_ind' on declarations, Forall on values), falsy values included (C05_falsy); "
   "C05_anyof (every earlier option rejects the value and its document with ANY exception class => the option's own form is "
   "emitted and read back), C05_enum_by_value (the value, never the name, also when falsy), C05_compact (compact wrapper form, "
   "unless the field serializes to a JSON object); the full statement is refuted by the required-field-holding-None witness. "
   "Source ties regenerated from /repo every run (Gen/SerSites.v): the except clauses of the option dispatch and of the item / "
   "field loops, and Enum.serialize translated from its source, each with a bridging lemma (C05_src_*). ImmutableSet, positional "
   "items, Anything are in the executable model and the correspondence but not in the theorems; DecimalNumber and the date/time "
   "fields are outside the Coq model and are judged on the implementation only (lossy-fixpoint clause for Decimal, the format's own "
   "round trip RT measured per value), at every position. Model ser/deser are compared with Serializer/Deserializer inside Coq on "
   "random classes and on a deterministic lattice (leaf x position x falsy/member value x class shape), and the clauses (json.dumps "
   "accepts, only JSON types, deserialize(serialize(x)) == x, lossy fixpoint) are evaluated on the implementation; the AnyOf "
   "hypothesis 'distinguishable' is measured per value, not assumed.",
   "Trusted: Coq kernel + vm_compute; hand-written Ser/Serialize.v, Ser/Deserialize.v; the translator/recognisers of "
   "harness/genmods/ser_sites.py (fail closed); date formats as measured oracle (RT); the measured AnyOf hypothesis "
   "(harness/c05ext.py: an option claims a document when it reads it into a value it accepts that serializes to the same JSON "
   "kind; False and 0 are one kind); harness/sergen.py + harness/c05ext.py generators and reifier; CPython json.",
   "Coq proof (round-trip by mutual structural induction) + generated source ties + model/implementation correspondence in vm_compute")
_c("C06",
   "PARTIAL. Coq theorems (Props/C06.v, closed under the global context) over the executable model of the deserializer "
   "(Ser/Deserialize.v) and of the constructor: (a) the extra-key clause -- the exhaustive case analysis of "
   "additional-properties x keep_undefined x ignore_invalid_additional_properties (C06_extra_keys_dropped / _rejected / _cases, "
   "C06_keep_undefined_adjustment); (b) the error-class clause -- for every well-formed class environment (positional "
   "containers included: finding F9 is repaired, a document shorter than the positional items is a ValueError), every "
   "rejection by Deserializer(cls).deserialize is a TypeError/ValueError, for all documents, flags and nesting "
   "(C06_error_class = the full statement C06_error_class_statement, by induction over declarations and fuel; "
   "C06_constructor_error_class for the final authority; C06_wrapper_error_class: AnyOf/OneOf/AllOf/NotField raise ValueError "
   "whatever their alternatives raise); (c) the exception handlers "
   "of the deserializer are re-read from serialization.py on every run (Gen/DeserFlow.v) and the facts the model relies on "
   "are proved over them (C06_src_*); (d) the agreement clause (deserialize d == constructor on the documented reading of d) "
   "for the SCALAR fragment -- classes whose fields are numbers, strings, booleans, literal enums or Anything, every object "
   "document with distinct string keys and no null member, keys in any order, any extra keys, both flags, keep_undefined "
   "True/False (C06_agree_scalar; it rests on C06_constructor_order_free: for every class of the model the constructor's "
   "outcome does not depend on the order of its keyword arguments). Beyond the scalar fragment the agreement clause is "
   "NOT proved: the independently written documented reading (Ser/DocReading.v, including its treatment of the four "
   "multi-field wrappers and of ambiguous readings) and the model deserializer are both evaluated in Coq on every generated "
   "document of the model fragment (images, single-point corruptions at any depth, non-object documents, both flags; "
   "wrapper-rich classes; a deterministic lattice wrapper kind x alternative whose trial fails outside TypeError/ValueError x "
   "other alternative x order x position x document; a deterministic nesting lattice: a structure nested directly / as Map value / below two Maps / in Array, Deque, Set, Tuple, positional Array / as a wrapper alternative and combinations x nested and top class allow or forbid additional properties x keys that are not fields at every level x keep_undefined in {True, False, default} x the configuration flag, read with ONE keep_undefined at every level) and compared with the real Deserializer and with cls(**lift(d)).",
   "Trusted: Coq kernel + vm_compute; Ser/Deserialize.v, Ser/DocReading.v hand-written; generators harness/sergen.py, "
   "harness/c06gen.py; handler recogniser harness/genmods/deser_flow.py (fails closed); CPython. Outside the scalar fragment the "
   "agreement clause is decided by the differential only. Field classes outside Fields/FieldAst.v (DecimalNumber, DateField/DateTime/TimeField, DateString/"
   "TimeString, IPV4/HostName/JSONString) are judged by the constructor-on-documented-reading oracle only (no Coq model). A "
   "document with two or more distinct candidate readings at a OneOf/AllOf/NotField is judged for its error class only.",
   "Coq proof (case analysis of the extra-key policy; induction over declarations for the error class, parametric in "
   "handler rows generated from the source; permutation invariance of the constructor and agreement on the scalar fragment) + executable documented-reading spec and model/implementation correspondence "
   "in vm_compute")
_c("C07",
   "Coq theorems (Props/C07.v, closed under the global context) over the executable model of mapper aggregation and of the key "
   "handling of serialize_internal / construct_fields_map (Ser/Mappers.v): for any mapper list the aggregated mapper (both "
   "directions) equals the declarative left-to-right rename chain (C07_agg_is_chain, induction over the list; hypothesis chain_ok "
   "characterises the code's same-entry shortcut), nested ._mapper entries on the serialization side (C07_nested_mapper) and on "
   "the deserialization side, where the entry travels with the field's current key and is the one construct_fields_map looks up "
   "first (C07_nested_mapper_deser, with a witness that the other lookup order hands a field its sibling's mapper), the serialized "
   "key set at a level is exactly the image of the populated non-dropped fields (C07_keys_exact, _nested), DoNotSerialize fields "
   "absent, collisions only via the mapper, the COMPLETE round trip through the model of deserialize_structure_internal for classes "
   "of scalar fields under any declared/explicit mapper list and camel_case_convert (C07_roundtrip_flat, total: serialization "
   "succeeds and deserializing its result gives the instance back) and its lookup half for nested classes "
   "(C07_roundtrip_lookup_partial), transparency of the process-wide memo table over every history of calls "
   "(C07_cache_transparent, with witnesses that neither the flag nor the explicit mapper can be left out of the key), wrapper "
   "construction rejects non-field keys; refutation witnesses where the full statement is false of the faithful model. The "
   "nested-mapper lookup/store sites and the enum dispatch are regenerated from the AST of /repo on every run (Gen/MapperSites.v) "
   "and the model is proved to perform exactly those (C07_model_follows_source_sites). Aggregated dicts, documents and "
   "deserializations are compared with typedpy inside Coq on all mapper assignments of depth <= 3 (random stream), on an enumerated "
   "lattice of sibling-name renames x field kinds x mapper placements, and on a falsy-value lattice; Serializer/Deserializer and "
   "serialize()/deserialize_structure() entry points; with and without an earlier use of the class under another mapper; and a hetero-history stream: positional Array/Tuple and Array/Set-of-AnyOf items over 2-3 structure classes with shared field names renamed differently, under cache "
   "histories (container first / item classes first / interleaved, schema export as filler) with the key-set and round-trip clauses judged per class after every prefix.",
   "Trusted: Coq kernel + vm_compute; Ser/Mappers.v hand-written (single inheritance, scalar values are opaque tokens copied "
   "unchanged, no field types); site recogniser harness/genmods/mapper_sites.py (fails closed); harness generators; CPython. The "
   "round trip of NESTED classes composed with deser_struct is not proved (false two levels down on the pinned code, C07-F1): it is "
   "covered by the correspondence and the real == on every run. Multiple inheritance / mixins are not generated.",
   "Coq proof (induction over mapper chains, nesting and call histories) + generated site tables + model/implementation "
   "correspondence in vm_compute")
_c("C09",
   "Coq theorems (Props/C09.v, closed under the global context): a model of Python's string-literal lexer and of each quoting "
   "discipline; for ALL strings, a literal emitted under discipline q lexes back to the string iff quote_ok q s (C09_lex_roundtrip, "
   "C09_lex_break: exact characterisation by induction over the string), repr is total (C09_repr_total), the unsafe character sets "
   "of the raw disciplines, and their lift to whole generated classes (C09_relex). The discipline of every emission site is "
   "regenerated from the AST of json_schema_mapping.py on every run (Gen/EmitSites.v): Repr sites are safe for all strings, every "
   "other site has a constructed witness (C09_sites, C09_sites_witness). Module level (schema_definitions_to_code, "
   "write_code_from_schema; Schema/ModuleGen.v): executing the written class statements raises no NameError iff every reference "
   "(in any position: items list, allOf/anyOf/oneOf/not, map value, nested object) goes to the base namespace or strictly backwards "
   "(C09_module_names_char); definitions may be left out exactly when the kept set is closed under reference (C09_module_prune, "
   "C09_module_dropped_reference); a recursive definition or a cycle never executes in any order (C09_module_self_reference, "
   "C09_module_no_cycle); the lexical theorem for whole modules (C09_module_relex). The layout of write_code_from_schema (what is "
   "written, in which order, over which definitions) is regenerated from its AST on every run (Gen/ModuleLayout.v, fail closed): it "
   "writes a class for every definition, then the main class (C09_module_layout, C09_module_executes, C09_module_total); the "
   "generator produces a class statement, and the writer a module, for EVERY class description (C09_generator_total, "
   "C09_module_always). The "
   "required list survives schema -> code -> schema up to order iff every defaulted property is listed (C09_required_roundtrip, "
   "_only_if). Full statements that are false of the faithful model are kept as Definitions with refutation witnesses "
   "(declaration-order forward reference, recursion, quoting). The rest of the back-mapping clause and the "
   "equivalence clause are NOT proved; they are evaluated on the implementation through all three entry points (compile/exec of the "
   "returned strings and of the written file, structure_to_schema round trip of schema and reached definitions, independent "
   "Draft4Validator resolving $ref itself, documents mostly valid with single-property corruptions).",
   "Trusted: Coq kernel + vm_compute; lexer model Schema/PyLiteral.v validated against tokenize/literal_eval; site recogniser in "
   "harness/genmods/emit_sites.py and layout recogniser harness/genmods/module_layout.py (fail closed); name-resolution model "
   "(class bodies evaluate field expressions eagerly, `from typedpy import *` names distinct from definition names) compared with "
   "CPython's NameError on every executed module; jsonschema in python3-vt; CPython compile().",
   "Coq proof (lexer round-trip characterisation by induction over strings, parametric in generated emission sites; name resolution "
   "of generated modules by induction over the statement list, parametric in the generated layout) + "
   "model/implementation correspondence in vm_compute")
_c("C12",
   "Coq theorems (Props/C12.v, closed under the global context) over an executable model of StructMeta.__new__ (Struct/Define.v) "
   "and of the derivation operators followed by the same define (Struct/Derive.v): exact field sets and required sets per "
   "operator (C12_fields, C12_required, C12_required_general), never a subclass, retained members are the source's field objects "
   "(same vset, immutability, default), compositions of ANY length are the fold of the documented set operations (C12_compose, "
   "induction over the operator list), bad names raise TypeError, the source and the rest of the environment are unchanged, "
   "no operator fails on its own (C12_operators_total: a source with a Constant member included), the derived class sees the "
   "_ignore_none its source sees, own or inherited (C12_ignore_none, C12_ignore_none_effective), as one of THREE values -- absent, "
   "False, True -- so that __setattr__'s None decision getattr(self, '_ignore_none', <process-wide default>) agrees for source and "
   "derived class under every value of TypedPyDefaults.allow_none_for_optionals, also one switched after the derivation "
   "(C12_seen_ignore_none, C12_none_decision; Struct/DeriveNone.v). "
   "Class statements and derivations are run on typedpy and compared step by step inside Coq; documented sets, issubclass, "
   "'a new class object', 'no earlier class changed by a later derivation' and source-vs-derived accept/reject/normal form at "
   "construction AND at assignment are evaluated on the implementation, under the four combinations of the process-wide defaults "
   "allow_none_for_optionals / additional_properties_default. Enumerated every run: every operator (both spellings of omit/pick) "
   "over a base class, its subclass, a sibling (and a grandchild) in every order of application, a class redefined under the same "
   "name, and every class-level option (_ignore_none, _additional_properties, _enable_undefined_value) at every explicit value "
   "-- own, inherited, overriding the base's -- on mutable / immutable / final sources, with falsy defaults and with class "
   "statements on top of the derived classes. NOT covered: the explicit class attribute _immutable (immutability only through "
   "ImmutableStructure / FinalStructure; a derived class is a plain Structure, assignment is compared for mutable sources only); "
   "_enable_undefined_value is outside the Coq model (implementation-side clause only; listed finding).",
   "Trusted: Coq kernel + vm_compute; Define.v/Derive.v hand-written; harness/defgen.py; CPython metaclass protocol.",
   "Coq proof (induction over operator chains on a model of class definition) + model/implementation correspondence in vm_compute")
_c("C14",
   "Coq theorems (Props/C14.v, closed under the global context) over the same class-definition model: a subclass has every field "
   "of every base at any depth and with multiple bases (C14_fields_mono, induction over descends; invariant of every environment "
   "reachable by class statements), required-ness is monotone where the bases agree (C14_required_mono; unconditional statement "
   "refuted by a multi-base witness), unredeclared names resolve to the bases' member, one lemma per listed definition fault "
   "showing define raises (C14_fault_*), AbstractStructure. Hierarchies to depth 4 with mixins and every single-fault variant "
   "are run on typedpy and compared with the model inside Coq; declarations are also written as bare Field classes / plain python "
   "types (the model's statement is the one of the canonical constructor call). Two ENUMERATED streams are judged on the "
   "implementation alone, outside the theorems (harness/c14lattice.py): (1) invalid and mutable defaults over 63 field spellings "
   "(Field instance, bare Field class, user Field subclass, python type, typing / PEP 585 generic, Optional, |, AnyOf) x 6 default "
   "spellings (=, = lambda, default=, default=lambda, annotation / assignment) x falsy and truthy values x 10 placements of the "
   "declaration (root, between members, subclass, deep subclass, several bases with a mix-in, bottom of a diamond, redeclaration, "
   "Abstract / Immutable child), oracle = the same declaration without default rejects the value at construction; (1b) invalid "
   "field names (leading underscore, kwargs) x 34 member spellings (also bare Structure class by annotation / assignment, "
   "ClassReference, function returning a field, Constant) x 12 placements x both guards, oracle = the same statement with a valid "
   "name declares that field; (2) 13 hierarchy "
   "shapes (chain, diamonds with leaf / tall sides, double diamond, three-wide, grid, two roots, triangle, mix-ins, abstract root) x "
   "subsets of overriding classes x 6 override kinds, compared with the model in Coq and, on the implementation, field map "
   "(get_all_fields_by_name) against attribute lookup along the MRO: same object, same default on instances, same accept / reject "
   "as the class the field is inherited from.",
   "Trusted: as C12. No totality theorem (valid statements define successfully): checked by correspondence. The field SPELLING is not "
   "in the model (SDecl carries the field, not how it was written): spelling-dependent paths of StructMeta.__new__ "
   "(_instantiate_fields_if_needed, _type_with_default_value_if_exists) are covered by the enumerated default lattice and the "
   "generated Gen/DefineSrc.v bridge only, not by a theorem.",
   "Coq proof (induction over class hierarchies, per-fault lemmas) + model/implementation correspondence in vm_compute + "
   "enumerated spec-on-implementation lattices")
_c("C16",
   "PARTIAL. Coq theorems (Props/C16.v, closed under the global context) over models of make_signature (Stubs/Signature.v) and of "
   "the stub generator at the level of (name, has-default, kind) (Stubs/StubModel.v), for hierarchies of any depth by induction: "
   "stub keywords = runtime parameters minus constants, no default iff required (under def_ok/tok_safe; unconditional statement "
   "refuted), ** iff additional properties (under kw_safe; refuted otherwise), helper methods carry the same keywords (the two classmethods minus a keyword named like one of their own parameters cls / "
   "source_object / ignore_props, which they never repeat: C16_no_duplicate_arguments), no mandatory "
   "parameter after an optional one, determinism. That the text parses, every class is declared, enum names are kept and output is "
   "byte-identical across PYTHONHASHSEED values are runtime facts decided by the harness (real create_stub_for_file in "
   "subprocesses, ast.parse/compile, inspect.signature, constructor probes), not by the theorems.",
   "Trusted: Coq kernel + vm_compute; Signature.v/StubModel.v hand-written (single Structure inheritance); harness/c16_runner.py; CPython.",
   "Coq proof (induction over hierarchies on a model of signature and stub generation) + model/implementation correspondence in vm_compute")

_c("C20",
   "PARTIAL. Coq theorems (Props/C20.v, closed under the global context) over two models. (1) Shared scratch names: a thread is a "
   "list of atomic read/write actions on shared cells, interleavings are the inductive shuffle of any number of threads (any number "
   "of pre-emptions): if no cell written by one thread is accessed by another, every thread observes under EVERY interleaving what "
   "it observes alone (C20_private_safe, induction over the shuffle); the same when all writes to a cell store one constant "
   "written before it is read (C20_idempotent_write_safe); a write .. re-read pattern with a foreign write possible in between "
   "has a constructed schedule whose observation occurs in no sequential order (C20_witness, C20_find_race_sound); a save/write/use/"
   "restore toggle of a shared name is harmless under nested overlap and not under FIFO overlap, two pre-emptions "
   "(C20_toggle_fifo_witness, C20_toggle_lifo_harmless; helpers handed a shared Field object are inlined by the recogniser, save/"
   "restore is a verdict of its own, and the whole two-pre-emption FIFO family is run for every multi-field wrapper kind, also with "
   "collection options). (2) Shared "
   "get-or-compute caches (Global/Cache.v: one slot, any number of threads each running a protocol of lookups/stores/clears, any "
   "schedule): if every store of every protocol stores the completely computed value, every thread that returns, returns the value "
   "it returns alone (C20_cache_final_safe, C20_cache_final_alone; invariant over all schedules); a protocol whose first store puts "
   "anything else into the slot (a placeholder, a partial value) has a constructed schedule under which a second thread returns that "
   "value (C20_cache_placeholder_witness); the decidable classification is sound both ways (C20_cache_classified_safe/_racy); a "
   "thread scheduled often enough HAS returned the computed value (C20_cache_final_complete); a lookup written as a membership "
   "test followed by a subscript read (two steps; the generated protocols distinguish `in` / `[]` / `.get`) never raises and returns "
   "the computed value as long as NO protocol has a removal site (C20_cache_insert_only_safe), whereas next to any removal (clear, pop, "
   "del - by a thread working on any key) a constructed schedule makes the reader raise KeyError between its test and its read "
   "(C20_cache_removal_witness; replayed on the implementation with a burst of distinct keys that fills a bounded cache); the slots of different keys are "
   "independent, so all of this holds for the whole dictionary (C20_cache_keys_independent, C20_cache_keyed_final_safe). (3) Several "
   "fields / nested classes (Global/Compose.v, ClassModel.v): safety composes over disjoint cells and is invariant under renaming of "
   "cells (C20_compose_safe, C20_shift_invariant), hence a class all of whose fields' generated access lists are classified safe is "
   "safe under every interleaving of operations that validate all its fields (C20_class_safe_all_schedules; decided per class "
   "profile in vm_compute and required to agree with the per-field verdicts). "
   "Generated every run from the AST: the ordered accesses of every collection validator to attributes of shared Field objects "
   "(Gen/SharedAccess.v), the protocol of every module-level container mutated inside a function, of every lru_cache function and of "
   "every lazily installed Field attribute, and the attributes functions install on class objects (Gen/CacheAccess.v); both tables "
   "are classified by the theorems in vm_compute and cross-checked dynamically (writes to Field objects at table lines only; a census "
   "of ALL module-level/class-level state the operations write; logged real cache accesses are runs of the generated protocol and a "
   "FINAL store stores the very object that is returned - compared inside Coq). On the implementation: a deterministic scheduler "
   "(real threads under sys.settrace) explores (a) all schedules with <= 2 (thorough 3) pre-emptions at the tables' lines over 27 "
   "field kinds x 7-8 operation tuples, (b) one pre-emption at EVERY line boundary inside typedpy (quick: first and last occurrence "
   "of each distinct source line per operation; thorough: two occurrences each end + sampled two-pre-emption and three-thread "
   "schedules) over 9 class profiles (dict/camel/lower/list/nested/function mappers, deserialization mappers, FastSerializable, "
   "enum/optional/default, trusted simple classes, inheritance/immutable/additional properties, wrappers) and the 27 field kinds, "
   "construct/deserialize/setattr/serialize entry points, valid inputs and inputs invalid in a different field per thread, classes "
   "COLD (declared afresh per schedule: every cache empty) and WARM; each thread's result / exception class / named field is compared "
   "with the same operation run alone; the models' witness schedules are replayed exactly. Atomicity grain is the source line.",
   "Trusted: Coq kernel + vm_compute; recognisers harness/genmods/shared_access.py and cache_access.py (fail closed: AUnrecognised / "
   "COther); FINAL-store recognition is syntactic (stored name = returned name, untouched in between) and dynamically cross-checked; "
   "lru_cache is CPython's; harness/sched.py and harness/c20lines.py (schedulers), CPython threading/settrace; the cache theorems are "
   "about one key's slot (keys are independent dict entries); three or more pre-emptions and bytecode-level pre-emption are outside "
   "the explored schedules; F15 (Array/Deque.Each, Tuple.Uniform) is a listed open finding, attributed per field by the model's "
   "classification of that field's declaration.",
   "Coq proof (all interleavings by induction over the shuffle relation / invariant over all schedules of the cache model, witness "
   "constructions) + generated access lists and cache protocols + deterministic schedule exploration at every line boundary and "
   "trace correspondence in vm_compute")

_c("C13",
   "Coq theorems (Props/C13.v, closed under the global context) over an executable model of the annotation/assignment conversion "
   "(Struct/Spelling.v: add_annotations_to_class_dict, get_typing_lib_info, FieldMeta/_CollectionMeta.__getitem__, |, typing's Union "
   "flattening, the three default paths of '=' (Field class / typing instance / Field instance), _evaluate_if_future_annotations) that "
   "uses the builtin->Field table regenerated from convert_basic_types (Gen/TypeMapping.v) and the guards of the conversion glue "
   "re-read from the source text on every run (Gen/AnnotGuards.v: the `len(v) < 50` bound of the __future__ evaluation, the "
   "`if default:` test of Field.__init__, the mutable-default type tuple; the shapes of _handle_typing_optional, AnyOf.__init__ and the "
   "required-set rule are pinned by C13_src_rules): the inductively generated congruence sp_eq of the property's spelling pairs (21 "
   "rules incl. nested/flattened typing Unions, any nesting) implies convert s1 = convert s2 (C13_equiv, mutual induction on "
   "derivations), hence identical vset for every value and identical result of any observer such as serialization (C13_behaviour, "
   "C13_observer); which annotations mark their field optional is characterised exactly for Unions of any arity with None at any "
   "position (C13_optional_marking, C13_marking_invariant) and `a: Union[..None..]` unlisted = `a: AnyOf[..None..]` listed in "
   "_optional (C13_optional_decl, C13_union_decl); declaration forms (annotation vs assignment, '=' vs default= for truthy immutable "
   "defaults) give equal field, default and required-ness (C13_decl, C13_class); a class whose annotation texts pass the source's "
   "guard is unchanged by `from __future__ import annotations` (C13_future); the clauses that are false of the code are refuted by "
   "witness: falsy default (F12), list/dict/set default (C13_mutable_default_refuted), annotations of 50+ characters under the "
   "__future__ import (C13_future_refuted). Every semantic field is rendered in all its spellings, realised in module files with and "
   "without the __future__ import, and compared on field sets, required sets, accept/reject/exception class/normal form/"
   "serialization/deserialization of the serialized form; besides the seeded random classes, VERIF_SEED-independent lattices "
   "enumerate every Union shape (arity 2-4 x position of None x nesting x listed/unlisted), scalar and mutable defaults x every "
   "declaration form, and annotation lengths around the __future__ bound; reified real Field objects, (field, default, required) of "
   "declarations and the same under the __future__ import are compared with the model inside Coq. Spelled expressions BOUND TO "
   "A NAME and re-used by several declarations (alone and as an operand of |, Optional, Union, list[..], Array[..], AnyOf[..], "
   "Tuple, Map; harness/c13_alias.py: a lattice of alias forms x uses plus random modules) are executed step by step: every class is "
   "compared with the class of the module in which the expression is written out at every use, right after its own definition and "
   "again after every later declaration (decided on the implementation: the model has values, not shared objects); the same "
   "machinery runs FACTORY modules (a class defined inside a function called with different bindings of its parameter, with and "
   "without the __future__ import: identical annotation texts evaluated in different frames). The parameterless function declared "
   "`-> Field` (is_function_returning_field; where its return type is read from is generated: Gen/AnnotGuards.v func_return_rule, "
   "pinned by C13_src_rules) is a spelling of the instance it returns as an annotation, as a class attribute and at any argument "
   "position of Cls[...] (C13_func_annot/_assign/_sub, C13_func_recognised; C13_func_unrecognised characterises a recogniser that "
   "reads the raw annotation); it is generated in all these positions with a plain and a quoted return annotation, in modules with "
   "and without the __future__ import (random + a position lattice).",
   "Trusted: Coq kernel + vm_compute; Spelling.v hand-written; extractors harness/genmods/type_mapping.py and annot_guards.py (fail "
   "closed: unrecognised shape -> C13_src_rules does not build); typing's own Union flattening/de-duplication and its "
   "argument cache are CPython's (Unions typing de-duplicates, and argument Unions in a non-canonical member order, are not "
   "generated); frame-inspection glue exercised by the harness only; `= None` and callable defaults are outside the explored space.",
   "Coq proof (congruence of spellings by mutual induction on derivations, parametric in the generated type table and guards) + "
   "model/implementation correspondence in vm_compute + deterministic shape lattices")

_c("C01",
   "Coq theorems (Props/C01.v, closed under the global context) over the executable model of the validating entry points "
   "(Struct/Instance.v construct/clone_with/cast_to/from_other, Struct/Entry.v: keyword construction, deserialization, "
   "from_other_class, shallow_clone_with_overrides, cast_to, wrapping, copy/deepcopy/pickle): vset soundness "
   "for every declaration by structural induction (C01_vset_sound: an accepted stable value's stored normal form is accepted by the "
   "documented rules docb, which are written independently of vset), construct soundness (required present, every stored value "
   "conforms, no undeclared attribute unless allowed, hook accepts), every single entry point, and chains of ANY length by induction "
   "(C01_chain_sound, C01_chain_deep_sound for nested instances); the unconditional field statement is refuted by the "
   "normalisation-collision witness. Deserialization is also proved with its real pre-processing (C01_deser_sound, "
   "C01_deserialize_sound, C01_deser_then_chain_sound over Ser/Deserialize.v: any document, nested objects/collections/multi-field "
   "wrappers/Enum names, keep_undefined, compact form), and shown to BE the entry point EDeser on the computed keyword arguments "
   "(C01_deser_as_entry); nested instances: the domain-checked deserializer deser_checked agrees with deser_struct whenever it returns "
   "(C01_deser_checked_agrees: deserialize_single_field is monotone in the function used for nested classes) and its result is valid "
   "together with every instance nested in it (C01_deser_deep_sound; both by structural induction over the deserializer's code). "
   "Omitted fields: construction fills them from the default through the same __set__ chain, and for a default FACTORY "
   "(default=<callable>) whatever value it returns at that moment the instance is valid for the class as declared "
   "(C01_construct_default_sound). Two assumptions of the hand-written model are re-derived from the working tree on every run: (1) HOW each "
   "entry point produces its result is a table read off the AST (Gen/EntrySites.v: kinds of every return statement of "
   "shallow_clone_with_overrides, cast_to, from_other_class, __deepcopy__, __copy__, __getstate__, deserialize_structure(_internal), "
   "Deserializer.deserialize); C01 is proved for EVERY safe table (C01_entry_sites_sound, C01_chain_sites_sound), an unsafe table has "
   "a constructed violating input (C01_sites_characterisation), and today's table is checked by the kernel (C01_entry_sites_today); "
   "(2) Enum._validate/__set__ are translated to Gallina (Gen/GuardsEnum.v) and proved equal to the model for every enum class, "
   "declared subset, literal list and value (C01_src_Enum_cls_set, C01_src_Enum_lit_set). On the implementation: a deterministic "
   "boundary lattice (47 scalar declarations x 20 collection/multi-field wrappers x the near-miss and falsy values of each x 7 entry "
   "kinds incl. down- and up-casts between classes that re-declare a field) ; a defaults stream (every leaf declaration, alone and under the wrappers, as a field the caller OMITS, with every constant default "
   "typedpy lets the class be defined with - falsy and conversion-needing ones included - and with a default factory made to return every "
   "near-miss value after a conforming one at definition, through every entry point that can leave a field out; findings keyed "
   ".../omitted-default:factory|falsy-constant|constant); an aged-instance stream (a valid instance whose unwrapped inner container - a set in "
   "an Array/Deque/Map/Tuple, the inner list of an Array of Arrays, a dict - is then altered in place with a value the item declaration "
   "rejects, the field's LIVE stored object handed to clone, cast down/up, from_other_class(instance|mapping|object), Cls(f=x.f), "
   "deserialize: each must re-validate and refuse; such constructing steps are in the statement's domain whatever the state of the current "
   "instance); and random chains of 1-4 real entry points over generated "
   "class environments are run step by step; every reified instance is judged by the independent spec (inst_ok, deep_valid) and compared "
   "with the model's run_entry inside Coq; JSON-shaped documents are additionally compared with the deserialization model.",
   "Trusted: Coq kernel + vm_compute; Instance.v/Entry.v/Deserialize.v hand-written (validated by correspondence); the two recognisers "
   "harness/genmods/c01_entry_sites.py and c01_enum_guard.py (fail closed: XOther / UNTRANSLATABLE); copy/deepcopy/pickle value-preserving "
   "in the model (compared up to ==, the recognised copy idioms are what the site table checks); deser_dom / deser_checked / entry_dom restrict the "
   "theorems to the statement's domain (no bool where a number is expected, int->float exact, stable collection constraints); "
   "StructureReference, date/time fields, constants, _optional spelling, mappers/camel-case deserialization are not generated.",
   "Coq proof (structural induction over declarations, induction over entry-point chains, characterisation parametric in a generated "
   "entry-site table, bridging lemmas to generated guard translations) + model/implementation correspondence in vm_compute")
_c("C15",
   "Coq theorems (Props/C15.v, closed under the global context) over a model of typedpy's process-wide tables (Global/History.v: "
   "implicit-wrapper registry, class objects, memo tables, installed serializers, counter, defaults) whose key kinds are regenerated "
   "from the AST on every run (Gen/Globals.v): a memo table whose key determines the function is unobservable under ANY history of "
   "lookups/insertions (C15_cache_transparent, induction over the history; C15_generated_caches_safe re-checks today's key kinds), a "
   "coarser key is observable (witness), and for every history without registry-key collision a class's behaviour equals that of the "
   "class defined alone (C15_independent, invariant: every table entry is correct for its key); a name-keyed registry has a "
   "constructed refuting history (C15_witness_registry). Each generated history is run in one process and every class's behaviour "
   "fingerprint (construct, 5 serialization modes, 3 deserialization modes, trusted path, schema, str) is compared with the class "
   "alone in a fresh interpreter; the model's verdict is compared inside Coq.",
   "Trusted: Coq kernel + vm_compute; History.v hand-written, beh abstract; key-kind recogniser harness/genmods/globals_tables.py (fail "
   "closed); harness/c15_worker.py; forked-child == fresh interpreter sampled each run. In-place edits of class attributes are not in the model.",
   "Coq proof (cache transparency and independence by induction over histories, parametric in generated key kinds) + differential "
   "against fresh interpreters and model correspondence in vm_compute")
_c("C18",
   "Coq theorems (Props/C18.v, closed under the global context). MESSAGES: every raise site of typedpy/fields, structures.py and "
   "serialization.py is regenerated as a message template on every run (Gen/Templates.v); the three regular expressions of "
   "errors.py are transcribed as parsers with their exact character classes; for every generated template of a scalar / "
   "collection-of-scalar site (finite forallb lifted), ALL identifier class and field names, ALL element suffixes and ALL value "
   "texts without newline, parsing the rendered message yields the field path and a non-empty problem (C18_template_ok, induction "
   "over strings; all_templates_ok is re-checked by the kernel against today's messages). WHO RAISES: the whole __set__ chain of "
   "every concrete scalar field class (Number/Integer/Float x sign mix-ins, String, Boolean), Enum._validate, validate_size and "
   "verify_type_and_uniqueness are regenerated on every run, along the real MRO, as programs of a deep-embedded guard language "
   "(Errors/Guard.v, Gen/GuardProgs.v); a flow-sensitive class analysis is proved sound for EVERY program, field object and value "
   "(C18_guard_analysis_sound, induction over programs and conditions): an accepted chain never ends in an exception raised by a "
   "guard expression itself (comparison, hash, len, float(), %). Today's chains pass (C18_kinds_ok, kernel re-check each run), so a "
   "scalar field rejects only through raise statements whose message names the field (C18_rejection_is_templated, "
   "C18_rejection_names_field) - for ALL values and every scalar field class: Number, Integer, Float, each under every sign mix-in, "
   "String, Boolean, Enum over a value list and over a class, and the type-and-uniqueness helper (C18_rejection_is_templated_all_values, "
   "C18_scalar_kinds_unrestricted; since the fix commits for F22a/b/c and F24 no scalar chain needs a restricted domain; the shapes "
   "that order / hash / convert before the class test are still rejected by the analysis: C18_unguarded_shapes_rejected). COLLECTING: collect-all reports exactly the invalid bound "
   "arguments, once each, in order; fail-fast reports the first; exceptions other than TypeError/ValueError leave the collect-all "
   "loop (construct_u, equal to construct when all are caught); the helper is total; the deserialization collect-all clause is "
   "characterised and refuted (F19). Real str(exception), ErrorInfo, construction and deserialization outcomes, and the outcome "
   "of every real validation chain (accepted / raise statement id / bare exception class) on an enumerated lattice leaf kind x value "
   "class x position plus random cases are compared with the model inside Coq; real field objects are compared with the schema the "
   "chain theorems assume. Which raise statements may reject a field only in the constructor after the deserializer's own "
   "validation accepted it is a table of the model (Collect.ctor_only_sites: sign mix-ins, size, uniqueness, number of positional "
   "items) against which every such observed rejection is checked, and the errors that collect-all deserialization loses (F19) are "
   "accounted per raise site on points enumerated for every bound / sign / size / uniqueness / length kind x position. STATE: Field "
   "INSTANCES shared between two declarations of a class (leaf kind x ordered pairs of positions: the field itself, items of "
   "Array/Deque/Tuple/Set, Map key/value) are run through histories of operations on ONE realised class (valid; a invalid; c invalid; "
   "a invalid; both) under construction / deserialization x fail-fast / collect-all, each rejection judged by the clauses against "
   "one-field-at-a-time oracles on a class realised afresh. SWITCH: the cells that set_fail_fast writes and failing_fast reads are "
   "regenerated from the source (Gen/SwitchSites.v: one cell per process or one per thread; anything else Unrecognised); a switch "
   "kept in one process-wide cell answers, under EVERY interleaving of calls by any threads, with the value last set by any thread "
   "(C18_switch_process_wide, induction over histories; C18_switch_today re-checks today's cells; a per-thread cell is refuted by "
   "witness); histories of calls made by real threads are compared with the generated cells and with the documented single switch "
   "inside Coq, and every operation of every case is also run with the switch set in one thread and the validation and helper "
   "call in another (both directions): the outcome must be that of the one-thread run.",
   "Trusted: Coq kernel + vm_compute; Render.v/Parse.v/Collect.v/Guard.v semantics hand-written (Guard.v uses the operators of "
   "Base/PyOps.v; float() of ints beyond 2^53 that do not overflow, Decimal arithmetic and opaque objects are Unmodelled and skipped); "
   "template extractor harness/genmods/templates.py (fails closed to Other) and chain translator harness/genmods/guard_progs.py "
   "(fails closed to PUnknown; folds getattr(instance, '_skip_validation'|'_trust_supplied_values', False) to False); schemas of "
   "Errors/GuardSchema.v (what a declaration leaves in the field object: checked against every generated field object, not derived); "
   "json encode/decode as oracle; ASCII identifiers. The element wrappers of Array/Set/Tuple/Map.__set__ and of the deserializer "
   "(path suffixes) are hand-modelled and judged on observed messages only; Enum.__set__'s conversion after validation and "
   "Enum.deserialize are outside the guard model.",
   "Coq proof (parser/renderer round trip by induction over strings, parametric in generated message templates; soundness of a class "
   "analysis over a generated deep embedding of the validation chains; induction over bound arguments) + model/implementation "
   "correspondence in vm_compute")

_c("C10",
   "PARTIAL. Coq theorems (Props/C10.v, closed under the global context) over executable models of the trusted-deserialization "
   "classifier and mapping (Ser/Trusted.v), of the fast serializer (Ser/Fast.v) and of the per-class serializer STATE "
   "(Ser/FastState.v: which function K.serialize is after any sequence of class definitions with inheritance, "
   "create_serializer calls with any flags, instantiations / from_trusted_data and serializations; late binding of class "
   "references by the class of the VALUE, the compact wrapper). Trusted side: on the flat fragment "
   "(primitive fields, document in vset normal form under the fields' own names) the trusted path returns exactly the regular "
   "path's instance (C10_trusted_partial, induction over the field list), and so it does on the enum fragment (primitive "
   "fields and Enum fields over an enum class, by name or by value, plain / AnyOf[T, None] / AnyOf[None, T]: "
   "C10_trusted_enums, through the enum mapping and _remap_input); for an ineligible class the flag changes nothing "
   "(C10_ineligible); from_trusted_data equals construct when every value is a fixpoint of its vset chain (C10_from_trusted). "
   "Fast side: per field, fast = regular on every declaration built from leaves, Array and Set (C10_fast_value_partial); per "
   "class, for every safe class environment (nested classes, Array/Set/Optional of leaves and of classes, simple mappers, no "
   "TO_CAMELCASE on a class that nests others, no Decimal/NoneField leaves, no defaults) and every instance listed in "
   "declaration order - whose fields may hold instances of subclasses of the declared classes - the order-free fast document "
   "is the regular document (C10_fast_class, induction on nesting depth, field list and field type); over histories: a class whose constructor has returned keeps a serializer of its own through every "
   "later operation (C10_fast_instantiated_keeps_serializer, invariant over op sequences; trusted instantiation without "
   "keywords included), in every state where the classes of the structures an instance holds have their own serializers the "
   "installed closure returns the order-free document (C10_fast_state_independent, by induction on depth), hence for EVERY "
   "order of create_serializer calls, instantiations AND serializations followed by any serializations the documents depend "
   "only on the flags each class ended up with "
   "(C10_fast_settled_history) and, with default flags, equal the regular documents (C10_fast_history). The full statement is a "
   "Definition with refutation witnesses (it is false of today's tree: Boolean strings, unsupported mappers, compact "
   "conditions; F18, AnyOf[None,T], AnyOf without None, Optional literal Enum, Set[Number], the serializer frozen by an early "
   "Array.serialize, the subclass instance in a base-class field and the trusted instance without keywords are repaired in "
   "typedpy and are positive Examples now). "
   "Everything else - Optional/Enum/SerializableField leaves and mappers on the trusted side, serialize_none/compact flags, "
   "unsafe declarations - is decided by the differential: the model's eligible / deser_regular / deser_trusted / construct / "
   "from_trusted / create_serializer / fast_ser / run_ops (state machine, op by op) / ser_regular are compared with typedpy inside "
   "Coq, and real == and equal Serializer output between the two paths, and x.serialize() / Serializer(x).serialize() against "
   "Serializer(twin).serialize(), are evaluated on every generated case (static classes, a complete lattice of short "
   "schedules over Parent/Child/Holder shapes, random families with inheritance and schedules).",
   "Trusted: Coq kernel + vm_compute; Trusted.v/Fast.v/FastState.v hand-written (validated by correspondence, not derived; "
   "nesting depth <= 3; single inheritance, at most one mapper per inheritance chain; user-defined serialize methods, "
   "_failed_serializer_creation and nested Array[Array[Class]] are outside the state model); date/Decimal (de)serialization "
   "and Map/Tuple/Anything/OneOf kinds as per-case oracles (C10_fast_class assumes a SerializableField never serializes to "
   "None); instances are compared as dicts (attribute order is fixed to declaration order in C10_fast_class); "
   "harness/c10gen.py, harness/c10hist.py; CPython.",
   "Coq proof (path equality on the characterised safe fragment by induction; invariants and a simulation over operation "
   "histories of the serializer state machine; refutation witnesses) + model/implementation correspondence in vm_compute")
_c("C11",
   "Coq theorems (Props/C11.v, closed under the global context). (1) Value level, executable model of Structure.__eq__, __str__ and "
   "__hash__ (Struct/EqHash.v; hash = an uninterpreted function of the string): Python == on model values is reflexive, "
   "symmetric and transitive across int/float/bool/Decimal, sets and dicts compared order-free (C11_value_equivalence, strong induction "
   "with a pigeonhole lemma, duplicate-free containers as explicit hypothesis), instance equality likewise and iff field-wise equality "
   "of the values read back (C11_equivalence, C11_eq_fieldwise); for canonical spellings equal instances have the same string hence "
   "hash (C11_hash_char); copy/deepcopy equal with the same string, pickle under pickle_safe (C11_copy_eq); the unconditional "
   "eq=>hash and pickle statements are Definitions refuted by witnesses (insertion order, numeric spelling, set vs frozenset, None vs "
   "absent, lost undeclared attributes); the unpickled copy keeps `_none_fields` and is `_instantiated` again (C11_unpickled_guard, "
   "C11_unpickled_hook_runs; the source's __getstate__ / __setstate__ are translated and proved to yield pickle_rt: "
   "C11_src_unpickle_is_model). (2) Object level, a heap model with object identity (Struct/CopyHeap.v): CPython's deepcopy of the "
   "built-in containers, Structure.__deepcopy__ and the wrappers' __deepcopy__ PARAMETRISED by a copy policy that "
   "harness/genmods/copy_sites.py re-reads from the source on every run (Gen/CopySites.v: what is deep-copied, what is re-used, under "
   "which isinstance test; fails closed to UnknownPol/TOther): under a policy that re-uses only values of deeply immutable types the "
   "copy extends the heap without writing it, denotes the same value, and shares no mutable object with the original "
   "(C11_deepcopy_separated, induction on the copy); separation is an invariant of EVERY interleaved history of operations of the two "
   "holders - allocation, in-place change of any mutable object a holder can reach, keeping references - and each operation leaves "
   "the other instance's value unchanged (C11_separated_frames, induction on the history); both instantiated for the policy of the "
   "current source (C11_deepcopy_independent; stops compiling when an edit makes the policy unsafe) and for the pickle round trip "
   "(C11_pickle_independent); a policy re-using a type whose instances can hold mutable objects is refuted by a computed witness "
   "(C11_unsafe_policy_witness); copy.copy is value-equal and shares (C11_shallow_copy); the executable separation check is sound "
   "(C11_separation_check_sound). Tie to the code: inst_eq / inst_str / hash equality compared with real ==, str, hash inside Coq on "
   "generated pairs and triples; the OBJECT GRAPHS (by id()) of generated instances and of a deterministic lattice of value shapes "
   "(chains of tuple/list/deque/dict/set/frozenset ending in a nested Structure or numbers; held by a typed field, an Anything field, an "
   "undeclared attribute) and of their copy.copy / deepcopy / pickle copies are emitted as heaps: inside Coq the model's copy under the "
   "generated policy must have the observed value and share the observed mutable objects, and separatedb is evaluated on the observed "
   "graph. On the implementation: all value clauses; no mutable object reachable from both an instance and its deep/unpickled copy "
   "(wrapper->owner edges included), reported after an actual change through the shared object's own interface was seen on the other "
   "instance; lock-step histories (setattr, wrapper mutators) and lock-step changes of every mutable object at any depth against a "
   "regularly constructed instance.",
   "Trusted: Coq kernel + vm_compute; EqHash.v and CopyHeap.v hand-written (CopyHeap's policy generated); number/str/enum repr and str "
   "hash as Section-variable oracles; the recogniser copy_sites.py; CPython's deepcopy/pickle on built-ins as modelled (tree copy, no "
   "memo-preserved sharing inside one instance); an ImmutableStructure is a value (C04); which instance a wrapper is bound to is not "
   "in the heap model (checked on the implementation: owner edges, lock-step wrapper mutators); __getstate__/__eq__ are hand-modelled "
   "and tied by correspondence only.",
   "Coq proof (equivalence-relation and hash-coherence theorems by strong induction over values; separation of a deep copy by "
   "induction on the copy and its preservation by induction over interleaved mutation histories, parametric in a copy policy "
   "generated from the source) + model/implementation correspondence in vm_compute")

_c("C04",
   "Coq theorems (Props/C04.v, closed under the global context) over a capability model (Struct/Handles.v): the world is the internal "
   "object tree of the instance plus the handles the client holds (Detached copy | Guarded wrapper | Live alias); what every "
   "introspected accessor hands out and what every introspected mutator of list/dict/deque/set does is COMPUTED from tables "
   "regenerated on every run (override shapes of mutators and accessors, the four immutable-type tuples and their deepcopy flags, "
   "structural flags: Gen/Tables.v, Gen/TablesC04.v). If the tables are guard-shaped, then for EVERY finite sequence of client "
   "operations (setattr/delattr/delitem/read/accessor/mutator/constructor-argument mutation/unpickle) the abstract state never changes "
   "and the client never obtains a Live handle (C04_invariant, C04_invariant_tables: induction over the op list with an invariant); "
   "every unguarded entry or unsafe flag has a constructed state-changing run (C04_witness_*); constructor arguments are detached "
   "under the deep-copy shape of __setattr__ (C04_ctor_args); a class statement with an ImmutableStructure/FinalStructure/"
   "ImmutableField base raises for all hierarchies (C04_no_subclass); the full statement is refuted on today's tables. The model's "
   "handle kinds and effects are compared with typedpy inside Coq on every immutable class shape (quick: nesting <= 1 plus a sample "
   "at 2-3; thorough: all shapes exhaustively) and the property is evaluated directly by observable snapshots. The leaves of the "
   "shape grammar include UNTYPED collections holding raw python lists/dicts - Array(), Deque(), Map() without items and a positional "
   "prefix items=[Integer] followed by a free-form element - in both contexts; they are in the capability model too (DArrRaw, "
   "DDeqRaw, DArrPre: whether the constructor argument stays aliased is computed from the generated init_copies_* facts and the "
   "Field.__set__ type tuple, raw_seq_alias) and take part in the correspondence. "
   "Class options: on the two-component instance state (attributes, explicit-None markers; Struct/NoneFields.v) with the effect list "
   "of Structure.__setattr__ re-translated from the source (Gen/StructNoneFields.v): an instantiated instance of an immutable class "
   "refuses every assignment under EVERY combination of _enable_undefined_value/_ignore_none/_additional_properties/_required and "
   "every finite assignment history leaves both components unchanged (C04_src_setattr_immutable_options, C04_options_history: "
   "induction over the history); an immutable field holding a value is unchanged by EVERY history of assignments to any keys "
   "(C04_immutable_field_history = the full statement, frame lemma per key; C04_src_immutable_field_assignment for the generated "
   "effect list): the 'ignored None' branch of __setattr__ refuses an explicit None for such a field itself "
   "(C04_marker_blocked_raises; finding F23, repaired), for other fields the marker is added (C04_none_marker_path_changes). The "
   "implementation is explored over the lattice {ImmutableStructure, immutable fields} x 8 option combinations x 6 provenances "
   "(constructor, pickle, copy, deepcopy, Deserializer, shallow clone) x every key role (required/populated/container/explicit "
   "None/absent/default/undeclared/sunder/_instantiated/_none_fields) x {setattr None/Undefined/same/other/invalid, delattr, delitem}, "
   "each followed by a canonical assignment, plus random classes (11 field types) and random histories (harness/c04opts.py); every "
   "setattr probe is compared in Coq with the generated effect list executed on the model state (Check/C04optchk.v). __delattr__ / "
   "__delitem__ on the bookkeeping attributes are judged on observed behaviour only (finding F24).",
   "Trusted: Coq kernel + vm_compute; Handles.v hand-written (one field per class, two items per container); table recognisers in "
   "harness/gen.py and harness/genmods/c04tables.py (fail closed); two facts read off the running library rather than the AST "
   "(nested wrapper binding, unpickle keeps _instantiated); copy/deepcopy/pickle of handles probed by the harness only.",
   "Coq proof (capability invariant by induction over operation sequences, parametric in generated accessor/mutator tables) + "
   "model/implementation correspondence in vm_compute")
_c("C08",
   "PARTIAL. Coq theorems (Props/C08.v, closed under the global context) over a model of the draft-4 fragment (Schema/Draft4.v: syntax, "
   "fuelled semantics valid4, well-formedness wf4, $ref collection) and of structure_to_schema (Schema/ToSchema.v: every *Mapper.to_schema "
   "incl. EnumMapper.adjust over enum classes with mixed-in primitive types and the by-value flag, object/wrapper form, renamed keys, "
   "defaults, the transitive definitions closure, the dialect translation). Proved for ALL inputs of the model: every $ref of the exported "
   "document (top-level schema and every definition) resolves inside the returned definitions whenever the reference graph is explored, with "
   "no cleanliness hypothesis (C08_refs_resolve, induction over the closure fuel); a class free of the characterised defects, transitively, "
   "exports a well-formed draft-4 document (C08_wf_doc; per declaration C08_wf, field_ind' over all constructors); for every declaration of "
   "the completeness fragment (numbers with bounds/multiplesOf/signs, strings, booleans, by-name enum classes, sized arrays, string-keyed "
   "maps, AnyOf/Optional over scalars, any nesting) the serialization of every value the documented rules accept validates "
   "(C08_complete, C08_complete_vset; only oracle assumption: re.match implies re.search), lifted to object-form classes: properties under "
   "renamed keys, required incl. fields with defaults, additionalProperties (C08_class_complete); the unrestricted statements are "
   "Definitions with refutation witnesses. Tied to the source on every run: EnumMapper.adjust's isinstance order, NumberMapper's "
   "get_min/get_max per concrete numeric class, get_mapper's dispatch table and the absence of module-level state in the export module are "
   "REGENERATED from json_schema_mapping.py (Gen/SchemaGuards.v) and proved equal to the model (C08_src_*). Decided by the differential "
   "(model to_schema vs real structure_to_schema on every export of a generated HISTORY of exports; model valid4/wf vs the independent "
   "jsonschema Draft4Validator under python3-vt; model serializer vs serialize; real Serializer output validated against the real export; "
   "boundary documents vs the Deserializer on the statement's exact sub-fragment): Set/Tuple/positional arrays/uniqueItems/AllOf/OneOf/Not/"
   "class references/by-value enums for completeness, the whole exactness clause, history independence; StructureReference, inheritance, "
   "ImmutableStructure and the serialization_mapper argument are outside the field model and judged on observed behaviour "
   "(incl. a deterministic mapper matrix: mapper kind x class attribute/argument x holder renamed x inline structure / array / map "
   "of them / nested inline / class reference x nested keys renamed); for inline structures the model has the mapper TREE and "
   "C08_inline_complete: if export and serializer read '<name>._mapper' under the same name the inline serialization validates, "
   "and which name each reads is regenerated from the source (C08_src_submapper_lookup).",
   "Trusted: Coq kernel + vm_compute; Draft4.v/ToSchema.v hand-written, validated against jsonschema 4.x; harness/c08_vt_worker.py; the "
   "abstract interpreter of harness/genmods/schema_guards.py (fails closed); valid4 is fuelled (theorems carry fdepth f <= n); the by-value "
   "flag of an Enum field is modelled per enum class (the generator declares it uniformly per class); rename maps fed to the model are "
   "read from the real aggregate_serialization_mappers.",
   "Coq proof (schema completeness by structural induction over field declarations against a formal draft-4 semantics, lifted to classes; "
   "$ref closure by induction over the definitions fuel; guard tables regenerated from source with bridging lemmas) + "
   "model/implementation and model/independent-validator correspondence in vm_compute over export histories and deterministic lattices")

PENDING = {}

def main():
    props = [json.loads(l) for l in open("properties.jsonl")]
    checks = []
    na = []
    for p in props:
        pid = p["id"]
        if pid in CHECKS:
            c = CHECKS[pid]
            checks.append({
                "property_id": pid,
                "quick_cmd": f"./vcheck {pid} --tier quick",
                "thorough_cmd": f"./vcheck {pid} --tier thorough",
                "evidence_file": f"/verif/evidence/{pid}.json",
                "replay_cmd_template": "./vcheck replay {path}",
                "engine": "coq-model+correspondence",
                "level_claimed": {"category": "proof", "text": c["text"], "design_ref": c["design"]},
                "level_note": c["note"],
                "technique": c["technique"],
            })
        else:
            na.append({"property_id": pid, "reason": PENDING.get(pid, "check still being built in this round (builder in progress); see DESIGN.md §10 build order")})
    m = {
        "version": 1,
        "setup_cmd": "./vcheck setup",
        "hooks": {"guard": "TYPEDPY_VERIF", "enable": "no source hooks: all instrumentation is monkey-patching inside the harness process",
                  "baseline_off_cmd": "cd /repo && /venv/bin/python -m pytest -q -p no:cacheprovider --timeout=900",
                  "source_commits": [], "add_only": True},
        "engines": [{"name": "coq-model+correspondence", "path": "/verif/vcheck",
                     "serves_properties": [c["property_id"] for c in checks],
                     "kind_free_text": "Coq 8.16 development (coq/theories) + Python differential harness (harness/)"}],
        "checks": checks,
        "not_applicable": na,
        "notes": "One CLI: ./vcheck <ID> --tier quick|thorough ; ./vcheck replay <file>. VERIF_SEED honoured (single PRNG). Every run regenerates coq/theories/Gen/*.v from /repo's working tree (harness/genmods/*.py) before building the proofs. When the tree under test differs from baseline_tree.json (the tree the checks were last shown to pass on) and the first quick pass finds nothing, the quick tier re-runs under further seeds (VERIF_ESCALATE_SEEDS, default 6; VERIF_ESCALATE_BUDGET seconds, default 200; VERIF_NO_ESCALATE=1 disables): this only adds explored inputs. No hooks in /repo; the repaired genuine defects are the `fix:` commits of /repo (git -C /repo log --grep '^fix:'), each recorded in known_findings.json, list 'fixed'.",
    }
    json.dump(m, open("MANIFEST.json", "w"), indent=1)

main()
