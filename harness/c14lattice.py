"""C14 helper: two ENUMERATED (not sampled) input classes, judged on the implementation alone.

1. default-fault lattice: every spelling of a field declaration (Field instance with / without constraints, bare
   Field class, user subclass of a Field class, plain python type, typing / PEP 585 generic, Optional, union with `|`,
   function returning a field) x every spelling of a default (`= v`, `= lambda: v`, `default=v`, `default=lambda: v`,
   annotation or assignment style) x falsy and truthy values x placement of the declaration (root class body, alone
   or between other members, subclass body, subclass with several bases and a mix-in, redeclaration of an
   inherited field, body of the bottom class of a diamond).
   Oracle (model free): the SAME declaration without default is realised in a probe class; a value the probe rejects
   at construction "violates its field"; the property then demands that the class statement carrying it as default
   raises (TypeError / ValueError) and binds no class.  Mutable literals ([], {}, set(), non-empty ones) after `=`
   must raise whatever the field.

2. hierarchy-shape lattice: small non-linear hierarchies (diamond, diamond with a leaf / with a tall side, double
   diamond, three-wide diamond, two roots joined, triangle, linear chain, mix-ins inside) x the subsets of classes
   that override the field (or Constant) declared in the root(s) x what the override changes (default only, constraint and
   default, constraint only, default removed, Constant).  The programs are built in the statement AST of
   harness/defgen.py, so they go through the same pipeline as the random hierarchies (model correspondence and
   spec clauses in Coq); in addition `mro_clauses` compares, on the implementation, the field map
   (get_all_fields_by_name) with attribute lookup along the MRO: same object, same default on instances, same
   accept / reject of values as the class the field is inherited from.
"""
import itertools

from harness import coqemit as E
from harness import defgen as D
from harness import fieldgen as G

# ------------------------------------------------------------------ 1. default-fault lattice

PRELUDE = (D.IMPORTS +
           "import typing as t\n"
           "from typing import Optional, List, Dict, Union\n"
           "from typedpy import DateString, Function, ClassReference\n"
           "class ShortCode(String):\n"
           "    def __init__(self, *args, **kwargs):\n"
           "        kwargs.setdefault('minLength', 2)\n"
           "        kwargs.setdefault('maxLength', 4)\n"
           "        super().__init__(*args, **kwargs)\n"
           "class Big(Integer):\n"
           "    def __init__(self, *args, **kwargs):\n"
           "        kwargs.setdefault('minimum', 10)\n"
           "        super().__init__(*args, **kwargs)\n"
           "def TenToTwenty(*args, **kwargs) -> Field:\n"
           "    return Integer(*args, minimum=10, maximum=20, **kwargs)\n"
           "def SmallInt() -> Field:\n"
           "    return Integer(minimum=0, maximum=9)\n"
           "class Mx:\n"
           "    def hello(self):\n"
           "        return 1\n")

# (spelling source, takes default= (constructor call)?, family)
FIELD_SPELLINGS = [
    # integers
    ("Integer", False, "int"), ("Integer()", True, "int"), ("int", False, "int"),
    ("PositiveInt", False, "int"), ("PositiveInt()", True, "int"), ("NonNegativeInt", False, "int"),
    ("NegativeInt", False, "int"), ("Integer(minimum=5)", True, "int"), ("Integer(maximum=-1)", True, "int"),
    ("Integer(multiplesOf=3, minimum=1)", True, "int"), ("Big", False, "int"), ("Big()", True, "int"),
    ("Optional[int]", False, "int"), ("t.Optional[PositiveInt]", False, "int"),
    ("Integer | None", False, "int"), ("AnyOf[PositiveInt, String(minLength=2)]", False, "int"),
    # floats / numbers
    ("Float", False, "float"), ("Float()", True, "float"), ("float", False, "float"), ("PositiveFloat", False, "float"),
    ("Positive", False, "float"), ("Number", False, "float"), ("Number(minimum=1)", True, "float"),
    ("Negative()", True, "float"),
    # strings
    ("String", False, "str"), ("String()", True, "str"), ("str", False, "str"), ("String(minLength=2)", True, "str"),
    ("String(maxLength=3)", True, "str"), ("String(pattern='[a-c]+$')", True, "str"), ("ShortCode", False, "str"),
    ("ShortCode()", True, "str"), ("DateString", False, "str"), ("DateString()", True, "str"),
    ("Optional[str]", False, "str"),
    # booleans, enums
    ("Boolean", False, "bool"), ("Boolean()", True, "bool"), ("bool", False, "bool"),
    ("Enum(values=[1, 2, 'a'])", True, "enum"), ("Enum[Color]", False, "enum"), ("Enum(values=Color)", True, "enum"),
    ("Color", False, "enum"),
    # collections
    ("Array", False, "coll"), ("Array()", True, "coll"), ("list", False, "coll"), ("Array[Integer]", False, "coll"),
    ("list[int]", False, "coll"), ("t.List[int]", False, "coll"), ("Array(items=Integer(), minItems=1)", True, "coll"),
    ("Array(minItems=1)", True, "coll"),
    ("Set", False, "coll"), ("set", False, "coll"), ("Set[String]", False, "coll"), ("set[str]", False, "coll"),
    ("Map", False, "coll"), ("dict", False, "coll"), ("dict[str, int]", False, "coll"), ("Map[String, Integer]", False, "coll"),
    ("Tuple[Integer, String]", False, "coll"), ("tuple[int, str]", False, "coll"), ("Deque", False, "coll"),
    ("ImmutableSet[Integer]", False, "coll"), ("frozenset", False, "coll"),
]

FALSY = ["0", "0.0", "''", "False", "()", "frozenset()", "Decimal(0)"]
TRUTHY = ["1", "-1", "7", "12", "2.5", "-0.5", "'x'", "'ab'", "'abcdefgh'", "'2020-13-45'", "True", "(1,)", "('a', 1)",
          "(1, 'a', 2)", "frozenset({'a'})", "Color.RED", "'RED'"]
FACTORY_ONLY = ["[]", "['']", "[0]", "[1, 'a']", "{}", "{'a': 'b'}", "{1: 1}", "set()", "{1}", "{'a'}"]     # via lambda
MUTABLE_LITERALS = ["[]", "[1]", "{}", "{'a': 1}", "set()", "{1, 2}"]

DEFAULT_SPELLINGS = ["eq", "eq-factory", "kw-ann", "kw-assign", "kw-factory-ann", "kw-factory-assign"]

# placement -> (preceding source, class header, members before, members after, field name)
PLACEMENTS = {
    "root-alone": ("", "class K(Structure):", [], []),
    "root-between": ("", "class K(Structure):", ["first: String"], ["last: Integer = 3", "_additional_properties = False"]),
    "root-required-listed": ("", "class K(Structure):", ["first: String"], ["_required = ['first']"]),
    "subclass": ("class B0(Structure):\n    name: String\n", "class K(B0):", [], []),
    "subclass-deep": ("class B0(Structure):\n    name: String\nclass B1(B0):\n    pass\nclass B2(B1):\n    other: Integer = 1\n",
                      "class K(B2):", ["mine: String = 'm'"], []),
    "subclass-multi": ("class B0(Structure):\n    name: String\nclass C0(Structure):\n    c: Integer = 1\n",
                       "class K(B0, Mx, C0):", [], ["tail: Boolean = True"]),
    "diamond-bottom": ("class R(Structure):\n    name: String\nclass L1(R):\n    pass\nclass R1(R):\n    r: Integer = 2\n",
                       "class K(L1, R1):", [], []),
    "abstract-child": ("", "class K(AbstractStructure):", ["first: String"], []),
    "immutable-child": ("", "class K(ImmutableStructure):", [], ["last: Integer = 3"]),
}
# redeclaration of an inherited field: the base declares x with the same spelling, without default
REDECLARE = ("class B0(Structure):\n    name: String\n    %s\n", "class K(B0):", [], [])


def decl_line(spelling, takes_kw, dsp, vsrc, name="x"):
    """Source of the declaration, or None when the combination cannot be written."""
    if dsp == "eq":
        return "%s: %s = %s" % (name, spelling, vsrc)
    if dsp == "eq-factory":
        return "%s: %s = lambda: %s" % (name, spelling, vsrc)
    if not takes_kw:
        return None
    head = spelling[:-1]
    sep = "" if head.endswith("(") else ", "
    v = vsrc if "factory" not in dsp else "lambda: %s" % vsrc
    src = "%s%sdefault=%s)" % (head, sep, v)
    if dsp.endswith("assign"):
        return "%s = %s" % (name, src)
    return "%s: %s" % (name, src)


def plain_decl(spelling, dsp, name="x"):
    if dsp.endswith("assign"):
        return "%s = %s" % (name, spelling)
    return "%s: %s" % (name, spelling)


def build_src(placement, decl, redeclared_plain=None):
    if placement == "redeclare":
        pre, header, before, after = REDECLARE
        pre = pre % redeclared_plain
    else:
        pre, header, before, after = PLACEMENTS[placement]
    body = list(before) + [decl] + list(after)
    return pre + header + "\n" + "".join("    %s\n" % b for b in body)


_PRELUDE_NS = None


def fresh_ns():
    global _PRELUDE_NS
    if _PRELUDE_NS is None:
        _PRELUDE_NS = {}
        exec(PRELUDE, _PRELUDE_NS)
    return dict(_PRELUDE_NS)


def run_src(src):
    """-> (ns, None) | (ns, exception)"""
    ns = fresh_ns()
    try:
        exec(src, ns)
    except Exception as ex:  # noqa
        return ns, ex
    return ns, None


class Probe:
    """Verdict of the field itself about a value: the declaration without default in a class of its own."""

    def __init__(self):
        self.cache = {}

    def cls(self, spelling, assign):
        key = (spelling, assign)
        if key not in self.cache:
            src = "class P(Structure):\n    %s\n    _required = []\n" % plain_decl(spelling, "kw-assign" if assign else "eq")
            ns, ex = run_src(src)
            self.cache[key] = None if ex is not None else ns["P"]
        return self.cache[key]

    def verdict(self, spelling, assign, vsrc):
        """'invalid' | 'valid' | 'skip' (probe not definable / raises something else / value not evaluable)."""
        P = self.cls(spelling, assign)
        if P is None or "x" not in P.get_all_fields_by_name():
            return "skip"
        try:
            v = eval(vsrc, fresh_ns())
        except Exception:  # noqa
            return "skip"
        try:
            P(x=v)
        except (TypeError, ValueError):
            return "invalid"
        except Exception:  # noqa
            return "skip"
        return "valid"


def truthiness(vsrc):
    return "truthy" if eval(vsrc, fresh_ns()) else "falsy"


def default_cases(tier, seed):
    """Enumerates (kind, key_parts, src, info).  kind: 'invalid-default' | 'mutable-default'.
    Quick: every (spelling x default spelling x value) on two placements chosen by rotation (every placement is met
    by every default spelling and every family; the rotation offset moves with the seed); thorough: every placement."""
    placements = list(PLACEMENTS) + ["redeclare"]
    out = []
    i = seed
    for spelling, takes_kw, fam in FIELD_SPELLINGS:
        for dsp in DEFAULT_SPELLINGS:
            if dsp.startswith("kw") and not takes_kw:
                continue
            values = FALSY + TRUTHY + (FACTORY_ONLY if "factory" in dsp else [])
            for vsrc in values:
                decl = decl_line(spelling, takes_kw, dsp, vsrc)
                if tier == "quick":
                    pls = [placements[i % len(placements)], placements[(i * 7 + 3) % len(placements)]]
                    i += 1
                else:
                    pls = placements
                for pl in dict.fromkeys(pls):
                    out.append(("invalid-default", spelling, fam, dsp, vsrc, pl, decl))
        for vsrc in MUTABLE_LITERALS:
            pls = placements if tier != "quick" else [placements[i % len(placements)]]
            i += 1
            for pl in pls:
                out.append(("mutable-default", spelling, fam, "eq", vsrc, pl, "x: %s = %s" % (spelling, vsrc)))
    return out


def spelling_class(spelling, takes_kw):
    """Coarse class of a field spelling, part of the finding key."""
    if takes_kw:
        return "field-instance"
    if spelling in ("int", "float", "str", "bool", "list", "set", "dict", "frozenset", "tuple"):
        return "python-type"
    if spelling[0].islower() or spelling.startswith(("Optional", "t.")) or " | " in spelling:
        return "typing"
    if "[" in spelling:
        return "field-subscript"
    if spelling == "Color":
        return "enum-class"
    return "field-class"


TAKES_KW = {s: k for s, k, _ in FIELD_SPELLINGS}


def judge_default_case(case, probe):
    """-> (status, key, what, replay) ; status: 'skip' | 'control' | 'ok' | 'fail'."""
    kind, spelling, fam, dsp, vsrc, pl, decl = case
    assign = dsp.endswith("assign")
    src = build_src(pl, decl, plain_decl(spelling, dsp))
    sc = spelling_class(spelling, TAKES_KW[spelling])
    if kind == "invalid-default":
        verdict = probe.verdict(spelling, assign, vsrc)
        if verdict == "skip":
            return "skip", None, None, None
        ns, ex = run_src(src)
        if verdict == "valid":
            return ("control-accepted" if ex is None else "control-raises"), None, None, None
        tr = truthiness(vsrc)
        dk = ("default-eq" if dsp.startswith("eq") else "default-kw") + ("-factory" if "factory" in dsp else "")
        base_key = "C14/fault/%s-%s" % (dk, tr) if dk != "default-eq" else "C14/fault/default-eq-%s" % tr
    else:
        P = probe.cls(spelling, False)
        if P is None or "x" not in P.get_all_fields_by_name():
            return "skip", None, None, None
        ns, ex = run_src(src)
        base_key = "C14/fault/mutable-default-%s" % ("nonempty" if eval(vsrc) else "empty")
    replay = {"lattice": "default", "source": src, "declaration": decl, "field_spelling": spelling, "default_spelling": dsp,
              "value": vsrc, "placement": pl, "kind": kind, "python": PRELUDE + "\n" + src}
    if ex is None:
        key = "%s/%s/accepted" % (base_key, sc)
        if key == "C14/fault/default-kw-falsy/field-instance/accepted":
            key = "C14/fault/default-kw-falsy/accepted"        # F12: the key the random fault stream uses, too
        return ("fail", key,
                "class statement `%s` (%s) was accepted although %s" % (
                    decl, pl, "the field rejects the default %s" % vsrc if kind == "invalid-default"
                    else "a mutable literal is used as an '=' default"), replay)
    if not isinstance(ex, (TypeError, ValueError)):
        return ("fail", "%s/%s/raises-%s" % (base_key, sc, E.exn_name(ex)),
                "class statement `%s` raises %r, not a TypeError / ValueError" % (decl, ex), replay)
    if "K" in ns:
        return "fail", "%s/%s/class-exists" % (base_key, sc), "the failed class statement left a class behind", replay
    return "ok", None, None, None


def replay_default(obj):
    probe = Probe()
    src = obj["source"]
    print(src)
    ns, ex = run_src(src)
    spelling, dsp, vsrc = obj["field_spelling"], obj["default_spelling"], obj["value"]
    if obj["kind"] == "invalid-default":
        print("the field declared as `%s` given %s at construction: %s" % (
            spelling, vsrc, probe.verdict(spelling, dsp.endswith("assign"), vsrc)))
    print("class statement:", "accepted, class %r" % ns.get("K") if ex is None else "raises %r" % ex)
    case = (obj["kind"], spelling, None, dsp, vsrc, obj["placement"], obj["declaration"])
    st, key, what, _ = judge_default_case(case, probe)
    print("required: the class statement raises TypeError/ValueError and binds no class ->", st, key or "")
    return 1 if st == "fail" else 0


def bare_spellings(f, style="ann"):
    """Spellings without a constructor call of the field AST f (only fields without constraints have any): the bare
    Field class and, in an annotation, the plain python type."""
    t = f["t"]
    ann = style == "ann"
    if t == "num" and f.get("mult") is None and f.get("min") is None and f.get("max") is None and not f.get("xmax"):
        cls = G.SIGN_CLASS[(f["k"], f["s"])]
        return [cls] + ({"Integer": ["int"], "Float": ["float"]}.get(cls, []) if ann else [])
    if t == "str" and f.get("min") is None and f.get("max") is None and f.get("pat") is None:
        return ["String"] + (["str"] if ann else [])
    if t == "bool":
        return ["Boolean"] + (["bool"] if ann else [])
    return []


# ------------------------------------------------------------------ 2. hierarchy-shape lattice

# shape -> [(class, [bases])] in definition order; classes named R* are roots and declare the field
SHAPES = {
    "chain4": [("R", ["Structure"]), ("A", ["R"]), ("B", ["A"]), ("C", ["B"])],
    "diamond": [("R", ["Structure"]), ("L", ["R"]), ("Rt", ["R"]), ("Bot", ["L", "Rt"])],
    "diamond-leaf": [("R", ["Structure"]), ("L", ["R"]), ("Rt", ["R"]), ("Bot", ["L", "Rt"]), ("Leaf", ["Bot"])],
    "diamond-tall-left": [("R", ["Structure"]), ("L", ["R"]), ("L2", ["L"]), ("Rt", ["R"]), ("Bot", ["L2", "Rt"])],
    "diamond-tall-right": [("R", ["Structure"]), ("L", ["R"]), ("Rt", ["R"]), ("Rt2", ["Rt"]), ("Bot", ["L", "Rt2"])],
    "double-diamond": [("R", ["Structure"]), ("L", ["R"]), ("Rt", ["R"]), ("Bot", ["L", "Rt"]), ("L9", ["Bot"]),
                       ("Rt9", ["Bot"]), ("Bot9", ["L9", "Rt9"])],
    "wide3": [("R", ["Structure"]), ("A", ["R"]), ("B", ["R"]), ("C", ["R"]), ("Bot", ["A", "B", "C"])],
    "triangle": [("R", ["Structure"]), ("L", ["R"]), ("Bot", ["L", "R"])],
    "two-roots": [("R", ["Structure"]), ("R2", ["Structure"]), ("J", ["R", "R2"]), ("K", ["J"])],
    "two-roots-diamond": [("R", ["Structure"]), ("R2", ["Structure"]), ("L", ["R", "R2"]), ("Rt", ["R2"]), ("Bot", ["L", "Rt"])],
    "mixin-diamond": [("R", ["Structure"]), ("L", ["Mx", "R"]), ("Rt", ["R"]), ("Bot", ["L", "Mx", "Rt"])],
    "abstract-diamond": [("R", ["AbstractStructure"]), ("L", ["R"]), ("Rt", ["R"]), ("Bot", ["L", "Rt"])],
    "grid": [("R", ["Structure"]), ("A", ["R"]), ("B", ["R"]), ("AB", ["A", "B"]), ("C", ["R"]), ("BC", ["B", "C"]),
             ("Bot", ["AB", "BC"])],
}

OVERRIDE_KINDS = ["default", "constraint+default", "constraint", "kw-default", "other-type", "constant"]


def _int_field(minimum=None):
    return {"t": "num", "k": "Integer", "s": "Any", "mult": None, "min": None if minimum is None else ("int", minimum),
            "max": None, "xmax": False}


def _decl(name, field, eqd=None, kwd=None, style="ann"):
    return {"name": name, "kind": "decl", "field": field, "imm": False, "style": style, "kwd": kwd, "eqd": eqd}


def _stmt(name, bases, members):
    return {"name": name, "bases": list(bases), "members": members, "required": None, "optional": None,
            "additional": None, "ignore_none": None, "attrs": [], "keys_of": []}


def override_member(kind, i):
    """The redeclaration of x in the i-th class (i >= 1): every class gets values of its own."""
    lo = 10 * i
    if kind == "default":
        return _decl("x", _int_field(), eqd=["lit", ("int", lo + 5)])
    if kind == "constraint+default":
        return _decl("x", _int_field(lo), eqd=["lit", ("int", lo + 5)])
    if kind == "constraint":
        return _decl("x", _int_field(lo))
    if kind == "kw-default":
        return _decl("x", _int_field(lo), kwd=["lit", ("int", lo + 7)], style="assign")
    if kind == "other-type":
        return _decl("x", {"t": "str", "min": None, "max": 2 + i, "pat": None}, eqd=["lit", ("str", "s%d" % i)])
    return {"name": "x", "kind": "const", "value": ("int", lo + 9)}


def shape_program(shape, overriders, kind_of, root_default, tag):
    """Program (defgen steps) of the shape: roots declare `name: String` and `x` (with or without default), the
    classes in `overriders` redeclare x as kind_of[class] says, the others add a field of their own or nothing."""
    steps = []
    if any("Mx" in b for _, b in SHAPES[shape]):
        steps.append(["mixin", "Mx"])
    ren = lambda n: n if n in D.BUILTIN_BASES or n == "Mx" else "%s_%s" % (n, tag)
    for i, (c, bases) in enumerate(SHAPES[shape]):
        members = []
        if c.startswith("R") and not c.startswith("Rt"):
            members.append(_decl("name", {"t": "str", "min": None, "max": None, "pat": None}))
            if root_default == "const":
                members.append({"name": "x", "kind": "const", "value": ("int", 5)})
            else:
                members.append(_decl("x", _int_field(), eqd=["lit", ("int", 1 + i)] if root_default else None))
        elif c in overriders:
            members.append(override_member(kind_of[c], i))
        elif i % 2:
            members.append(_decl("own%d" % i, _int_field(), eqd=["lit", ("int", 3)]))
        steps.append(["def", _stmt(ren(c), [ren(b) for b in bases], members)])
    return steps


def shape_programs(tier, seed):
    """[(shape, overriders, kinds, root_default, steps)].  Thorough: every subset of the non-root classes x every override
    kind (uniform) x root default yes/no; quick: every subset, kinds assigned in rotation (the offset moves with the seed)
    so that every kind meets every position of every shape, plus one mixed-kind program per shape."""
    out = []
    j = seed
    for shape, classes in SHAPES.items():
        non_roots = [c for c, _ in classes if not (c.startswith("R") and not c.startswith("Rt"))]
        subsets = []
        for r in range(0, len(non_roots) + 1):
            subsets += [list(s) for s in itertools.combinations(non_roots, r)]
        if len(subsets) > 40 and tier == "quick":
            subsets = [s for s in subsets if len(s) <= 2 or len(s) >= len(non_roots) - 1]
        for sub in subsets:
            kinds = OVERRIDE_KINDS if tier != "quick" else [OVERRIDE_KINDS[j % len(OVERRIDE_KINDS)]]
            roots = [True, False, "const"] if tier != "quick" else ["const" if j % 7 == 3 else j % 5 != 0]
            j += 1
            for k in kinds:
                for rd in roots:
                    out.append((shape, sub, {c: k for c in sub}, rd))
        # mixed kinds
        mixed = {c: OVERRIDE_KINDS[(j + n) % 4] for n, c in enumerate(non_roots)}
        out.append((shape, non_roots[1:], mixed, True))
        j += 1
    res = []
    for n, (shape, sub, kinds, rd) in enumerate(out):
        res.append((shape, sub, kinds, rd, shape_program(shape, sub, kinds, rd, "s%d" % n)))
    return res


def mro_attribute(cls, n):
    """What attribute lookup on the class finds for n: the first __dict__ along the MRO that has it."""
    for c in cls.__mro__:
        if n in getattr(c, "__dict__", {}):
            return c, c.__dict__[n]
    return None, None


K_CONST_SHADOW = "C14/inherited/constants-differ-from-mro-lookup"

PROBE_VALUES = [0, 1, 4, 12, 17, 25, 36, 48, 59, 1000, -3, "s", "s1", "abcdefgh", 2.5, True]


def _outcome(cls, kw, n):
    try:
        inst = cls(**kw)
    except Exception as ex:  # noqa
        name = E.exn_name(ex)
        return ("raise", "TypeError/ValueError" if name in ("TypeError", "ValueError") else name)
    try:
        return ("ok", repr(E.reify(getattr(inst, n))))
    except Exception as ex:  # noqa
        return ("raise-get", E.exn_name(ex))


def const_shadowed(cls, n):
    """The listed _constants defect applies to field n of cls: some class of its MRO lists n in _constants although
    attribute lookup from that class finds something that is not a Constant."""
    from typedpy.commons import Constant
    for c in cls.__mro__:
        if n in (getattr(c, "__dict__", {}).get("_constants") or {}):
            if not isinstance(mro_attribute(c, n)[1], Constant):
                return True
    return False


def _describe(o):
    d = getattr(o, "_default", None)
    return "%s(default=%r)" % (type(o).__name__, d() if callable(d) else d)


def mro_clauses(prog, ns, report, base_values=None):
    """On the implementation: for every realised class statement and every field of its field map,
    (a) the field map holds the very object attribute lookup finds along the MRO;
    (b) for a field the class does not redeclare, inherited from provider P (first class after it in the MRO that
        declares it): an instance built without it has the value P's instance has (the default), and every probe value
        is accepted / rejected / stored as by P.
    base_values: class name -> kwargs (python values) for the other required fields, or None to use name='n'."""
    from typedpy import Structure
    from typedpy.structures.structures import Field
    n_eval = 0
    for st in prog:
        if st[0] != "def":
            continue
        s = st[1]
        cls = ns.get(s["name"])
        if cls is None or not isinstance(cls, type) or not issubclass(cls, Structure):
            continue
        own = {m["name"] for m in s["members"]}
        fmap = cls.get_all_fields_by_name()
        abstract_direct = "AbstractStructure" in s["bases"]
        from typedpy.commons import Constant
        for n in getattr(cls, "_constants", {}):
            holder, attr = mro_attribute(cls, n)
            n_eval += 1
            if not isinstance(attr, Constant):
                report(K_CONST_SHADOW,
                       "%s._constants holds %r = %r, but attribute lookup along the MRO finds the %s declared in %s" % (
                           cls.__name__, n, cls._constants[n], type(attr).__name__, getattr(holder, "__name__", None)),
                       {"class": cls.__name__, "field": n})
        for n, fobj in fmap.items():
            holder, attr = mro_attribute(cls, n)
            n_eval += 1
            if attr is not fobj and (isinstance(attr, Field) or isinstance(fobj, Field)):
                report("C14/inherited/field-map-differs-from-mro-lookup",
                       "%s.get_all_fields_by_name()[%r] is not the attribute found along the MRO (in %s): %s vs %s" % (
                           cls.__name__, n, getattr(holder, "__name__", None), _describe(fobj), _describe(attr)),
                       {"class": cls.__name__, "field": n})
            if n in own or holder is None or holder is cls or not isinstance(attr, Field):
                continue
            P = holder
            if not (isinstance(P, type) and issubclass(P, Structure)) or abstract_direct:
                continue
            if "AbstractStructure" in [b.__name__ for b in P.__bases__] or P.__dict__.get("__init__") is not None:
                continue
            kc = (base_values or {}).get(cls.__name__, {"name": "n"})
            if kc is None:
                continue        # no valid instance of the class is known
            kc = dict(kc)
            if base_values is None and _outcome(cls, kc, n)[0] != "ok":
                continue
            kp = {k: v for k, v in kc.items() if k in P.get_all_fields_by_name()}
            if n in kc and (_outcome(cls, kc, n)[0] != "ok" or _outcome(P, kp, n)[0] != "ok"):
                continue        # (a field of P redeclared in cls with another type: P rejects cls's values) no reference
            kc.pop(n, None)
            kp.pop(n, None)
            if (n in P._required) == (n in cls._required):
                op_, oc_ = _outcome(P, kp, n), _outcome(cls, kc, n)
                n_eval += 1
                if op_ != oc_:
                    report("C14/inherited-default/differs-from-provider",
                           "field %r not given: %s (where it is declared) -> %s, %s (inherits it) -> %s" % (
                               n, P.__name__, op_, cls.__name__, oc_), {"class": cls.__name__, "field": n})
            for v in PROBE_VALUES:
                op_, oc_ = _outcome(P, dict(kp, **{n: v}), n), _outcome(cls, dict(kc, **{n: v}), n)
                n_eval += 1
                if op_ != oc_:
                    report("C14/inherited/value-differs-from-provider",
                           "inherited field %r given %r: %s -> %s, %s -> %s" % (n, v, P.__name__, op_, cls.__name__, oc_),
                           {"class": cls.__name__, "field": n, "value": repr(v)})
                    break
    return n_eval


# ------------------------------------------------------------------ 3. name-fault lattice

NAME_PRELUDE = ("class Address(Structure):\n    street: String\n    num: Integer = 1\n"
                "class FrozenAddr(ImmutableStructure):\n    street: String\n")

BAD_NAMES = ["_hidden", "_a", "_Private1", "__two", "_", "kwargs"]

# (member spelling class, style, source of the right-hand side / annotation, default text or None)
MEMBER_SPELLINGS = [
    ("field-instance", "ann", "Integer(minimum=1)", None), ("field-instance", "assign", "Integer(minimum=1)", None),
    ("field-instance", "ann", "String()", "'d'"), ("field-instance", "assign", "String(default='d')", None),
    ("field-class", "ann", "Integer", None), ("field-class", "assign", "String", None), ("field-class", "ann", "Integer", "3"),
    ("field-class", "ann", "ShortCode", None), ("field-class", "assign", "Big", None),
    ("field-subscript", "ann", "Array[Integer]", None), ("field-subscript", "assign", "Array[Integer]", None),
    ("field-subscript", "assign", "Map[String, Integer]", None), ("field-subscript", "ann", "AnyOf[Integer, String]", None),
    ("python-type", "ann", "int", None), ("python-type", "ann", "str", "'d'"), ("python-type", "ann", "list", None),
    ("typing", "ann", "t.List[int]", None), ("typing", "ann", "list[int]", None), ("typing", "ann", "Optional[int]", None),
    ("typing", "ann", "dict[str, int]", None),
    ("structure-class", "ann", "Address", None), ("structure-class", "assign", "Address", None),
    ("structure-class", "ann", "FrozenAddr", None), ("structure-class", "assign", "FrozenAddr", None),
    ("structure-in-generic", "ann", "Optional[Address]", None), ("structure-in-generic", "ann", "list[Address]", None),
    ("structure-in-generic", "assign", "Array[Address]", None),
    ("class-reference", "ann", "ClassReference(Address)", None), ("class-reference", "assign", "ClassReference(Address)", None),
    ("field-function", "assign", "SmallInt", None),
    ("constant", "assign", "Constant(3)", None), ("constant", "assign", "Constant('k')", None),
    ("enum-class", "ann", "Color", None), ("enum-class", "assign", "Enum[Color]", None),
]

# (label, source before, header, members before, members after)
NAME_PLACEMENTS = [
    ("root-alone", "", "class K(Structure):", [], []),
    ("root-between", "", "class K(Structure):", ["first: String"], ["last: Integer = 3"]),
    ("root-closed", "", "class K(Structure):", ["first: String"], ["_additional_properties = False"]),
    ("root-open", "", "class K(Structure):", [], ["_additional_properties = True", "last: Integer = 3"]),
    ("root-required-listed", "", "class K(Structure):", ["first: String"], ["_required = ['first']"]),
    ("root-optional-listed", "", "class K(Structure):", ["first: String"], ["_optional = ['first']"]),
    ("subclass", "class B0(Structure):\n    name: String\n", "class K(B0):", [], []),
    ("subclass-closed", "class B0(Structure):\n    name: String\n    _additional_properties = False\n", "class K(B0):", [],
     ["_additional_properties = False"]),
    ("subclass-multi", "class B0(Structure):\n    name: String\nclass C0(Structure):\n    c: Integer = 1\n", "class K(B0, Mx, C0):",
     [], ["tail: Boolean = True"]),
    ("diamond-bottom", "class R(Structure):\n    name: String\nclass L1(R):\n    pass\nclass R1(R):\n    r: Integer = 2\n",
     "class K(L1, R1):", [], []),
    ("abstract-child", "", "class K(AbstractStructure):", ["first: String"], []),
    ("immutable-child", "", "class K(ImmutableStructure):", [], ["last: Integer = 3"]),
]

GUARD_SETTINGS = [(True, True), (False, True), (True, False), (False, False)]


def member_line(name, style, rhs, default):
    if style == "ann":
        return "%s: %s" % (name, rhs) + (" = %s" % default if default is not None else "")
    return "%s = %s" % (name, rhs)


def name_cases(tier, seed):
    """(member class, style, rhs, default, bad name, placement index, guards).  Thorough: the full product with the guards
    on, plus every guard setting on two placements; quick: every (spelling x name) on three placements and one guard
    setting in rotation (offset moves with the seed)."""
    out = []
    i = seed
    for sc, style, rhs, default in MEMBER_SPELLINGS:
        for nm in BAD_NAMES:
            if tier == "quick":
                for k in range(3):
                    out.append((sc, style, rhs, default, nm, (i * 5 + k * 4) % len(NAME_PLACEMENTS),
                                GUARD_SETTINGS[0] if k else GUARD_SETTINGS[i % 4]))
                i += 1
            else:
                for p in range(len(NAME_PLACEMENTS)):
                    out.append((sc, style, rhs, default, nm, p, (True, True)))
                for gs in GUARD_SETTINGS[1:]:
                    for p in (i % len(NAME_PLACEMENTS), 2):
                        out.append((sc, style, rhs, default, nm, p, gs))
                i += 1
    return out


def _run_guarded(src, guards):
    from typedpy.structures import TypedPyDefaults
    from typedpy import Structure
    saved = (TypedPyDefaults.block_unknown_consts, Structure.__dict__.get("_block_non_typedpy_field_assignment", None))
    try:
        TypedPyDefaults.block_unknown_consts = bool(guards[0])
        Structure.set_block_non_typedpy_field_assignment(bool(guards[1]))
        return run_src(src)
    finally:
        TypedPyDefaults.block_unknown_consts = saved[0]
        if saved[1] is None:
            if "_block_non_typedpy_field_assignment" in Structure.__dict__:
                delattr(Structure, "_block_non_typedpy_field_assignment")
        else:
            Structure.set_block_non_typedpy_field_assignment(saved[1])


def name_src(case, name):
    sc, style, rhs, default, _, p, _ = case
    label, pre, header, before, after = NAME_PLACEMENTS[p]
    body = list(before) + [member_line(name, style, rhs, default)] + list(after)
    return NAME_PRELUDE + pre + header + "\n" + "".join("    %s\n" % b for b in body)


def judge_name_case(case):
    """The same statement with the member called `okname` must define a class in which okname IS a field (else the member
    spelling does not declare a field under these settings: skip); with the bad name it must raise TypeError/ValueError
    and bind no class."""
    sc, style, rhs, default, nm, p, gs = case
    label = NAME_PLACEMENTS[p][0]
    ns0, ex0 = _run_guarded(name_src(case, "okname"), gs)
    if ex0 is not None or "okname" not in ns0["K"].get_all_fields_by_name():
        return "skip", None, None, None
    src = name_src(case, nm)
    ns, ex = _run_guarded(src, gs)
    kind = "name-kwargs" if nm == "kwargs" else "name-underscore"
    replay = {"lattice": "name", "case": list(case), "source": src, "guards": list(gs), "python": PRELUDE + "\n" + src,
              "member": member_line(nm, style, rhs, default), "placement": label}
    if ex is None:
        return ("fail", "C14/fault/%s/%s-%s/accepted" % (kind, sc, style),
                "class statement with member `%s` (%s, guards %s) was accepted although %r is an invalid field name; "
                "fields of the class: %s" % (member_line(nm, style, rhs, default), label, gs, nm,
                                            list(ns["K"].get_all_fields_by_name())), replay)
    if not isinstance(ex, (TypeError, ValueError)):
        return ("fail", "C14/fault/%s/%s-%s/raises-%s" % (kind, sc, style, E.exn_name(ex)),
                "member `%s` raises %r, not a TypeError / ValueError" % (member_line(nm, style, rhs, default), ex), replay)
    if "K" in ns:
        return "fail", "C14/fault/%s/%s-%s/class-exists" % (kind, sc, style), "the failed class statement left a class behind", replay
    return "ok", None, None, None


def replay_name(obj):
    case = tuple(obj["case"][:6]) + (tuple(obj["case"][6]),)
    print(obj["source"])
    ns, ex = _run_guarded(obj["source"], case[6])
    print("guards (block_unknown_consts, block_non_typedpy):", case[6])
    print("class statement:", "accepted, fields %s" % list(ns["K"].get_all_fields_by_name()) if ex is None else "raises %r" % ex)
    st, key, what, _ = judge_name_case(case)
    print("required: the class statement raises TypeError/ValueError and binds no class ->", st, key or "")
    return 1 if st == "fail" else 0
