"""C18: the deterministic part of the input space.

The statement quantifies over "any subset of fields made invalid IN ANY WAY".  The random generator of
harness/props/c18.py samples that space; this module ENUMERATES the part of it that is small and where
one missing point hides a whole class of defects:

    leaf field kind  x  class of the wrong value  x  position of the leaf in the top-level field

* leaf kinds: every scalar field class of typedpy (the Number/Integer/Float families with every sign
  mix-in and with bounds, String with and without bounds, Boolean, Enum over a list of values, Enum over
  an enum class with the short and the long (>= 11 members) message);
* value classes: one value of every Python class a caller can plausibly hand over instead of the right
  one -- hashable and unhashable, orderable against numbers or not, falsy and truthy;
* positions: the field itself, an element of Array (also with uniqueItems) / Deque (same item for all,
  positional), of Tuple, of Set, a key and a value of Map.

Nothing here knows which combination is a defect: each point is evaluated by the same oracles and
clauses as a random case (c18.evaluate_case)."""
import enum

from harness import fieldgen as G


class Wide(enum.Enum):
    """An enum class with more than 10 members: Enum._validate words its message differently then."""
    M01 = 1
    M02 = 2
    M03 = 3
    M04 = 4
    M05 = 5
    M06 = 6
    M07 = 7
    M08 = 8
    M09 = 9
    M10 = 10
    M11 = 11
    M12 = 12


# only processes that import this module (the C18 check and its replays) see the extra class
G.ENUMS.setdefault("Wide", Wide)

IMPORTS = "from harness.c18lattice import Wide\n"


def _num(k, s, **kw):
    f = {"t": "num", "k": k, "s": s}
    f.update(kw)
    return f


def _valid_num(k, s):
    x = {"Any": 3, "Positive": 3, "Negative": -3, "NonPositive": -3, "NonNegative": 3}[s]
    return ("flt", 3 if x > 0 else -3, 0) if k == "Float" else ("int", x)


LEAVES = []
for _k in ("Number", "Integer", "Float"):
    for _s in ("Any", "Positive", "Negative", "NonPositive", "NonNegative"):
        LEAVES.append(("%s/%s" % (_k, _s), _num(_k, _s), _valid_num(_k, _s)))
LEAVES += [
    ("Integer/bounds", _num("Integer", "Any", min=("int", 1), max=("int", 10)), ("int", 4)),
    ("Number/mult", _num("Number", "Any", mult=2), ("int", 4)),
    ("Float/xmax", _num("Float", "Any", max=("flt", 5, -1), xmax=True), ("flt", 1, 0)),
    ("String", {"t": "str"}, ("str", "abc")),
    ("String/len", {"t": "str", "min": 2, "max": 4}, ("str", "abc")),
    ("String/pat", {"t": "str", "pat": 0}, ("str", "abc")),
    ("Boolean", {"t": "bool"}, ("bool", True)),
    ("Enum/strs", {"t": "enumlit", "values": [("str", "a"), ("str", "abc")]}, ("str", "a")),
    ("Enum/ints", {"t": "enumlit", "values": [("int", 1), ("int", 2), ("int", 3)]}, ("int", 2)),
    ("Enum/mixed", {"t": "enumlit", "values": [("str", "x"), ("int", 2), ("flt", 5, -1)]}, ("str", "x")),
    ("Enum/Color", {"t": "enumcls", "cls": "Color", "members": ["RED", "GREEN", "BLUE"]}, ("str", "RED")),
    ("Enum/Size-subset", {"t": "enumcls", "cls": "Size", "members": ["S", "M"]}, ("str", "M")),
    ("Enum/Wide", {"t": "enumcls", "cls": "Wide", "members": [m.name for m in Wide]}, ("str", "M03")),
]

_ONE = [("int", 1)]
WRONG = [
    ("int", ("int", 5)), ("zero", ("int", 0)), ("negint", ("int", -3)), ("bigint", ("int", 987654)),
    ("huge-int", ("int", 10 ** 400)),
    ("float", ("flt", 5, -1)), ("bool", ("bool", True)),
    ("str", ("str", "zz")), ("empty-str", ("str", "")), ("digit-str", ("str", "7")), ("str-semicolon", ("str", "q;r")),
    ("list", ("list", _ONE)), ("empty-list", ("list", [])),
    ("dict", ("dict", [(("str", "k"), ("int", 1))])), ("empty-dict", ("dict", [])),
    ("set", ("set", False, _ONE)), ("frozenset", ("set", True, _ONE)),
    ("tuple", ("tuple", _ONE)), ("empty-tuple", ("tuple", [])), ("tuple-of-list", ("tuple", [("list", [])])),
    ("deque", ("deque", _ONE)),
    ("enum-member", ("enum", "Color", "RED", ("int", 1))),
]

_STR = {"t": "str"}
_X = ("str", "x")
_NOSZ = [None, None]


def _top(leaf, ok, bad):
    return leaf, bad, ok, ()


def _arr_each(leaf, ok, bad):
    return ({"t": "seqeach", "k": "list", "item": leaf, "sz": _NOSZ, "uniq": False},
            ("list", [ok, bad, ok]), ("list", [ok, ok, ok]), ("index", 1))


def _arr_unique(leaf, ok, bad):
    try:
        if G.unreify(bad, {}) == G.unreify(ok, {}):
            return None            # [bad, ok] would break uniqueness, not the item's type
    except Exception:  # noqa
        return None
    return ({"t": "seqeach", "k": "list", "item": leaf, "sz": _NOSZ, "uniq": True},
            ("list", [bad, ok]), ("list", [ok]), ("index", 0))


def _deq_each(leaf, ok, bad):
    return ({"t": "seqeach", "k": "deque", "item": leaf, "sz": _NOSZ, "uniq": False},
            ("deque", [bad, ok]), ("deque", [ok, ok]), ("index", 0))


def _arr_pos(leaf, ok, bad):
    return ({"t": "seqpos", "k": "list", "items": [leaf, _STR], "sz": _NOSZ, "uniq": False, "additional": None},
            ("list", [bad, _X]), ("list", [ok, _X]), ("index", 0))


def _tuple(leaf, ok, bad):
    return ({"t": "tuple", "items": [_STR, leaf], "uniq": False},
            ("tuple", [_X, bad]), ("tuple", [_X, ok]), ("index", 1))


def _set(leaf, ok, bad):
    if not G.is_hashable(bad):
        return None
    return ({"t": "set", "imm": False, "item": leaf, "sz": _NOSZ},
            ("set", False, [bad]), ("set", False, [ok]), ())


def _map_key(leaf, ok, bad):
    if not G.is_hashable(bad):
        return None
    return ({"t": "mapkv", "kf": leaf, "vf": _STR, "sz": _NOSZ},
            ("dict", [(bad, _X)]), ("dict", [(ok, _X)]), ("key",))


def _map_val(leaf, ok, bad):
    return ({"t": "mapkv", "kf": _STR, "vf": leaf, "sz": _NOSZ},
            ("dict", [(("str", "k"), bad)]), ("dict", [(("str", "k"), ok)]), ("value",))


POSITIONS = [("top", _top), ("array-item", _arr_each), ("unique-array-item", _arr_unique), ("deque-item", _deq_each),
             ("array-positional", _arr_pos),
             ("tuple-positional", _tuple), ("set-item", _set), ("map-key", _map_key), ("map-value", _map_val)]


def points(tier, seed):
    """[(label, class AST, kwargs [(name, reified)], meta, baseline {name: reified})].
    thorough: the whole product.  quick: every (leaf, value) at top level and in ONE other position that
    rotates with the seed, so that five seeds cover the product once more."""
    out = []
    n = 0
    inner = POSITIONS[1:]
    for li, (ll, leaf, ok) in enumerate(LEAVES):
        for wi, (wl, bad) in enumerate(WRONG):
            if tier == "thorough":
                chosen = POSITIONS
            else:
                chosen = [POSITIONS[0], inner[(li * 5 + wi * 3 + seed) % len(inner)]]
            for pl, mk in chosen:
                r = mk(leaf, ok, bad)
                if r is None:
                    continue
                field, value, valid, exp = r
                fields = [{"name": "a", "field": field}, {"name": "b", "field": _STR}]
                kw = [("a", value), ("b", ("str", "ok"))]
                base = {"a": valid, "b": ("str", "ok")}
                if n % 2:          # every other point: a second, ordinarily invalid, field after it
                    fields.append({"name": "c", "field": _num("Integer", "Any", max=("int", 9))})
                    kw.append(("c", ("int", 50)))
                    base["c"] = ("int", 1)
                cast = {"name": "L%d" % n, "fields": fields, "required": [], "additional": False}
                kind = "type" if pl == "top" else {"map-key": "key", "map-value": "val"}.get(pl, "elem")
                out.append(("%s|%s|%s" % (ll, wl, pl), cast, kw, {"a": (kind, exp)}, base))
                n += 1
    # per-error-kind accounting of collect-all mode: a value of the RIGHT class that breaks a bound, a sign, a
    # size, uniqueness or a length, in every position, always next to a second field that the deserializer's
    # own validation rejects - which of these errors survive in the report is decided by the clauses
    leaves = {ll: (leaf, ok) for ll, leaf, ok in LEAVES}
    for ll, bad in BOUND_BAD:
        leaf, ok = leaves[ll]
        for pl, mk in POSITIONS:
            r = mk(leaf, ok, bad)
            if r is None:
                continue
            field, value, valid, exp = r
            out.append(_with_rejected_sibling(n, "%s|out-of-bound|%s" % (ll, pl), field, value, valid,
                                              "bound" if pl == "top" else "elem", exp))
            n += 1
    for label, field, value, valid in SHAPE_BAD:
        out.append(_with_rejected_sibling(n, "%s|shape|top" % label, field, value, valid, "bound", ()))
        n += 1
    return out


def _with_rejected_sibling(n, label, field, value, valid, kind, exp):
    fields = [{"name": "a", "field": field}, {"name": "b", "field": _STR},
              {"name": "c", "field": _num("Integer", "Any", max=("int", 9))}]
    kw = [("a", value), ("b", ("str", "ok")), ("c", ("int", 50))]
    base = {"a": valid, "b": ("str", "ok"), "c": ("int", 1)}
    cast = {"name": "L%d" % n, "fields": fields, "required": [], "additional": False}
    return (label, cast, kw, {"a": (kind, exp)}, base)


# right class, wrong value
BOUND_BAD = [("Integer/bounds", ("int", 50)), ("Number/mult", ("int", 3)), ("Float/xmax", ("flt", 3, 0)),
             ("String/len", ("str", "toolong")), ("String/pat", ("str", "ABC")),
             # multi-line texts against maxLength / minLength / pattern
             ("String/len", ("str", "too\nlong")), ("String/len", ("str", "\n")), ("String/pat", ("str", "ab\nCD")),
             ("String/len", ("str", "two\nlines; and a semicolon")),
             ("Integer/Positive", ("int", -3)), ("Number/NonNegative", ("int", -3)), ("Float/Negative", ("flt", 3, 0))]

_INT = _num("Integer", "Any")
_I = lambda z: ("int", z)  # noqa: E731
# right element classes, wrong size / uniqueness / length of the collection
SHAPE_BAD = [
    ("array/maxItems", {"t": "seqeach", "k": "list", "item": _INT, "sz": [None, 2], "uniq": False},
     ("list", [_I(1), _I(2), _I(3)]), ("list", [_I(1)])),
    ("array/minItems", {"t": "seqeach", "k": "list", "item": _INT, "sz": [2, None], "uniq": False},
     ("list", [_I(1)]), ("list", [_I(1), _I(2)])),
    ("array/uniqueItems", {"t": "seqeach", "k": "list", "item": _INT, "sz": _NOSZ, "uniq": True},
     ("list", [_I(1), _I(1)]), ("list", [_I(1)])),
    ("deque/maxItems", {"t": "seqeach", "k": "deque", "item": _INT, "sz": [None, 1], "uniq": False},
     ("deque", [_I(1), _I(2)]), ("deque", [_I(1)])),
    ("set/maxItems", {"t": "set", "imm": False, "item": _INT, "sz": [None, 1]},
     ("set", False, [_I(1), _I(2)]), ("set", False, [_I(1)])),
    ("map/maxItems", {"t": "mapkv", "kf": _STR, "vf": _INT, "sz": [None, 1]},
     ("dict", [(("str", "k"), _I(1)), (("str", "m"), _I(2))]), ("dict", [(("str", "k"), _I(1))])),
    ("array-positional/too-long", {"t": "seqpos", "k": "list", "items": [_INT, _STR], "sz": _NOSZ, "uniq": False, "additional": False},
     ("list", [_I(1), _X, _I(3)]), ("list", [_I(1), _X])),
    ("deque-positional/too-long", {"t": "seqpos", "k": "deque", "items": [_INT, _STR], "sz": _NOSZ, "uniq": False, "additional": False},
     ("deque", [_I(1), _X, _I(3)]), ("deque", [_I(1), _X])),
    ("tuple/too-long", {"t": "tuple", "items": [_STR, _INT], "uniq": False},
     ("tuple", [_X, _I(1), _I(2)]), ("tuple", [_X, _I(1)])),
]
