"""Common machinery of the typedpy verification harness: Coq build and evaluation, evidence,
known findings, violation reporting.  Everything here runs under /venv/bin/python with
PYTHONPATH=/repo so that `import typedpy` is the working tree under verification."""
import fcntl
import hashlib
import json
import os
import re
import shutil
import subprocess
import sys
import time

VERIF = os.path.dirname(os.path.dirname(os.path.abspath(__file__)))
REPO = os.environ.get("TYPEDPY_REPO", "/repo")
COQDIR = os.path.join(VERIF, "coq")
WORK = os.path.join(VERIF, ".work")
EVIDENCE = os.path.join(VERIF, "evidence")
REPLAYS = os.path.join(EVIDENCE, "replays")
PY = "/venv/bin/python"
NPROC = max(2, min(16, os.cpu_count() or 4))

COQ_FLAGS = ["-Q", os.path.join(COQDIR, "theories"), "TP",
             "-w", "-notation-overridden,-deprecated-hint-without-locality,-deprecated-instance-without-locality"]

FORBIDDEN = re.compile(
    r"\b(Admitted|admit|Axiom|Axioms|Parameter|Parameters|Conjecture|Conjectures|"
    r"Admit\s+Obligations|bypass_check)\b|Unset\s+Guard|Unset\s+Positivity|Unset\s+Universe|"
    r"type-in-type|impredicative-set")


def seed():
    try:
        return int(os.environ.get("VERIF_SEED", "0"))
    except ValueError:
        return 0


def changed_sources():
    """typedpy/**/*.py files whose content differs from the recorded baseline (baseline_tree.json): the
    tree the checks were last shown to pass on.  Empty list = unchanged tree (or no baseline recorded)."""
    try:
        base = json.load(open(os.path.join(VERIF, "baseline_tree.json")))["files"]
    except Exception:  # noqa
        return []
    now = {}
    for root, _, files in os.walk(os.path.join(REPO, "typedpy")):
        for f in files:
            if f.endswith(".py"):
                p = os.path.join(root, f)
                try:
                    now[os.path.relpath(p, REPO)] = hashlib.sha256(open(p, "rb").read()).hexdigest()
                except OSError:
                    now[os.path.relpath(p, REPO)] = "unreadable"
    return sorted(k for k in set(base) | set(now) if base.get(k) != now.get(k))


def workdir(tag):
    d = os.path.join(WORK, f"{tag}-{os.getpid()}")
    os.makedirs(d, exist_ok=True)
    return d


def cleanup(d):
    shutil.rmtree(d, ignore_errors=True)


# ----------------------------------------------------------------------------- Coq build

def all_v_files():
    out = []
    for root, _, files in os.walk(os.path.join(COQDIR, "theories")):
        for f in files:
            if f.endswith(".v"):
                out.append(os.path.relpath(os.path.join(root, f), COQDIR))
    return sorted(out)


def grep_gate():
    """No Admitted/Axiom/... anywhere in the development (comments are stripped first)."""
    bad = []
    for rel in all_v_files():
        text = open(os.path.join(COQDIR, rel)).read()
        text = strip_coq_comments(text)
        for i, line in enumerate(text.split("\n"), 1):
            if FORBIDDEN.search(line):
                bad.append(f"{rel}:{i}: {line.strip()[:100]}")
            if re.match(r"\s*(Variable|Variables|Hypothesis|Hypotheses|Context)\b", line):
                pass  # checked below: only inside sections
    bad += section_gate()
    return bad


def strip_coq_comments(text):
    out = []
    depth = 0
    i = 0
    n = len(text)
    instr = False
    while i < n:
        if depth == 0 and text[i] == '"':
            instr = not instr
            out.append(text[i]); i += 1; continue
        if not instr and text.startswith("(*", i):
            depth += 1; i += 2; continue
        if not instr and depth > 0 and text.startswith("*)", i):
            depth -= 1; i += 2; continue
        if depth == 0:
            out.append(text[i])
        elif text[i] == "\n":
            out.append("\n")
        i += 1
    return "".join(out)


def section_gate():
    """Variable/Hypothesis only inside a Section."""
    bad = []
    for rel in all_v_files():
        text = strip_coq_comments(open(os.path.join(COQDIR, rel)).read())
        depth = 0
        for i, line in enumerate(text.split("\n"), 1):
            if re.match(r"\s*Section\s+\w+", line):
                depth += 1
            elif re.match(r"\s*End\s+\w+\s*\.", line) and depth > 0:
                # may also close a Module; modules are not used with Variables here
                depth -= 1
            elif re.match(r"\s*(Variable|Variables|Hypothesis|Hypotheses|Context)\b", line) and depth == 0:
                bad.append(f"{rel}:{i}: section-less {line.strip()[:80]}")
    return bad


def _lock():
    os.makedirs(WORK, exist_ok=True)
    f = open(os.path.join(WORK, "build.lock"), "w")
    fcntl.flock(f, fcntl.LOCK_EX)
    return f


def write_if_changed(path, text):
    try:
        if open(path).read() == text:
            return False
    except OSError:
        pass
    os.makedirs(os.path.dirname(path), exist_ok=True)
    tmp = path + ".tmp%d" % os.getpid()
    with open(tmp, "w") as f:
        f.write(text)
    os.replace(tmp, path)
    return True


def build(targets=None, timeout=1500):
    """Full .vo build (never -vos) of the requested targets under a lock.
    Returns (ok, log, failed_file)."""
    lock = _lock()
    try:
        files = all_v_files()
        proj = open(os.path.join(COQDIR, "_CoqProject")).read().split("\n")
        proj = [l for l in proj if l.strip() and not l.strip().endswith(".v")]
        write_if_changed(os.path.join(COQDIR, "_CoqProject.full"), "\n".join(proj + files) + "\n")
        mk = os.path.join(COQDIR, "Makefile")
        regen = not os.path.exists(mk) or \
            os.path.getmtime(mk) < os.path.getmtime(os.path.join(COQDIR, "_CoqProject.full"))
        if regen:
            subprocess.run(["coq_makefile", "-f", "_CoqProject.full", "-o", "Makefile"],
                           cwd=COQDIR, check=True, capture_output=True)
        cmd = ["timeout", str(timeout), "make", "-j%d" % NPROC]
        if targets:
            cmd += [t if t.endswith(".vo") else t + "o" for t in targets]
        p = subprocess.run(cmd, cwd=COQDIR, capture_output=True, text=True)
        log = p.stdout + p.stderr
        failed = None
        if p.returncode != 0:
            m = re.search(r'File "\./?([^"]+)", line (\d+)', log)
            if m:
                failed = f"{m.group(1)}:{m.group(2)}"
            else:
                failed = "make"
        return p.returncode == 0, log, failed
    finally:
        lock.close()


def coqc_file(path, timeout=600, cwd=None):
    p = subprocess.run(["timeout", str(timeout), "coqc"] + COQ_FLAGS + [path],
                       cwd=cwd or os.path.dirname(path), capture_output=True, text=True)
    return p.returncode, p.stdout, p.stderr


def check_props(prop_file):
    """(Re)compile Props/<prop_file>.v on its own to collect the `Print Assumptions` output.
    Returns dict: ok, theorems [{name, assumptions}], log."""
    path = os.path.join(COQDIR, "theories", "Props", prop_file + ".v")
    src = strip_coq_comments(open(path).read())
    names = re.findall(r"^\s*(?:Theorem|Lemma|Corollary)\s+(\w+)", src, re.M)
    printed = re.findall(r"Print\s+Assumptions\s+(\w+)", src)
    # compile into a scratch copy so that a concurrent make is not disturbed
    d = workdir("props")
    try:
        tmp = os.path.join(d, prop_file + "_chk.v")
        shutil.copy(path, tmp)
        rc, out, err = coqc_file(tmp)
    finally:
        cleanup(d)
    blocks = []
    cur = None
    for line in out.split("\n"):
        if line.startswith("Closed under the global context"):
            blocks.append([])
            cur = None
        elif line.startswith("Axioms:"):
            cur = []
            blocks.append(cur)
        elif cur is not None and line.strip():
            cur.append(line.strip())
    theorems = []
    for i, n in enumerate(printed):
        theorems.append({"name": n, "assumptions": blocks[i] if i < len(blocks) else ["<missing>"]})
    return {"ok": rc == 0 and len(blocks) == len(printed) and set(names) <= set(printed),
            "theorems": theorems, "declared": names, "log": (out + err)[-4000:]}


def coqchk(prop_file, timeout=1500):
    """Independent re-check of Props/<prop_file>.vo and everything it depends on; axioms it relies on."""
    p = subprocess.run(["timeout", str(timeout), "coqchk", "-silent", "-o", "-Q", "theories", "TP",
                        "TP.Props." + prop_file], cwd=COQDIR, capture_output=True, text=True)
    log = p.stdout + p.stderr
    m = re.search(r"\* Axioms:(.*?)\n\s*\n\* Constants/Inductives relying on type-in-type:(.*?)\n\s*\n"
                  r"\* Constants/Inductives relying on unsafe \(co\)fixpoints:(.*?)\n\s*\n"
                  r"\* Inductives whose positivity is assumed:(.*?)\n", log, re.S)
    if p.returncode != 0 or not m:
        return {"ok": False, "summary": "coqchk failed (rc %d)" % p.returncode, "log": log}
    ax, tit, unsafe, pos = [" ".join(x.split()) for x in m.groups()]
    ok = tit == "<none>" and unsafe == "<none>" and pos == "<none>"
    return {"ok": ok, "log": log,
            "summary": "axioms: %s; type-in-type: %s; unsafe fixpoints: %s; assumed positivity: %s" % (ax, tit, unsafe, pos)}


# ----------------------------------------------------------------------------- running cases in Coq

def eval_cases(shards, tag, header, timeout=900):
    """shards: list of Coq source texts (each a complete file body after `header`), evaluated in
    parallel.  Returns list of (rc, stdout, stderr)."""
    d = workdir(tag)
    procs = []
    results = [None] * len(shards)
    try:
        paths = []
        for i, body in enumerate(shards):
            p = os.path.join(d, f"cases_{tag}_{i}.v")
            with open(p, "w") as f:
                f.write(header + "\n" + body)
            paths.append(p)
        running = []
        idx = 0
        while idx < len(paths) or running:
            while idx < len(paths) and len(running) < NPROC:
                pr = subprocess.Popen(["timeout", str(timeout), "coqc"] + COQ_FLAGS + [paths[idx]],
                                      cwd=d, stdout=subprocess.PIPE, stderr=subprocess.PIPE, text=True)
                running.append((idx, pr))
                idx += 1
            still = []
            for i, pr in running:
                if pr.poll() is None:
                    still.append((i, pr))
                else:
                    out, err = pr.communicate()
                    results[i] = (pr.returncode, out, err)
            running = still
            if running:
                time.sleep(0.05)
        # a shard killed by the time limit or by the OS (no Coq error message: rc 124/137/-9, empty stderr) says
        # nothing about the model: re-run it alone, once, with a longer limit, before reporting it as failed
        for i, r in enumerate(results):
            if r is not None and r[0] != 0 and not (r[2] or "").strip() and "Error" not in (r[1] or ""):
                try:
                    pr = subprocess.run(["timeout", str(timeout * 3), "coqc"] + COQ_FLAGS + [paths[i]], cwd=d,
                                        capture_output=True, text=True)
                    results[i] = (pr.returncode, pr.stdout,
                                  pr.stderr or ("coqc exited with status %d and no message (first attempt: %d)" % (pr.returncode, r[0])
                                                if pr.returncode else ""))
                except Exception as ex:  # noqa
                    results[i] = (r[0], r[1], "retry failed: %r" % (ex,))
        return results
    finally:
        cleanup(d)


def parse_eval(out):
    """Splits coqc stdout into the values printed by successive `Eval ... in` commands,
    each flattened to one line (without the trailing `: type`)."""
    vals = []
    cur = None
    for line in out.split("\n"):
        if line.startswith("     = "):
            if cur is not None:
                vals.append(cur)
            cur = line[7:]
        elif cur is not None:
            if line.startswith("     : "):
                vals.append(cur)
                cur = None
            else:
                cur += " " + line.strip()
    if cur is not None:
        vals.append(cur)
    return [re.sub(r"\s+", " ", v).strip() for v in vals]


def parse_nat_list(s):
    s = s.strip()
    s = re.sub(r"%\w+", "", s)
    if s in ("[]", "nil"):
        return []
    return [int(x) for x in re.findall(r"\d+", s)]


# ----------------------------------------------------------------------------- findings, evidence

def load_known():
    try:
        return json.load(open(os.path.join(VERIF, "known_findings.json")))["findings"]
    except OSError:
        return []


class Report:
    """Collects the outcome of one check and turns it into stdout lines, evidence and exit code."""

    def __init__(self, pid, tier):
        self.pid = pid
        self.tier = tier
        self.t0 = time.time()
        self.obligations = []          # (name, discharged: bool, detail)
        self.violations = []           # dict(key, what, replay)
        self.known_hits = {}           # key -> count
        self.cov = {"evaluations": 0, "distinct_nontrivial": 0, "samples": [], "streams": {}}
        self.assumptions = []
        self.trusted = []
        self.distinct = set()
        self.known = [k for k in load_known() if k.get("property") == pid]

    # obligations ---------------------------------------------------------
    def obligation(self, name, ok, detail=""):
        self.obligations.append((name, bool(ok), detail))

    # coverage ------------------------------------------------------------
    def count(self, stream, n=1, nontrivial_key=None):
        self.cov["evaluations"] += n
        s = self.cov["streams"].setdefault(stream, {"evaluations": 0})
        s["evaluations"] += n
        if nontrivial_key is not None:
            self.distinct.add((stream, nontrivial_key))

    def sample(self, obj, limit=6):
        if len(self.cov["samples"]) < limit:
            self.cov["samples"].append(obj)

    def stat(self, stream, key, n=1):
        s = self.cov["streams"].setdefault(stream, {"evaluations": 0})
        d = s.setdefault("dist", {})
        d[key] = d.get(key, 0) + n

    # findings ------------------------------------------------------------
    def finding(self, key, what, replay_obj):
        """A concrete input on which the implementation breaks the property.
        `key` identifies the call site / table entry / input shape."""
        for k in self.known:
            if k.get("status", "open") == "open" and re.fullmatch(k["match"], key):
                self.known_hits.setdefault(k["id"], [0, k, what])
                self.known_hits[k["id"]][0] += 1
                return False
        for v in self.violations:
            if v["key"] == key:
                v["count"] += 1
                return True
        self.violations.append({"key": key, "what": what, "replay_obj": replay_obj, "count": 1,
                                "no_input": False})
        return True

    def broken(self, name, detail, replay_obj=None):
        """A theorem / correspondence stream that no longer checks and for which no concrete
        failing input was found."""
        self.violations.append({"key": "broken:" + name, "what": detail,
                                "replay_obj": dict(replay_obj or {}, broken=name, detail=detail[-3000:]),
                                "count": 1, "no_input": True})

    # finish --------------------------------------------------------------
    def finish(self, level="proof", checker_cmd="", rule="", extra=None):
        os.makedirs(REPLAYS, exist_ok=True)
        lines = []
        for hid, (n, k, what) in sorted(self.known_hits.items()):
            lines.append(f"KNOWN-FINDING: property={self.pid} {hid}: {k.get('summary', what)} ({n} case(s) this run)")
        # every listed (open) finding of this property gets its line, also when this run's inputs did not meet it
        for k in self.known:
            if k.get("id") not in self.known_hits and str(k.get("status", "open")).startswith("open"):
                lines.append(f"KNOWN-FINDING: property={self.pid} {k.get('id')}: {k.get('summary', '')} "
                             f"(listed; not met by this run's inputs)")
        # a concrete failing input makes the companion "broken obligation" reports redundant only
        # if they are about the same stream; keep all, concrete ones first
        self.violations.sort(key=lambda v: v["no_input"])
        import glob
        for old in glob.glob(os.path.join(REPLAYS, f"{self.pid}-*.json")):   # replays of earlier runs are stale
            try:
                os.remove(old)
            except OSError:
                pass
        for v in self.violations:
            h = hashlib.sha1((self.pid + v["key"]).encode()).hexdigest()[:10]
            path = os.path.join(REPLAYS, f"{self.pid}-{h}.json")
            obj = {"property": self.pid, "finding_key": v["key"], "what": v["what"],
                   "count": v["count"], "seed": seed(), "tier": self.tier}
            obj.update(v["replay_obj"] or {})
            with open(path, "w") as f:
                json.dump(obj, f, indent=1, default=str)
            tail = " no-failing-input-found" if v["no_input"] else ""
            lines.append(f"VIOLATION property={self.pid} replay={path}{tail}")
        if not self.violations and self.known_hits:
            # a spec clause that fails ONLY on inputs listed in known_findings.json is accounted for by the
            # KNOWN-FINDING lines; the obligation checked here is "no failure outside the listed findings"
            self.obligations = [
                (n, True, d + " -- every failing case matches a listed known finding (see KNOWN-FINDING lines)")
                if (not ok and n.startswith("spec-on")) else (n, ok, d) for n, ok, d in self.obligations]
        n_obl = len(self.obligations)
        n_dis = sum(1 for o in self.obligations if o[1])
        self.cov["distinct_nontrivial"] = len(self.distinct)
        cov = dict(self.cov)
        cov.update({"obligations": n_obl, "discharged": n_dis,
                    "checker_cmd": checker_cmd or "coqc (full .vo build via coq_makefile/make) + coqc on generated case files",
                    "trusted_base": self.trusted, "rule": rule,
                    "obligation_list": [{"name": o[0], "discharged": o[1], "detail": o[2][:300]} for o in self.obligations],
                    "known_findings_hit": {k: v[0] for k, v in self.known_hits.items()}})
        if extra:
            cov.update(extra)
        if level not in ("exploration", "fault_enumeration", "model_checking", "proof", "translation_validation", "other"):
            cov["level_detail"] = level          # e.g. "proof (partial)": the schema only knows the bare category
            level = "proof"
        ev = {"property_id": self.pid, "tier": self.tier, "seed": seed(), "level": level,
              "coverage": cov, "assumptions": self.assumptions,
              "wall_s": round(time.time() - self.t0, 2), "violations": len(self.violations)}
        os.makedirs(EVIDENCE, exist_ok=True)
        with open(os.path.join(EVIDENCE, f"{self.pid}.json"), "w") as f:
            json.dump(ev, f, indent=1, default=str)
        for l in lines:
            print(l)
        status = "FAIL" if self.violations else "ok"
        print(f"[{self.pid}] {status}: obligations {n_dis}/{n_obl}, evaluations {cov['evaluations']}, "
              f"distinct_nontrivial {cov['distinct_nontrivial']}, known findings {len(self.known_hits)}, "
              f"violations {len(self.violations)}, {ev['wall_s']}s")
        return 1 if self.violations else 0


def standard_proof_obligations(rep, prop_file, model_targets=()):
    """Steps 1-3 of every check: gate, build of the executable model (needed by the
    correspondence), build of the proofs, Print Assumptions.
    Returns (proofs_ok, model_ok)."""
    bad = grep_gate()
    rep.obligation("gate:no-admitted-axiom-unset", not bad, "; ".join(bad[:5]))
    if bad:
        rep.broken("gate", "forbidden construct in the development: " + "; ".join(bad[:5]))
        return False, False
    model_ok = True
    if model_targets:
        model_ok, log, failed = build(list(model_targets))
        rep.obligation("build:model(" + ",".join(os.path.basename(t) for t in model_targets) + ")", model_ok,
                       "" if model_ok else (failed or "") + " " + log[-1500:])
        if not model_ok:
            rep.build_failed = failed
            rep.build_log = log
            return False, False
    ok, log, failed = build([f"theories/Props/{prop_file}.vo"])
    rep.obligation(f"build:Props/{prop_file}.vo", ok, "" if ok else (failed or "") + " " + log[-1500:])
    if not ok:
        rep.build_failed = failed
        rep.build_log = log
        return False, model_ok
    info = check_props(prop_file)
    for t in info["theorems"]:
        closed = t["assumptions"] == []
        rep.obligation("theorem:" + t["name"], True,
                       "Closed under the global context" if closed else "assumes: " + "; ".join(t["assumptions"]))
        rep.trusted.append(f"{t['name']}: " + ("Closed under the global context" if closed
                                                else "Axioms: " + "; ".join(t["assumptions"])))
    rep.obligation(f"print-assumptions:{prop_file}", info["ok"], "" if info["ok"] else info["log"][-800:])
    if rep.tier == "thorough":
        ck = coqchk(prop_file)
        rep.obligation(f"coqchk:TP.Props.{prop_file}", ck["ok"], ck["summary"][:300])
        rep.trusted.append("coqchk -o TP.Props.%s: %s" % (prop_file, ck["summary"]))
        if not ck["ok"]:
            rep.broken(f"coqchk:{prop_file}", ck["log"][-1500:])
            return False, model_ok
    rep.trusted += ["Coq 8.16.1 kernel + vm_compute (no native_compute)",
                    "correspondence harness (generators, realizer, reifier, canonicalisation) and CPython 3.12"]
    if not info["ok"]:
        rep.broken(f"print-assumptions:{prop_file}", info["log"][-1500:])
        return False, model_ok
    return True, model_ok
