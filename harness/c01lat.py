"""C01 helper: near-miss values of a declaration and the deterministic boundary lattice that is driven
through every validating entry point.

Why this exists: the random chain generator of harness/props/c01.py reaches "the value that is just
outside a declaration" (a bound +-1, the NAME of an enum member that was not declared, a literal that
is == to an allowed one, a container with one such element) only with a probability that is the
product of several small ones.  A source edit that widens acceptance exactly there went unnoticed.
Here the set of such inputs is ENUMERATED per declaration (so whatever the seed, each one is met),
and the same enumeration feeds the random generator's corruption step.

  near(f)          deterministic list of reified values on and just around the acceptance boundary of f
  LEAVES           fixed scalar declarations covering each constraint keyword / enum form
  WRAPPERS         ways to put a leaf declaration under every collection and multi-field wrapper
  lattice(tier)    [(group key, [class ASTs], [chain, ...])] ready for c01.Ctx / c01.run_chain
  corrupt_near     one random near-miss substitution somewhere inside a (nested) value
"""
import math

from harness import coqemit as E
from harness import fieldgen as G

I = lambda z: ("int", z)
F = lambda x: ("flt",) + E.float_me(float(x))
S_ = lambda s: ("str", s)
NONE = ("none",)

# falsy values of every type (a guard written `if value and ...` / `if not value: return` lets exactly these
# through) and a few foreign objects: offered to EVERY declaration
FALSY = [NONE, ("bool", False), I(0), F(0.0), S_(""), ("list", []), ("tuple", []), ("dict", []), ("set", False, []),
         ("other", "complex", "")]


def _num(k, s="Any", mult=None, mn=None, mx=None, xmax=False):
    return {"t": "num", "k": k, "s": s, "mult": mult, "min": mn, "max": mx, "xmax": xmax}


def _dedupe(vals):
    out, seen = [], set()
    for v in vals:
        k = repr(v)
        if k not in seen:
            seen.add(k)
            out.append(v)
    return out


# ------------------------------------------------------------------ near-miss values

def near_num(f):
    pts = [0]
    for key in ("min", "max"):
        if f.get(key) is not None:
            pts.append(float(G.unreify(f[key])))
    if f.get("mult"):
        pts += [f["mult"], 2 * f["mult"]]
    out = []
    for p in pts:
        z = int(math.floor(p))
        for d in (-1, 0, 1):
            out.append(I(z + d))
            out.append(F(z + d))
        out += [F(p), F(p + 0.5), F(p - 0.5), F(math.nextafter(p, math.inf)), F(math.nextafter(p, -math.inf))]
    out += [("dec", 5, 0), ("dec", 45, -1), S_("5"), NONE, ("list", [I(5)])]
    return _dedupe(out)


def near_str(f):
    lens = {0, 1}
    for key in ("min", "max"):
        if f.get(key) is not None:
            lens |= {max(0, f[key] - 1), f[key], f[key] + 1}
    out = [S_("a" * n) for n in sorted(lens)]
    if f.get("pat") is not None:
        out += [S_(s) for s in G.STRINGS]
    out += [I(3), NONE, ("list", [S_("abc")]), ("bool", True)]
    return _dedupe(out)


def near_enumlit(f):
    out = list(f["values"])
    for v in f["values"]:
        # values that are == (or look alike) but are not the declared literal; neighbours
        if v[0] == "int":
            out += [I(v[1] + 1), I(v[1] - 1), F(v[1]), S_(str(v[1])), ("bool", bool(v[1]))]
        elif v[0] == "bool":
            out += [I(int(v[1])), ("bool", not v[1]), S_(str(v[1]))]
        elif v[0] == "str":
            out += [S_(v[1].lower()), S_(v[1].upper()), S_(v[1] + "x"), S_(v[1][:-1])]
        elif v[0] == "flt":
            out += [F(G.unreify(v) + 0.5), I(int(G.unreify(v)))]
        elif v[0] == "tuple":
            out += [("list", list(v[1])), ("tuple", list(v[1])[:-1])]
        elif v[0] == "none":
            out += [("bool", False), I(0), S_("")]
    out += [E.reify(G.Color.RED), S_("RED"), I(0), NONE, ("list", [])]
    return _dedupe(out)


def near_ref(f):
    return [("struct", "Inner", [("a", I(1))]), ("struct", "Sub", [("a", I(3))]),
            ("struct", "Other", [("a", I(1))]), ("dict", [(S_("a"), I(1))]), NONE, I(1)]


def near(f, budget=40):
    """Values on and around the acceptance boundary of declaration f (most telling ones first), then
    the falsy values of every type."""
    own = near_own(f, budget)
    return _dedupe(own + FALSY) if f["t"] not in ("allof", "anyof", "oneof", "not") else own


def inner(f, budget):
    """Candidates for ONE element position inside a container."""
    return _dedupe(near_own(f, budget) + [NONE, S_(""), ("list", []), I(0)])


def near_own(f, budget=40):
    t = f["t"]
    if t == "num":
        return near_num(f)[:budget]
    if t == "str":
        return near_str(f)[:budget]
    if t == "bool":
        return [("bool", True), ("bool", False), S_("True"), S_("False"), S_("true"), S_(""), I(1), I(0), F(1.0), NONE,
                ("list", [])]
    if t == "none":
        return [NONE, I(0), S_(""), ("bool", False), ("list", [])]
    if t == "any":
        return [NONE, I(1), S_("a"), ("list", [I(1)])]
    if t == "enumlit":
        return near_enumlit(f)[:budget]
    if t == "enumcls":
        return _dedupe(G.enum_neighbours(f) + [NONE, I(1), ("list", [])])[:budget]
    if t == "ref":
        return near_ref(f)
    if t in ("allof", "anyof", "oneof", "not"):
        out = []
        for g in f["fs"]:
            out += near_own(g, budget)
        return _dedupe(out + FALSY)[:budget + len(FALSY)]
    # containers: one element replaced / sizes around the bounds / duplicates / the wrong container
    out = []
    if t in ("seqany", "seqeach", "seqpos", "tuple"):
        tag = "tuple" if t == "tuple" else f["k"]
        if t == "seqeach":
            gs = None
            item = f["item"]
        elif t in ("seqpos", "tuple"):
            gs = f["items"]
            item = gs[0] if gs else {"t": "any"}
        else:
            gs, item = None, {"t": "any"}
        base_n = len(gs) if (gs and not (t == "tuple" and len(gs) == 1)) else 2
        xs = inner(item, 8)
        for x in xs:
            out.append((tag, [x] + [xs[0]] * (base_n - 1)))
        lo, hi = (f.get("sz") or [None, None])
        for n in sorted({0, 1, base_n - 1, base_n, base_n + 1} | ({lo - 1, lo} if lo else set()) |
                        ({hi, hi + 1} if hi is not None else set())):
            if n >= 0:
                out.append((tag, [xs[i % len(xs)] for i in range(n)]))
        out.append((tag, [xs[0], xs[0]]))
        out.append(({"list": "tuple", "deque": "list", "tuple": "list"}[tag], [xs[0]] * base_n))
        out.append(NONE)
        return _dedupe(out)[:budget]
    if t == "set":
        xs = [x for x in inner(f["item"], 10) if G.is_hashable(x)] if f.get("item") else [I(1), S_("a"), NONE]
        for x in xs:
            out.append(G.mk_set(False, [x]))
        out.append(G.mk_set(True, xs[:2]))
        lo, hi = f["sz"]
        for n in sorted({0, 1, 2} | ({lo - 1, lo} if lo else set()) | ({hi, hi + 1} if hi is not None else set())):
            if n >= 0:
                out.append(G.mk_set(False, xs[:n]))
        out += [("list", xs[:1]), NONE]
        return _dedupe(out)[:budget]
    if t in ("mapany", "mapkv"):
        ks = [x for x in inner(f["kf"], 8) if G.is_hashable(x)] if t == "mapkv" else [S_("a"), I(1)]
        vs = inner(f["vf"], 8) if t == "mapkv" else [I(1), NONE]
        for v in vs:
            out.append(G.mk_dict([(ks[0], v)]))
        for k in ks:
            out.append(G.mk_dict([(k, vs[0])]))
        lo, hi = f["sz"]
        for n in sorted({0, 1, 2} | ({lo - 1, lo} if lo else set()) | ({hi, hi + 1} if hi is not None else set())):
            if n >= 0:
                out.append(G.mk_dict([(ks[i % len(ks)], vs[0]) for i in range(n)]))
        out += [("list", []), NONE]
        return _dedupe(out)[:budget]
    return [NONE]


# ------------------------------------------------------------------ leaves and wrappers

def leaves():
    out = []
    for k in ("Number", "Integer", "Float"):
        out += [_num(k, mn=I(5)), _num(k, mx=I(5)), _num(k, mx=I(5), xmax=True), _num(k, mn=I(-5), mx=I(5)),
                _num(k, mult=5), _num(k, mn=F(4.5)), _num(k, mx=F(4.5), xmax=True)]
        out += [_num(k, s) for s in ("Positive", "Negative", "NonPositive", "NonNegative")]
    out += [{"t": "str", "min": 3, "max": None, "pat": None}, {"t": "str", "min": None, "max": 3, "pat": None},
            {"t": "str", "min": 2, "max": 4, "pat": None}, {"t": "str", "min": None, "max": None, "pat": 0},
            {"t": "str", "min": 1, "max": 3, "pat": 3}]
    out += [{"t": "bool"}, {"t": "none"}]
    for cname, cls in sorted(G.ENUMS.items()):
        names = [m.name for m in cls]
        for members in (names, names[:1], names[1:], names[:-1], [names[0], names[-1]]):
            out.append({"t": "enumcls", "cls": cname, "members": members})
    for vals in ([1, 2, "a"], ["RED", "x"], [True], [2.5, None], [0, (1, 2)], ["abc"]):
        out.append({"t": "enumlit", "values": [E.reify(v) for v in vals]})
    out.append({"t": "ref", "cls": "Inner"})
    return out


INT = {"t": "num", "k": "Integer", "s": "Any"}
STR = {"t": "str"}
NONEF = {"t": "none"}
NOSZ = [None, None]


def hashable_leaf(g):
    return g["t"] in ("num", "str", "bool", "none", "enumlit", "enumcls")


# name, needs hashable values, declaration builder, value builder (x = candidate, y = a valid filler or None)
WRAPPERS = [
    ("id", False, lambda g: g, lambda x, y: x),
    ("arr", False, lambda g: {"t": "seqeach", "k": "list", "item": g, "sz": NOSZ, "uniq": False},
     lambda x, y: ("list", ([y] if y else []) + [x])),
    ("deq", False, lambda g: {"t": "seqeach", "k": "deque", "item": g, "sz": NOSZ, "uniq": False},
     lambda x, y: ("deque", [x] + ([y] if y else []))),
    ("arrpos", False, lambda g: {"t": "seqpos", "k": "list", "items": [g, INT], "sz": NOSZ, "uniq": False, "additional": None},
     lambda x, y: ("list", [x, I(1)])),
    ("arrpos-closed", False, lambda g: {"t": "seqpos", "k": "list", "items": [INT, g], "sz": NOSZ, "uniq": False,
                                        "additional": False},
     lambda x, y: ("list", [I(1), x])),
    ("set", True, lambda g: {"t": "set", "imm": False, "item": g, "sz": NOSZ},
     lambda x, y: G.mk_set(False, [x] + ([y] if y else []))),
    ("set-frozen-input", True, lambda g: {"t": "set", "imm": False, "item": g, "sz": NOSZ},
     lambda x, y: G.mk_set(True, [x])),
    ("iset", True, lambda g: {"t": "set", "imm": True, "item": g, "sz": NOSZ}, lambda x, y: G.mk_set(False, [x])),
    ("tup1", False, lambda g: {"t": "tuple", "items": [g], "uniq": False}, lambda x, y: ("tuple", [x] + ([y] if y else []))),
    ("tup2", False, lambda g: {"t": "tuple", "items": [STR, g], "uniq": False}, lambda x, y: ("tuple", [S_("a"), x])),
    ("mapv", False, lambda g: {"t": "mapkv", "kf": STR, "vf": g, "sz": NOSZ}, lambda x, y: G.mk_dict([(S_("k"), x)])),
    ("mapk", True, lambda g: {"t": "mapkv", "kf": g, "vf": INT, "sz": NOSZ}, lambda x, y: G.mk_dict([(x, I(1))])),
    ("anyof", False, lambda g: {"t": "anyof", "fs": [g, NONEF]}, lambda x, y: x),
    ("anyof-last", False, lambda g: {"t": "anyof", "fs": [NONEF, g]}, lambda x, y: x),
    ("oneof", False, lambda g: {"t": "oneof", "fs": [g, NONEF]}, lambda x, y: x),
    ("allof", False, lambda g: {"t": "allof", "fs": [g]}, lambda x, y: x),
    ("not", False, lambda g: {"t": "not", "fs": [g]}, lambda x, y: x),
    ("arr-arr", False, lambda g: {"t": "seqeach", "k": "list", "sz": NOSZ, "uniq": False,
                                  "item": {"t": "seqeach", "k": "list", "item": g, "sz": NOSZ, "uniq": False}},
     lambda x, y: ("list", [("list", [x])])),
    ("map-arr", False, lambda g: {"t": "mapkv", "kf": STR, "sz": NOSZ,
                                  "vf": {"t": "seqeach", "k": "list", "item": g, "sz": NOSZ, "uniq": False}},
     lambda x, y: G.mk_dict([(S_("k"), ("list", ([y] if y else []) + [x]))])),
    ("arr-anyof", False, lambda g: {"t": "seqeach", "k": "list", "sz": NOSZ, "uniq": False,
                                    "item": {"t": "anyof", "fs": [g, NONEF]}},
     lambda x, y: ("list", [x])),
]

# wrappers whose value is stored as a typedpy wrapper object (_ListStruct/_DequeStruct/_DictStruct): the UNTYPED
# field of the same container type, in which a source instance can hold any elements as such a wrapper object.
# A declaration must validate a value that already IS a wrapper exactly as it validates a plain list/dict.
LIST_ANY = {"t": "seqany", "k": "list", "sz": [None, None], "uniq": False}
DEQUE_ANY = {"t": "seqany", "k": "deque", "sz": [None, None], "uniq": False}
MAP_ANY = {"t": "mapany", "sz": [None, None]}
HOLDER = {"arr": LIST_ANY, "arrpos": LIST_ANY, "arrpos-closed": LIST_ANY, "arr-arr": LIST_ANY, "arr-anyof": LIST_ANY,
          "deq": DEQUE_ANY, "mapv": MAP_ANY, "mapk": MAP_ANY, "map-arr": MAP_ANY}
UPCAST_QUICK = ("id", "arr", "mapv", "anyof", "set", "tup2")
ENTRY_KINDS = ("ctor", "deser", "from_mapping", "from_other", "cast", "clone", "upcast")
NK = len(ENTRY_KINDS)
WRAPPER_KINDS = ("from_other_w", "cast_w", "ctor_w")
FOLLOW = (None, ["deepcopy"], ["copy"], ["pickle"], None, ["deepcopy"], None)


def json_shaped(r):
    t = r[0]
    if t in ("bool", "int", "flt", "str"):
        return True
    if t == "list":
        return all(json_shaped(x) for x in r[1])
    if t == "dict":
        return all(k[0] == "str" and json_shaped(v) for k, v in r[1])
    return False


def flat_field(f):
    t = f["t"]
    if t in ("num", "str", "bool"):
        return True
    if t == "seqeach" and f["k"] == "list":
        return f["item"]["t"] in ("num", "str", "bool")
    if t == "mapkv":
        return f["kf"]["t"] == "str" and f["vf"]["t"] in ("num", "str", "bool")
    return False


def chains_for(loose, strict, decl, x, good, kinds, follow, looser_sub=None, holder=None):
    """Chains that carry candidate x to field `f` of class `strict` through the entry kinds `kinds`.
    `loose` is a base class of `strict` declaring f = Anything (so that ANY value can sit in a source
    instance handed to from_other_class / cast_to: a DOWN-cast); `looser_sub` is a subclass of `strict`
    that re-declares f = Anything (an UP-cast of its instances must validate against `strict`)."""
    out = []
    tail = [list(follow)] if follow else []
    for k in kinds:
        if k == "ctor":
            ch = [["ctor", strict, [("f", x)]]]
        elif k == "deser":
            if not json_shaped(x):
                continue
            api = "Deserializer" if (len(repr(x)) % 2) else "deserialize_structure"
            ch = [["deser", strict, [("f", x)], api, bool(flat_field(decl))]]
        elif k == "from_mapping":
            ch = [["from_mapping", strict, [("f", x)], []]]
        elif k == "from_other":
            ch = [["ctor", loose, [("f", x)]], ["from_other", strict, []]]
        elif k == "cast":
            ch = [["ctor", loose, [("f", x)]], ["cast", strict]]
        elif k == "clone":
            if good is None:
                continue
            ch = [["ctor", strict, [("f", good)]], ["clone", [("f", x)]]]
        elif k == "upcast":
            if looser_sub is None:
                continue
            ch = [["ctor", looser_sub[0], [("f", x)]], ["cast", looser_sub[1]]]
        elif k in ("from_other_w", "cast_w", "ctor_w"):
            # the candidate reaches the strict declaration as a WRAPPER OBJECT taken from another instance
            if holder is None:
                continue
            src = ["ctor", holder[0], [("f", x)]]
            ch = [src, ["from_other", holder[1], []]] if k == "from_other_w" else \
                 [src, ["cast", holder[1]]] if k == "cast_w" else [src, ["ctor_attr", holder[1], "f"]]
        else:
            continue
        out.append(ch + tail)
    return out


def lattice(tier, seed):
    """[(tag, class ASTs, build)].  One group = one leaf declaration: a `loose` base class (f = Anything)
    and one `strict` subclass per wrapper.  `build(find_good)` -> [(wrapper name, leaf shape, chain)];
    `find_good(class name, candidates)` returns a candidate the real library accepts as field f of that
    class (or None): used as filler next to the candidate and as origin of the clone step."""
    groups = []
    quick = tier == "quick"
    ls = leaves()
    rich = lambda g: g["t"] in ("enumcls", "enumlit", "bool", "none", "str", "ref")
    for li, g in enumerate(ls):
        pre = "Z%d_%d" % (seed, li)
        loose = {"name": pre + "L", "fields": [{"name": "f", "field": {"t": "any"}}], "required": [], "additional": False}
        asts = [loose]
        plan = []
        for wi, (wname, need_hash, mk_decl, mk_val) in enumerate(WRAPPERS):
            if need_hash and not hashable_leaf(g):
                continue
            if g["t"] == "ref" and wname in ("set", "set-frozen-input", "iset", "mapk", "tup1", "tup2"):
                continue
            if quick and wname != "id" and not (rich(g) or li % 4 == (wi % 4)):
                continue        # numeric leaves: each wrapper meets a quarter of them in the quick tier
            decl = mk_decl(g)
            strict = {"name": "%sT%d" % (pre, wi), "base": loose["name"], "fields": [{"name": "f", "field": decl}],
                      "required": ["f"], "additional": False}
            asts.append(strict)
            # the up-cast pair: a strict BASE class and a subclass that loosens f (a third level under `loose`
            # would do as well; kept apart so that each pair has two levels)
            if not quick or wname in UPCAST_QUICK:
                base2 = {"name": "%sV%d" % (pre, wi), "fields": [{"name": "f", "field": decl}], "required": ["f"],
                         "additional": False}
                sub = {"name": "%sU%d" % (pre, wi), "base": base2["name"], "fields": [{"name": "f", "field": {"t": "any"}}],
                       "required": ["f"], "additional": False}     # (a subclass cannot make f optional again)
                asts += [base2, sub]
                up = (sub["name"], base2["name"])
            else:
                up = None
            if wname in HOLDER:
                hold = {"name": "%sH%d" % (pre, wi), "fields": [{"name": "f", "field": HOLDER[wname]}], "required": [],
                        "additional": False}
                strict_h = {"name": "%sS%d" % (pre, wi), "base": hold["name"], "fields": [{"name": "f", "field": decl}],
                            "required": ["f"], "additional": False}
                asts += [hold, strict_h]
                holder = (hold["name"], strict_h["name"])
            else:
                holder = None
            plan.append((wi, wname, need_hash, mk_val, decl, strict["name"], up, holder))

        def build(find_good, g=g, li=li, plan=plan, loose=loose):
            chains = []
            xs = near(g)
            y = find_good(plan[0][5], xs)          # plan[0] is the identity wrapper: the leaf itself
            for wi, wname, need_hash, mk_val, decl, sname, uname, holder in plan:
                cand = xs if wname == "id" else inner(g, 8 if quick else 14)
                vals = [mk_val(x, y) for x in cand if not (need_hash and not G.is_hashable(x))]
                good = find_good(sname, vals)
                for vi, v in enumerate(vals):
                    if wname == "id":
                        kinds = ENTRY_KINDS if (rich(g) or not quick) else \
                            (ENTRY_KINDS[(vi + li) % NK], ENTRY_KINDS[(vi + li + 3) % NK])
                    else:
                        pool = ENTRY_KINDS + (WRAPPER_KINDS if holder else ())
                        kinds = tuple(pool[(vi + wi + li + 2 * j) % len(pool)] for j in range(1 if quick else 3))
                    follow = FOLLOW[(vi + wi) % len(FOLLOW)]
                    for ch in chains_for(loose["name"], sname, decl, v, good, kinds, follow, uname, holder):
                        chains.append((wname, G.shape(g), ch))
            return chains
        groups.append((pre, asts, build))
    return groups


# ------------------------------------------------------------------ random near-miss corruption

def corrupt_near(rnd, f, v, depth=0):
    """v with ONE position (chosen at random, following the declaration) replaced by a near-miss of
    the declaration governing that position."""
    t = f["t"]
    here = rnd.random() < (0.25 if depth == 0 else 0.15)
    if t in ("seqeach", "seqpos", "tuple") and v[0] in ("list", "deque", "tuple") and v[1] and not here:
        items = list(v[1])
        i = rnd.randrange(len(items))
        if t == "seqeach":
            g = f["item"]
        else:
            gs = f["items"]
            g = gs[0] if (t == "tuple" and len(gs) == 1) else (gs[i] if i < len(gs) else None)
        if g is not None:
            items[i] = corrupt_near(rnd, g, items[i], depth + 1)
            return (v[0], items)
    if t == "set" and v[0] == "set" and v[2] and f.get("item") and not here:
        items = list(v[2])
        i = rnd.randrange(len(items))
        x = corrupt_near(rnd, f["item"], items[i], depth + 1)
        if G.is_hashable(x):
            items[i] = x
            return G.mk_set(v[1], items)
    if t == "mapkv" and v[0] == "dict" and v[1] and not here:
        pairs = list(v[1])
        i = rnd.randrange(len(pairs))
        k, x = pairs[i]
        if rnd.random() < 0.35:
            k2 = corrupt_near(rnd, f["kf"], k, depth + 1)
            if G.is_hashable(k2):
                pairs[i] = (k2, x)
        else:
            pairs[i] = (k, corrupt_near(rnd, f["vf"], x, depth + 1))
        return G.mk_dict(pairs)
    if t in ("allof", "anyof", "oneof") and f["fs"] and not here:
        return corrupt_near(rnd, rnd.choice(f["fs"]), v, depth + 1)
    xs = near(f)
    return rnd.choice(xs) if xs else G.gen_any(rnd)


# ------------------------------------------------------------------ defaults of OMITTED fields

DEFAULT_WRAPPERS = ("id", "anyof", "anyof-last", "oneof", "not", "arrpos", "arr", "mapv", "set")
CONST_WRAPPERS = ("id", "anyof", "oneof", "not")
OMIT_KINDS = ("ctor", "deser", "from_object", "from_other", "cast", "from_mapping")
OMIT_FOLLOW = (None, ["clone", []], ["deepcopy"], None, ["pickle"], ["copy"], ["clone", []])


def class_src(c):
    """structgen.class_src, with the options of an argument-less declaration joined correctly
    (`Boolean(, default=..)` is what the shared renderer writes; other checks rely on its output as it is)."""
    from harness import structgen as SG0
    return SG0.class_src(c).replace("(, ", "(")


def _definable(src, fact=None):
    """Does typedpy accept this class statement?  (generator guidance only)"""
    ns = {}
    try:
        exec(G.IMPORTS, ns)
        exec("def _fact(key):\n    return lambda: _FACT[key]\n", ns)
        ns["_FACT"] = _DefaultDict(fact or {})
        exec(src, ns)
        return ns
    except Exception:  # noqa
        return None


class _DefaultDict(dict):
    def __missing__(self, key):
        raise KeyError(key)


def _accepts(ns, cname, x):
    try:
        ns[cname](f=G.unreify(x))
        return True
    except Exception:  # noqa
        return False


def omit_chains(k_cls, target, sub, kinds, follow, prefix):
    """Chains that build `target` (or, for a cast, its twin `sub`, a subclass of k_cls) WITHOUT supplying f."""
    out = []
    kw = [("k", S_("a"))]
    tail = [list(follow)] if follow else []
    for kind in kinds:
        if kind == "ctor":
            ch = [["ctor", target, kw]]
        elif kind == "deser":
            ch = [["deser", target, kw, "Deserializer" if len(prefix) % 2 else "deserialize_structure", True]]
        elif kind == "from_object":
            ch = [["from_object", target, kw, [], ["k", "f"]]]
        elif kind == "from_mapping":
            ch = [["from_mapping", target, kw, []]]
        elif kind == "from_other":
            ch = [["ctor", k_cls, kw], ["from_other", target, []]]
        elif kind == "cast":
            if sub is None:
                continue
            ch = [["ctor", k_cls, kw], ["cast", sub]]
        else:
            continue
        out.append(list(prefix) + ch + tail)
    return out


def defaults_lattice(tier, seed):
    """[(tag, class ASTs, [(stream tag, leaf shape, chain)])]: every leaf declaration (alone and under the wrappers
    that delegate or skip validation) as a field `f` that the caller OMITS, with
      - a default FACTORY made to return every near-miss / falsy / conversion-needing value of the declaration
        (it returned a conforming value when the class was defined), and
      - every CONSTANT default typedpy lets the class be defined with (truthy ones are examined at definition,
        falsy ones are not: `if default:`),
    built through every entry point that can leave a field out.  The stored value of an omitted field must
    satisfy the declaration (or the entry point must refuse)."""
    from harness import structgen as SG
    quick = tier == "quick"
    groups = []
    wr = {w[0]: w for w in WRAPPERS}
    for li, g in enumerate(leaves()):
        if g["t"] == "ref":
            continue
        pre = "Y%d_%d" % (seed, li)
        kcls = {"name": pre + "K", "fields": [{"name": "k", "field": STR}], "required": ["k"], "additional": False}
        asts = [kcls]
        chains = []
        xs = near(g)
        numeric = g["t"] == "num"
        for wi, wname in enumerate(DEFAULT_WRAPPERS):
            _n, need_hash, mk_decl, mk_val = wr[wname]
            if need_hash and not hashable_leaf(g):
                continue
            if quick and wname != "id" and numeric and (li + wi) % 3:
                continue
            decl = mk_decl(g)
            probe = _definable(class_src({"name": "P", "fields": [{"name": "f", "field": decl}], "required": ["f"]}))
            if probe is None:
                continue
            y = next((x for x in xs if _accepts(_definable(class_src(
                {"name": "P", "fields": [{"name": "f", "field": g}], "required": ["f"]})) or {}, "P", x)), None) \
                if wname != "id" else None
            cand = xs if wname == "id" else inner(g, 8 if quick else 14)
            vals = _dedupe([mk_val(x, y) for x in cand if not (need_hash and not G.is_hashable(x))])
            good = next((v for v in vals if _accepts(probe, "P", v)), None)
            if good is None:
                continue
            # ---- factory
            key = "%s.%s" % (pre, wname)
            dfac = {"name": "%sF%d" % (pre, wi), "fields": [{"name": "k", "field": STR},
                                                             {"name": "f", "field": decl, "default": good, "factory": key}],
                    "required": ["k"], "additional": False}
            dsub = {"name": "%sG%d" % (pre, wi), "base": kcls["name"],
                    "fields": [{"name": "f", "field": decl, "default": good, "factory": key}], "required": ["k"],
                    "additional": False}
            if _definable(class_src(dfac), {key: G.unreify(good)}) is None:
                continue                # this declaration takes no `default=` (the multi-field wrappers)
            asts += [dfac, dsub]
            for vi, v in enumerate(vals):
                nk = len(OMIT_KINDS)
                kinds = OMIT_KINDS if not quick else tuple(OMIT_KINDS[(vi + wi + li + 3 * j) % nk]
                                                           for j in range(2 if wname == "id" else 1))
                follow = OMIT_FOLLOW[(vi + wi) % len(OMIT_FOLLOW)]
                for ch in omit_chains(kcls["name"], dfac["name"], dsub["name"], kinds, follow, [["factory", key, v]]):
                    chains.append(("default-factory:" + wname, G.shape(g), ch))
            # ---- constants
            if wname not in CONST_WRAPPERS:
                continue
            consts = vals if not quick else _dedupe(vals[:5] + [v for v in vals if v in FALSY or not G.unreify(v)])
            for ci, d in enumerate(consts):
                if d[0] in ("none", "other"):
                    continue            # default=None means "no default"
                cst = {"name": "%sC%d_%d" % (pre, wi, ci),
                       "fields": [{"name": "k", "field": STR}, {"name": "f", "field": decl, "default": d}],
                       "required": ["k"], "additional": False}
                try:
                    src = class_src(cst)
                except Exception:  # noqa
                    continue
                if _definable(src) is None:
                    continue            # examined at definition time and refused: nothing to construct
                asts.append(cst)
                nk = len(OMIT_KINDS)
                kinds = tuple(k for k in OMIT_KINDS if k != "cast") if not quick else \
                    tuple(OMIT_KINDS[(ci + wi + li + 2 * j) % nk] for j in range(2))
                follow = OMIT_FOLLOW[(ci + wi + 1) % len(OMIT_FOLLOW)]
                for ch in omit_chains(kcls["name"], cst["name"], None, kinds, follow, []):
                    chains.append(("default-constant:" + wname, G.shape(g), ch))
        groups.append((pre, asts, chains))
    return groups


# ------------------------------------------------------------------ instances that have AGED

def _seq(k, item):
    return {"t": "seqeach", "k": k, "item": item, "sz": [None, None], "uniq": False}


def _set(item):
    return {"t": "set", "imm": False, "item": item, "sz": [None, None]}


# declarations whose stored value contains a container that typedpy hands out UNWRAPPED (a plain python
# set / list / dict): name, declaration builder, value builder (ys: two conforming leaf values)
AGED_SHAPES = [
    ("arr-set", lambda g: _seq("list", _set(g)), lambda ys: ("list", [G.mk_set(False, ys[:1]), G.mk_set(False, ys)])),
    ("arr-arr", lambda g: _seq("list", _seq("list", g)), lambda ys: ("list", [("list", ys[:1]), ("list", ys)])),
    ("arr-arr-arr", lambda g: _seq("list", _seq("list", _seq("list", g))), lambda ys: ("list", [("list", [("list", ys)])])),
    ("deq-set", lambda g: _seq("deque", _set(g)), lambda ys: ("deque", [G.mk_set(False, ys)])),
    ("deq-arr", lambda g: _seq("deque", _seq("list", g)), lambda ys: ("deque", [("list", ys)])),
    ("arrpos-set", lambda g: {"t": "seqpos", "k": "list", "items": [_set(g), INT], "sz": [None, None], "uniq": False,
                              "additional": None}, lambda ys: ("list", [G.mk_set(False, ys), I(1)])),
    ("arr-map", lambda g: _seq("list", {"t": "mapkv", "kf": STR, "vf": g, "sz": [None, None]}),
     lambda ys: ("list", [G.mk_dict([(S_("a"), ys[0])])])),
    ("arr-tup-set", lambda g: _seq("list", {"t": "tuple", "items": [_set(g), STR], "uniq": False}),
     lambda ys: ("list", [("tuple", [G.mk_set(False, ys), S_("a")])])),
    ("map-set", lambda g: {"t": "mapkv", "kf": STR, "vf": _set(g), "sz": [None, None]},
     lambda ys: G.mk_dict([(S_("a"), G.mk_set(False, ys))])),
    ("map-arr", lambda g: {"t": "mapkv", "kf": STR, "vf": _seq("list", g), "sz": [None, None]},
     lambda ys: G.mk_dict([(S_("a"), ("list", ys))])),
    ("tup-set", lambda g: {"t": "tuple", "items": [_set(g), STR], "uniq": False},
     lambda ys: ("tuple", [G.mk_set(False, ys), S_("a")])),
    ("set", lambda g: _set(g), lambda ys: G.mk_set(False, ys)),
    ("arr-any", lambda g: _seq("list", {"t": "anyof", "fs": [_set(g), NONEF]}), lambda ys: ("list", [G.mk_set(False, ys)])),
]

AGED_WAYS = ("clone", "clone-over", "cast-down", "cast-up", "from_other", "from_other-sub", "ctor_attr", "mapping_attr",
             "object_attr", "deser_attr", "ctor_attr-other", "from_other-other")


def aged_leaves():
    return [INT, {"t": "num", "k": "Float", "s": "Any"}, _num("Integer", mn=I(0), mx=I(9)),
            {"t": "str", "min": None, "max": 3, "pat": None}, {"t": "bool"},
            {"t": "enumcls", "cls": "Color", "members": ["RED", "GREEN"]},
            {"t": "enumlit", "values": [E.reify(1), E.reify("a")]}]


def aged_lattice(tier, seed):
    """[(tag, class ASTs, [(shape name, leaf shape, chain)])].  A valid instance is built, then it AGES: a container
    that typedpy hands out unwrapped (a set inside an Array, the inner list of an Array of Arrays, a dict or a set
    inside a Tuple / Map ...) is altered in place with a value the item declaration rejects - no typedpy code runs.
    The field's LIVE stored object (not a copy) is then handed to every validating way in.  Each must re-validate and
    refuse; one that hands out an instance is judged by the spec on that instance."""
    quick = tier == "quick"
    groups = []
    for li, g in enumerate(aged_leaves()):
        pre = "X%d_%d" % (seed, li)
        probe = _definable(class_src({"name": "P", "fields": [{"name": "f", "field": g}], "required": ["f"]}))
        if probe is None:
            continue
        own = near_own(g)
        ys = [x for x in own if G.is_hashable(x) and _accepts(probe, "P", x)][:2]
        bads = [x for x in _dedupe(own + [S_("not-it"), NONE, F(0.5)]) if G.is_hashable(x) and not _accepts(probe, "P", x)]
        if len(ys) < 1 or not bads:
            continue
        ys = (ys * 2)[:2]
        asts, chains = [], []
        for si, (sname, mk_decl, mk_val) in enumerate(AGED_SHAPES):
            if sname in ("arr-map",) and not hashable_leaf(g):
                continue
            decl = mk_decl(g)
            t = {"name": "%sT%d" % (pre, si), "fields": [{"name": "f", "field": decl}, {"name": "k", "field": INT}],
                 "required": ["f"], "additional": False}
            sub = {"name": "%sS%d" % (pre, si), "base": t["name"], "fields": [{"name": "s", "field": INT}],
                   "required": ["f"], "additional": False}
            oth = {"name": "%sO%d" % (pre, si), "fields": [{"name": "f", "field": decl}], "required": ["f"],
                   "additional": False}
            if _definable(class_src(t)) is None:
                continue
            asts += [t, sub, oth]
            good = mk_val(ys)
            nb = 1 if quick else min(3, len(bads))
            for bi in range(nb):
                bad = bads[(si + bi) % len(bads)]
                ways = AGED_WAYS if (not quick or (si + li) % 2 == 0) else \
                    tuple(AGED_WAYS[(si + li + 5 * j) % len(AGED_WAYS)] for j in range(6))
                for w in ways:
                    start = sub["name"] if w == "cast-up" else t["name"]
                    ch = [["ctor", start, [("f", good), ("k", I(1))]], ["corrupt", "f", bad]]
                    if w == "clone":
                        ch.append(["clone", []])
                    elif w == "clone-over":
                        ch.append(["clone", [("k", I(2))]])
                    elif w == "cast-down":
                        ch.append(["cast", sub["name"]])
                    elif w == "cast-up":
                        ch.append(["cast", t["name"]])
                    elif w == "from_other":
                        ch.append(["from_other", t["name"], []])
                    elif w == "from_other-sub":
                        ch.append(["from_other", sub["name"], [("s", I(3))]])
                    elif w == "from_other-other":
                        ch.append(["from_other", oth["name"], []])
                    elif w == "ctor_attr":
                        ch.append(["ctor_attr", t["name"], "f"])
                    elif w == "ctor_attr-other":
                        ch.append(["ctor_attr", oth["name"], "f"])
                    elif w == "mapping_attr":
                        ch.append(["mapping_attr", t["name"], "f"])
                    elif w == "object_attr":
                        ch.append(["object_attr", t["name"], "f"])
                    elif w == "deser_attr":
                        ch.append(["deser_attr", t["name"], "f", "deserialize_structure" if bi % 2 else "Deserializer"])
                    chains.append((sname + ":" + w, G.shape(g), ch))
        if asts:
            groups.append((pre, asts, chains))
    return groups
