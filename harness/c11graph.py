"""C11 helper: the OBJECT GRAPH of a typedpy instance and of its copy (objects identified by id()), the
separation clause of the property evaluated on it ("no mutable object is reachable from both the original
and its deep / unpickled copy"), the demonstration of a leak by an actual mutation through the public
interface of the shared object, the emission of observed graphs as Gallina `hcase` literals
(coq/theories/Check/C11heapchk.v), and the deterministic lattice of value shapes.

Graph conventions (mirrored by coq/theories/Struct/CopyHeap.v):
  * atoms (no identity): None, bool, numbers, str, bytes, Decimal, Enum members, the empty tuple / frozenset
    (CPython singletons), ImmutableStructure instances (a value: C04 is the property that says nothing behind
    one can change), any other opaque object;
  * objects: list, deque, set, dict, non-empty tuple / frozenset, mutable Structure instances, the typedpy
    wrappers _ListStruct / _DequeStruct / _DictStruct; contents are read with the BASE type's iteration (no
    defensive copies in between);
  * a wrapper additionally has an owner edge (`_instance`) unless the owner is a bare scratch `Structure()`
    (the holder typedpy uses while validating nested items: its state is not observable)."""
import collections
import copy
import decimal
import enum
import pickle

from harness import coqemit as E
from harness import structgen as S

KINDS = {"list": "KList", "deque": "KDeque", "set": "KSet", "dict": "KDict", "tuple": "KTuple",
         "frozenset": "KFrozen", "wlist": "KWList", "wdeque": "KWDeque", "wdict": "KWDict"}
MUTABLE = ("list", "deque", "set", "dict", "wlist", "wdeque", "wdict", "inst")


def _typedpy():
    from typedpy import Structure, ImmutableStructure
    from typedpy.fields.collections_impl import _ListStruct, _DequeStruct, _DictStruct
    return Structure, ImmutableStructure, _ListStruct, _DequeStruct, _DictStruct


def classify(v):
    """Kind tag of a Python object in the graph, or None for an atom."""
    Structure, ImmutableStructure, LS, DS, MS = _typedpy()
    if v is None or isinstance(v, (bool, int, float, complex, str, bytes, decimal.Decimal, enum.Enum)):
        return None
    if isinstance(v, Structure):
        if isinstance(v, ImmutableStructure) or getattr(type(v), "_immutable", False):
            return None
        return "inst"
    if isinstance(v, LS):
        return "wlist"
    if isinstance(v, DS):
        return "wdeque"
    if isinstance(v, MS):
        return "wdict"
    if isinstance(v, collections.deque):
        return "deque"
    if isinstance(v, list):
        return "list"
    if isinstance(v, dict):
        return "dict"
    if isinstance(v, set):
        return "set"
    if isinstance(v, frozenset):
        return "frozenset" if len(v) else None
    if isinstance(v, tuple):
        return "tuple" if len(v) else None
    return None


def contents(v, kind):
    """[(label, step, child object)]: step is how one gets from v to the child."""
    if kind == "inst":
        return [(k, ("attr", k), v.__dict__[k]) for k in sorted(v.__dict__) if k not in S.INTERNAL]
    if kind in ("list", "wlist"):
        return [("", ("item", i), x) for i, x in enumerate(list.__iter__(v))]
    if kind in ("deque", "wdeque", "tuple", "set", "frozenset"):
        return [("", ("item", i), x) for i, x in enumerate(v)]
    out = []
    for i, (k, x) in enumerate(dict.items(v)):
        out.append(("", ("key", i), k))
        out.append(("", ("val", i), x))
    return out


def owner_of(v, kind):
    Structure = _typedpy()[0]
    if kind in ("wlist", "wdeque", "wdict"):
        o = getattr(v, "_instance", None)
        if o is not None and type(o) is not Structure and classify(o) == "inst":
            return o
    return None


class Graph:
    """Objects reachable from the roots, numbered in the order of discovery (first root first)."""

    def __init__(self):
        self.index = {}        # id -> idx
        self.nodes = []        # {"kind", "obj", "kids": [(label, step, child)], "owner": idx|None, "cls"}

    def add(self, v):
        """child of the value v: ("atom", v) | ("ref", idx); v's objects are added depth first."""
        kind = classify(v)
        if kind is None:
            return ("atom", v)
        if id(v) in self.index:
            return ("ref", self.index[id(v)])
        idx = len(self.nodes)
        self.index[id(v)] = idx
        node = {"kind": kind, "obj": v, "kids": [], "owner": None, "cls": type(v).__name__}
        self.nodes.append(node)
        for label, step, x in contents(v, kind):
            node["kids"].append((label, step, self.add(x)))
        o = owner_of(v, kind)
        if o is not None:
            node["owner"] = self.add(o)[1]
        return ("ref", idx)

    def reach(self, root, owners=True):
        """{idx: path} of everything reachable from child `root`; path = list of steps."""
        out = {}
        if root[0] != "ref":
            return out
        todo = [(root[1], [])]
        while todo:
            i, path = todo.pop(0)
            if i in out:
                continue
            out[i] = path
            n = self.nodes[i]
            for _, step, c in n["kids"]:
                if c[0] == "ref":
                    todo.append((c[1], path + [step]))
            if owners and n["owner"] is not None:
                todo.append((n["owner"], path + [("owner",)]))
        return out


def make_copy(kind, x):
    if kind == "copy":
        return copy.copy(x)
    if kind == "deepcopy":
        return copy.deepcopy(x)
    return pickle.loads(pickle.dumps(x))


def graph_of(x, y):
    """(graph, n0, child of x, child of y): the objects of x first."""
    g = Graph()
    cx = g.add(x)
    n0 = len(g.nodes)
    cy = g.add(y)
    return g, n0, cx, cy


def shared_mutable(g, n0, cx, cy):
    """[(idx, path from the copy, path from the original)] of mutable objects reachable from both."""
    rx = g.reach(cx)
    ry = g.reach(cy)
    out = []
    for i in sorted(ry):
        if i in rx and g.nodes[i]["kind"] in MUTABLE:
            out.append((i, ry[i], rx[i]))
    return out


def shape_of(g, n0, cy, path):
    """`<kind of the last object that belongs to the copy alone> > <kind of the first re-used object>`: which
    copy routine re-used which kind of value."""
    cur = cy[1]
    kinds = [g.nodes[cur]["kind"]]
    idxs = [cur]
    for step in path:
        n = g.nodes[cur]
        if step == ("owner",):
            cur = n["owner"]
        else:
            cur = next(c[1] for _, s, c in n["kids"] if s == step)
        kinds.append(g.nodes[cur]["kind"])
        idxs.append(cur)
    first_old = next((k for k, i in enumerate(idxs) if i < n0), len(idxs) - 1)
    parent = kinds[first_old - 1] if first_old > 0 else "root"
    via = "owner" if first_old > 0 and path[first_old - 1] == ("owner",) else None
    entry = kinds[first_old]
    return "%s>%s" % (parent + (".owner" if via else ""), entry)


# ------------------------------------------------------------------ demonstration by an actual mutation

def navigate(root, path):
    """Follow the steps from a Python object with base-type access."""
    cur = root
    for step in path:
        if step[0] == "attr":
            cur = cur.__dict__[step[1]]
        elif step[0] == "owner":
            cur = cur._instance
        elif step[0] == "item":
            if isinstance(cur, list):
                cur = list.__getitem__(cur, step[1])
            else:
                cur = list(cur)[step[1]]
        elif step[0] == "key":
            cur = list(dict.keys(cur))[step[1]]
        else:
            cur = list(dict.values(cur))[step[1]]
    return cur


def _variants(v):
    if isinstance(v, bool):
        return [not v]
    if isinstance(v, int):
        return [v + 1, v - 1, 0, 1, 7]
    if isinstance(v, float):
        return [v + 1.0, v - 1.0, 0.5]
    if isinstance(v, decimal.Decimal):
        return [v + 1]
    if isinstance(v, str):
        return [v + "x", "a", "abc", "abcd", ""]
    if isinstance(v, enum.Enum):
        return [m for m in type(v) if m is not v]
    if isinstance(v, collections.deque):
        return [collections.deque(list(v)[:-1]), collections.deque(list(v) + list(v)[:1])]
    if isinstance(v, list):
        return [list(v)[:-1], list(v) + list(v)[:1]]
    if isinstance(v, tuple):
        return [tuple(v)[:-1], tuple(v) + tuple(v)[:1]]
    if isinstance(v, (set, frozenset)):
        return [type(v)(list(v)[:-1])]
    if isinstance(v, dict):
        return [dict(list(dict.items(v))[:-1])]
    return []


def mutations(o):
    """Candidate in-place changes of o through ITS OWN public interface: [(description, thunk)]."""
    Structure = _typedpy()[0]
    out = []
    if isinstance(o, Structure):
        for k in sorted(o.__dict__):
            if k in S.INTERNAL:
                continue
            v = o.__dict__[k]
            for nv in _variants(v):
                out.append(("setattr(%s, %r)" % (k, nv), lambda k=k, nv=nv: setattr(o, k, nv)))
            out.append(("setattr(%s, None)" % k, lambda k=k: setattr(o, k, None)))
            out.append(("delattr(%s)" % k, lambda k=k: delattr(o, k)))
    elif isinstance(o, (list, collections.deque)):
        items = list(list.__iter__(o)) if isinstance(o, list) else list(o)
        if items:
            out.append(("append(first item)", lambda: o.append(items[0])))
            out.append(("pop()", lambda: o.pop()))
        out.append(("append(99)", lambda: o.append(99)))
        out.append(("append('zz9')", lambda: o.append("zz9")))
        out.append(("clear()", lambda: o.clear()))
    elif isinstance(o, dict):
        keys = list(dict.keys(o))
        if keys:
            out.append(("pop(first key)", lambda: o.pop(keys[0])))
            out.append(("clear()", lambda: o.clear()))
        out.append(("['zz9'] = 99", lambda: o.__setitem__("zz9", 99)))
        out.append(("[99] = 'zz9'", lambda: o.__setitem__(99, "zz9")))
    elif isinstance(o, set):
        # (no pop(): WHICH member a set hands out is not determined by its value)
        out.append(("add(99)", lambda: o.add(99)))
        out.append(("add('zz9')", lambda: o.add("zz9")))
        out.append(("clear()", lambda: o.clear()))
    return out


def demonstrate(build, kind, path_actor, path_other, state, actor_is_copy=True):
    """Fresh original and copy; the object reached from the ACTOR's instance along path_actor is changed
    through its own interface; returns the description of the first change after which the OTHER instance's
    observable state differs from what it was, else None."""
    x = build()
    y = make_copy(kind, x)
    actor, other = (y, x) if actor_is_copy else (x, y)
    try:
        if ("owner",) in path_actor:
            # the actor's wrapper is bound to an object of the other side: what the client does is call the
            # wrapper's own mutators (which re-assign the attribute of the instance the wrapper is bound to)
            o = navigate(actor, path_actor[:path_actor.index(("owner",))])
        else:
            o = navigate(actor, path_actor)
            if navigate(other, path_other) is not o:
                return None
    except Exception:  # noqa
        return None
    before = state(other)
    for what, thunk in mutations(o):
        try:
            thunk()
        except Exception:  # noqa
            continue
        try:
            after = state(other)
        except Exception:  # noqa
            after = None
        if after != before:
            return what
    return None


def path_str(path):
    out = []
    for s in path:
        if s[0] == "attr":
            out.append("." + s[1])
        elif s[0] == "owner":
            out.append("._instance")
        elif s[0] == "item":
            out.append("[%d]" % s[1])
        elif s[0] == "key":
            out.append(".key#%d" % s[1])
        else:
            out.append(".value#%d" % s[1])
    return "".join(out)


def sharing_fails(build, kind, state):
    """The separation clause on one instance and one kind of copy.
    Returns (fails, stats, graph tuple | None): fails = [(key suffix, what)], stats = [str]."""
    x = build()
    try:
        y = make_copy(kind, x)
    except Exception:  # noqa  (reported by the copy clause)
        return [], ["copy-raises"], None
    if y is x:
        return [], ["copy-is-original"], None
    g, n0, cx, cy = graph_of(x, y)
    shared = shared_mutable(g, n0, cx, cy)
    fails, stats = [], []
    seen = set()
    for i, py, px in shared:
        shape = shape_of(g, n0, cy, py)
        if shape in seen:
            continue
        seen.add(shape)
        w1 = demonstrate(build, kind, py, px, state, actor_is_copy=True)
        w2 = demonstrate(build, kind, px, py, state, actor_is_copy=False)
        if w1 is None and w2 is None:
            stats.append("shared-but-no-observable-effect:" + shape)
            continue
        what = "the %s shares the %s at copy%s with original%s: " % (kind, g.nodes[i]["kind"], path_str(py), path_str(px))
        if w1 is not None:
            what += "%s on it, reached through the COPY, changed the ORIGINAL; " % w1
        if w2 is not None:
            what += "%s on it, reached through the ORIGINAL, changed the COPY" % w2
        fails.append(("shared-mutable:" + shape, what))
    if not shared:
        stats.append("separated")
    return fails, stats, (g, n0, cx, cy)


# ------------------------------------------------------------------ emission as Gallina

def emit_child(c, reify):
    if c[0] == "atom":
        return "(CAtom %s)" % E.pval(reify(c[1]))
    return "(CRef %d)" % c[1]


def emit_heap(g, reify):
    objs = []
    for n in g.nodes:
        if n["kind"] == "inst":
            kind = "(KInst %s false)" % E.pstr(n["cls"])
        else:
            kind = KINDS[n["kind"]]
        kids = ["(%s, %s)" % (E.pstr(label), emit_child(c, reify)) for label, _, c in n["kids"]]
        objs.append("{| o_kind := %s; o_kids := %s |}" % (kind, E.lst(kids)))
    return E.lst(["\n   " + o for o in objs])


def emit_hcase(kind, gt, reify):
    g, n0, cx, cy = gt
    return "{| hc_kind := %s; hc_heap := %s; hc_n0 := %d; hc_x := %s; hc_y := %s |}" % (
        {"deepcopy": "HDeep", "pickle": "HPickle", "copy": "HCopy"}[kind], emit_heap(g, reify), n0,
        emit_child(cx, reify), emit_child(cy, reify))


def has_opaque(g, reify):
    """An atom the value model cannot represent (the case is then outside the model's domain)."""
    def bad(r):
        t = r[0]
        if t == "other":
            return True
        if t in ("list", "tuple", "deque"):
            return any(bad(x) for x in r[1])
        if t == "set":
            return any(bad(x) for x in r[2])
        if t == "dict":
            return any(bad(k) or bad(v) for k, v in r[1])
        if t == "struct":
            return any(bad(v) for _, v in r[2])
        if t == "enum":
            return bad(r[3])
        return False
    for n in g.nodes:
        for _, _, c in n["kids"]:
            if c[0] == "atom" and bad(reify(c[1])):
                return True
    return False


# ------------------------------------------------------------------ the lattice of value shapes

CONTAINERS = ("tuple", "list", "deque", "dictval", "set", "frozenset")
LEAVES = ("struct", "atoms")


def hashable_shape(chain, leaf):
    """Is a value of this shape hashable (needed for members of set / frozenset)?"""
    if not chain:
        return leaf == "struct"
    if chain[0] in ("list", "deque", "dictval", "set"):
        return False
    return hashable_shape(chain[1:], leaf)


def shape_ok(chain, leaf):
    for i, k in enumerate(chain):
        if k in ("set", "frozenset") and not hashable_shape(chain[i + 1:], leaf):
            return False
    # a bare atom at the end of a chain must sit in a mutable container to be of any interest
    if leaf == "atoms" and chain and chain[-1] in ("tuple", "frozenset"):
        return False
    return True


def shapes(max_len):
    """All (chain, leaf): chain of container kinds (outermost first), leaf = a nested mutable Structure or
    plain numbers."""
    out = [((), "struct")]
    level = [()]
    for _ in range(max_len):
        level = [c + (k,) for c in level for k in CONTAINERS]
        for c in level:
            for leaf in LEAVES:
                if shape_ok(c, leaf):
                    out.append((c, leaf))
    return out


def shape_value(chain, leaf, variant=0):
    """Reified value of the shape; the innermost container has two entries where it can."""
    if not chain:
        if leaf == "struct":
            return ("struct", "Inner", [("a", ("int", 1 + variant)), ("b", ("str", "x"))])
        return ("int", 5 + variant)
    k = chain[0]
    inner = shape_value(chain[1:], leaf, variant)
    second = shape_value(chain[1:], leaf, variant + 1) if len(chain) == 1 else None
    items = [inner] + ([second] if second is not None else [])
    if k == "tuple":
        return ("tuple", items)
    if k == "list":
        return ("list", items)
    if k == "deque":
        return ("deque", items)
    if k == "dictval":
        return ("dict", [(("str", "k%d" % i), v) for i, v in enumerate(items)])
    return ("set", k == "frozenset", items)


def shape_field(chain, leaf):
    """Typed declaration (field AST of harness/fieldgen.py) whose values have the shape."""
    if not chain:
        return {"t": "ref", "cls": "Inner"} if leaf == "struct" else {"t": "num", "k": "Integer", "s": "Any"}
    k = chain[0]
    sub = shape_field(chain[1:], leaf)
    if k == "tuple":
        if sub.get("t") == "ref":
            # Tuple(items=[<Structure class>]) is refused; the subscript form wraps the class into a ClassReference
            return {"t": "raw", "src": "Tuple[%s]" % sub["cls"]}
        return {"t": "tuple", "items": [sub], "uniq": False}
    if k in ("list", "deque"):
        return {"t": "seqeach", "k": k, "item": sub, "sz": [None, None], "uniq": False}
    if k == "dictval":
        return {"t": "mapkv", "kf": {"t": "str"}, "vf": sub, "sz": [None, None]}
    return {"t": "set", "imm": k == "frozenset", "item": sub, "sz": [None, None]}


def lattice_classes(chain, leaf):
    """[(holder, class AST, kwargs)]: the value held by a typed field, by an Anything field, by an
    undeclared (additional) attribute."""
    v = shape_value(chain, leaf)
    name = "L_" + "_".join(chain + (leaf,))
    out = [("typed", {"name": name + "_t", "fields": [{"name": "f", "field": shape_field(chain, leaf)}],
                      "required": ["f"], "additional": False}, [("f", v)])]
    if chain:
        out.append(("any", {"name": name + "_a", "fields": [{"name": "f", "field": {"t": "any"}}],
                            "required": ["f"], "additional": False}, [("f", v)]))
        out.append(("extra", {"name": name + "_x", "fields": [{"name": "g", "field": {"t": "num", "k": "Integer", "s": "Any"}}],
                              "required": [], "additional": True}, [("g", ("int", 1)), ("extra_1", v)]))
    return out


# ------------------------------------------------------------------ lock-step changes at every depth

def _outcome(thunk):
    try:
        thunk()
        return "ok"
    except Exception as ex:  # noqa
        return E.exn_name(ex)


def deep_lockstep(build, kind, state, same_outcome, prepare=None):
    """x: an instance; y: its copy; r: a second regularly constructed instance with the same values.  EVERY
    mutable object reachable from y (deepest first) and the object at the same place in r are put through
    the same candidate changes of their own public interface (valid and invalid arguments) in lock step:
    the outcome class and the resulting state must agree (the copy validates like a regular instance), and
    x must not change.  Returns [(symptom, kind of object, path, what)] (first divergence only)."""
    x, r = build(), build()
    y = make_copy(kind, x)
    if y is x:
        return []
    if prepare is not None:
        prepare(y, x)
    g = Graph()
    cy = g.add(y)
    if cy[0] != "ref":
        return []
    paths = sorted(((p, g.nodes[i]["kind"]) for i, p in g.reach(cy, owners=False).items()
                    if g.nodes[i]["kind"] in MUTABLE), key=lambda t: (-len(t[0]), repr(t[0])))
    sx = state(x)
    if state(y) != state(r):
        return [("initial-state-differs", "inst", [], "the %s is %r, a regular instance with the same values is %r" % (
            kind, state(y), state(r)))]
    for p, k in paths:
        try:
            oy, orr = navigate(y, p), navigate(r, p)
        except Exception:  # noqa  (an earlier change removed the place)
            continue
        if type(oy) is not type(orr):
            return [("type-differs", k, p, "copy%s is a %s, in a regular instance it is a %s" % (
                path_str(p), type(oy).__name__, type(orr).__name__))]
        for (dy, ty), (dr, tr) in zip(mutations(oy), mutations(orr)):
            if dy != dr:
                break
            a, b = _outcome(ty), _outcome(tr)
            where = "%s on copy%s" % (dy, path_str(p))
            if state(x) != sx:
                return [("original-changed", k, p, "%s changed the original: %r -> %r" % (where, sx, state(x)))]
            if not same_outcome(a, b):
                return [("outcome-differs", k, p, "%s gives %s, on a regular instance with the same values %s" % (where, a, b))]
            if state(y) != state(r):
                return [("state-differs", k, p, "after %s the %s is %r, a regular instance with the same values is %r" % (
                    where, kind, state(y), state(r)))]
    return []
