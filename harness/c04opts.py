"""C04, instance-level operations over the CLASS-OPTION lattice.

The shapes of harness/props/c04.py are all declared with the default class options.  Structure.__setattr__,
__delitem__ and Field.__set__ branch on several of them (_enable_undefined_value, _ignore_none,
_additional_properties, _required, defaults) and on the state of the attribute assigned (holds a value, was given
None explicitly, never given, has a default, is not a field at all).  This stream enumerates

    context      ImmutableStructure | mutable Structure whose fields are all declared immutable=True
    options      _enable_undefined_value x _ignore_none x _additional_properties(absent / False)     (8 combos)
    provenance   how the instance was obtained: constructor, pickle round trip, copy.copy, copy.deepcopy,
                 Deserializer, shallow_clone_with_overrides
    key          every declared field by role (required / populated scalar / populated container / explicit None /
                 never given / default) plus an undeclared and a sunder name
    operation    setattr with None / Undefined / the current value / another valid value / an invalid value,
                 delattr, del x[key]

deterministically (the lattice is small), plus seeded random classes (other field types) and random operation
HISTORIES on one instance.  The clause judged is the statement's own: the observable snapshot (every field read,
str, hash, == twin both ways, Serializer output) after the operation(s) equals the one before.  For the
immutable-FIELD context only attributes that hold a value after construction are operated on (the first assignment
of an absent immutable field is its initialisation).
Every setattr probe is also sent to Coq, where the GENERATED translation of Structure.__setattr__
(Gen/StructGuards.v) is evaluated on the heap of the same class options (Check/C04optchk.v) and compared with the
observed outcome."""
import collections
import copy
import pickle
import random

from harness import coqemit as E

deque = collections.deque

# name -> (source template, value at construction, another valid value, an invalid value)
FIELD_TYPES = {
    "int": (("Integer", ""), 3, 4, "bad"),
    "str": (("String", ""), "s", "t", 5),
    "float": (("Float", ""), 1.5, 2.5, "bad"),
    "bool": (("Boolean", ""), True, False, "bad"),
    "arr": (("Array", "items=Integer()"), [3, 4], [5], "bad"),
    "deq": (("Deque", "items=Integer()"), ("deque", [3, 4]), ("deque", [5]), "bad"),
    "map": (("Map", "items=[String(), Integer()]"), {"k": 1}, {"j": 2}, 3),
    "set": (("Set", "items=Integer()"), ("set", [1, 2]), ("set", [3]), 3),
    "tup": (("Tuple", "items=[Integer(), Integer()]"), ("tuple", [1, 2]), ("tuple", [3, 4]), 3),
    "any": (("Anything", ""), [1, 2], {"z": 1}, None),
    "enum": (("Enum", "values=['p', 'q']"), "p", "q", "zz"),
}
SCALARS = ["int", "str", "float", "bool", "enum"]
CONTS = ["arr", "deq", "map", "set", "tup", "any"]

IMPORTS = ("from typedpy import (Structure, ImmutableStructure, Integer, String, Float, Boolean, Array, Deque, Set, "
           "Tuple, Map, Anything, Enum)\n")

# "anything": an Anything-typed populated field (no validation at all: the only field type that accepts None itself)
ROLES = ["required", "populated", "container", "anything", "none", "absent", "default"]
# undeclared / sunder names, and the two bookkeeping attributes every instance carries: reachable through the
# ordinary attribute protocol (x._instantiated = ..., del x["_instantiated"]), so part of "attribute assignment or
# deletion"; only direct __dict__ / object.__setattr__ access is excluded by the statement
EXTRA_KEYS = [("zz_extra", "undeclared"), ("_zz", "sunder"), ("_instantiated", "_instantiated"), ("_none_fields", "_none_fields")]
INTERNAL_ROLES = ("_instantiated", "_none_fields")
VALUE_CLASSES = ["none", "undefined", "same", "other", "invalid"]
PROVENANCES = ["ctor", "pickle", "copy", "deepcopy", "deserialize", "clone"]


def mkval(v):
    if isinstance(v, tuple) and len(v) == 2 and v[0] in ("deque", "set", "tuple"):
        return {"deque": deque, "set": set, "tuple": tuple}[v[0]](v[1])
    return copy.deepcopy(v)


def field_src(ty, immutable, default=None):
    ctor, base = FIELD_TYPES[ty][0]
    kws = [base] if base else []
    if default is not None:
        kws.append("default=%r" % (default,))
    if immutable:
        kws.append("immutable=True")
    return "%s(%s)" % (ctor, ", ".join(kws))


def spec_fields(types):
    """types: {role: field type name}; returns [(field name, type, role)]"""
    return [("f_" + role[:3], types[role], role) for role in ROLES]


def default_types(i=0):
    return {"required": "int", "populated": SCALARS[i % len(SCALARS)], "container": CONTS[i % len(CONTS)], "anything": "any",
            "none": "int", "absent": "int", "default": "int"}


def class_source(spec, name="K"):
    base = "ImmutableStructure" if spec["ctx"] == "struct" else "Structure"
    imm = spec["ctx"] == "field"
    lines = ["class %s(%s):" % (name, base)]
    for fname, ty, role in spec["fields"]:
        default = FIELD_TYPES[ty][1] if role == "default" else None
        if isinstance(default, tuple):
            default = None
        lines.append("    %s = %s" % (fname, field_src(ty, imm, default)))
    lines.append("    _required = %r" % [f for f, _, r in spec["fields"] if r == "required"])
    if spec["eu"]:
        lines.append("    _enable_undefined_value = True")
    if spec["ign"]:
        lines.append("    _ignore_none = True")
    if spec["ap"] is False:
        lines.append("    _additional_properties = False")
    return "\n".join(lines) + "\n"


_classes = {}


def realize(spec):
    key = repr((spec["ctx"], spec["eu"], spec["ign"], spec["ap"], spec["fields"]))
    if key not in _classes:
        import sys
        ns = {}
        name = "C04O%d" % len(_classes)
        exec(IMPORTS + class_source(spec, name), ns)
        cls = ns[name]
        cls.__module__ = __name__       # picklable
        setattr(sys.modules[__name__], name, cls)
        _classes[key] = cls
    return _classes[key]


def ctor_kwargs(spec, with_none=True):
    kw = {}
    for fname, ty, role in spec["fields"]:
        if role in ("required", "populated", "container", "anything"):
            kw[fname] = mkval(FIELD_TYPES[ty][1])
        elif role == "none" and with_none:
            kw[fname] = None
    return kw


def construct(spec):
    cls = realize(spec)
    try:
        return cls(**ctor_kwargs(spec))
    except Exception:  # noqa   (explicit None not accepted under these options)
        return cls(**ctor_kwargs(spec, with_none=False))


def obtain(spec, prov):
    x = construct(spec)
    if prov == "ctor":
        return x
    if prov == "pickle":
        return pickle.loads(pickle.dumps(x))
    if prov == "copy":
        return copy.copy(x)
    if prov == "deepcopy":
        return copy.deepcopy(x)
    if prov == "deserialize":
        from typedpy import Serializer, Deserializer
        return Deserializer(realize(spec)).deserialize(Serializer(x).serialize())
    if prov == "clone":
        return x.shallow_clone_with_overrides()
    raise ValueError(prov)


def _norm(v):
    from harness.props import c04 as P
    if isinstance(v, type):
        return ("class", v.__name__)
    try:
        return P.norm(v)
    except Exception:  # noqa
        return ("repr", repr(v))


def names_of(spec):
    return [f for f, _, _ in spec["fields"]] + [k for k, r in EXTRA_KEYS if r not in INTERNAL_ROLES]


def snapshot(x, twin, spec):
    from typedpy import Serializer
    out = []
    for n in names_of(spec):
        try:
            out.append(("read:" + n, _norm(getattr(x, n))))
        except Exception as e:  # noqa
            out.append(("read:" + n, ("raises", type(e).__name__)))
    for label, fn in (("str", lambda: str(x)), ("hash", lambda: hash(x)), ("eq", lambda: x == twin),
                      ("eq-reflected", lambda: twin == x), ("serialize", lambda: repr(Serializer(x).serialize()))):
        try:
            out.append((label, fn()))
        except Exception as e:  # noqa
            out.append((label, ("raises", type(e).__name__)))
    return out


def value_for(spec, x, key, vclass):
    """the python value of a value class for attribute `key`"""
    if vclass == "none":
        return None
    if vclass == "undefined":
        from typedpy.commons import Undefined
        return Undefined
    ty = {f: t for f, t, _ in spec["fields"]}.get(key, "int")
    role = {f: r for f, _, r in spec["fields"]}.get(key, "extra")
    if vclass == "same":
        if key in x.__dict__ and x.__dict__[key] is not None:
            from harness.props import c04 as P
            try:
                return P.plain(x.__dict__[key])
            except Exception:  # noqa
                pass
        return mkval(FIELD_TYPES[ty][1])
    if vclass == "other":
        return mkval(FIELD_TYPES[ty][2])
    if vclass == "invalid":
        return mkval(FIELD_TYPES[ty][3]) if role != "extra" else object
    raise ValueError(vclass)


def apply_op(spec, x, op):
    """op = [kind, key, vclass?]; returns None or the exception class name"""
    kind, key = op[0], op[1]
    try:
        if kind == "setattr":
            setattr(x, key, value_for(spec, x, key, op[2]))
        elif kind == "delattr":
            delattr(x, key)
        elif kind == "delitem":
            del x[key]
        else:
            raise ValueError(kind)
    except Exception as e:  # noqa
        return type(e).__name__
    return None


def keys_for(spec, x):
    """(key, role) the stream operates on.  Immutable-field context: attributes holding a value only."""
    out = []
    for fname, _, role in spec["fields"]:
        if spec["ctx"] == "field" and x.__dict__.get(fname) is None:
            continue
        out.append((fname, role))
    if spec["ctx"] == "struct":
        out += EXTRA_KEYS
    return out


def all_ops(spec, x):
    ops = []
    for key, role in keys_for(spec, x):
        for vc in VALUE_CLASSES:
            if vc == "invalid" and type_of_key(spec, key) == "any":
                continue        # Anything has no invalid value
            ops.append((["setattr", key, vc], role))
        ops.append((["delattr", key], role))
        ops.append((["delitem", key], role))
    return ops


def opt_tag(spec):
    return "eu%d-ign%d-ap%s" % (int(bool(spec["eu"])), int(bool(spec["ign"])), "F" if spec["ap"] is False else "d")


def op_tag(op):
    return op[0] + (":" + op[2] if len(op) > 2 else "")


def finding_key(spec, prov, op, role, ty):
    """root-cause key: context, operation, role of the attribute, class options (+ provenance if not the
    constructor); the field TYPE is in the description and the replay, not in the key"""
    return "C04/inst/%s/%s/%s/%s%s" % (spec["ctx"], op_tag(op), role, opt_tag(spec),
                                      "" if prov == "ctor" else "/via-" + prov)


def type_of_key(spec, key):
    return {f: t for f, t, _ in spec["fields"]}.get(key, "-")


def replay_obj(spec, prov, ops):
    return {"kind": "opts", "spec": spec, "provenance": prov, "ops": ops,
            "class_source": IMPORTS + class_source(spec, "K"),
            "ctor_kwargs": repr(ctor_kwargs(spec))}


def run_single(spec, prov, rep, probes):
    """every single operation on a fresh instance of this provenance; returns findings"""
    findings = []
    try:
        x0 = obtain(spec, prov)
    except Exception as e:  # noqa
        rep.stat("inst-ops", "provenance-unavailable:%s:%s" % (prov, type(e).__name__))
        return findings
    twin = construct(spec)
    snap0 = snapshot(x0, twin, spec)
    for op, role in all_ops(spec, x0):
        x = obtain(spec, prov)
        has = x.__dict__.get(op[1]) is not None
        exn = apply_op(spec, x, op)
        snap1 = snapshot(x, twin, spec)
        changed = snap1 != snap0
        code = 2 if changed else (0 if exn else 1)
        rep.count("inst-ops", 1, (spec["ctx"], opt_tag(spec), prov, op_tag(op), role, type_of_key(spec, op[1])))
        rep.stat("inst-ops", "outcome:%s" % ["raise", "no-change", "CHANGED"][code])
        rep.stat("inst-ops", "options:%s" % opt_tag(spec))
        rep.stat("inst-ops", "op:%s" % op_tag(op))
        rep.stat("inst-ops", "provenance:%s" % prov)
        if op[0] == "setattr" and prov == "ctor":
            probes.append((spec, op, role, exn, changed, has))
        if not changed:
            # the operation left the observables alone; did it leave the instance REFUSING?  follow it with the
            # canonical assignment / deletion of the populated field
            for probe in follow_ups(spec):
                apply_op(spec, x, probe)
                snap2 = snapshot(x, twin, spec)
                if snap2 != snap0:
                    rep.stat("inst-ops", "follow-up:CHANGED")
                    findings.append((finding_key(spec, prov, op, role, "") + "/then-" + op_tag(probe),
                                     "after %s (%s) on an instance (%s) of an immutable %s with options %s, %s changed %s" % (
                                         describe(op), "raised " + exn if exn else "returned", prov,
                                         "structure" if spec["ctx"] == "struct" else "field", opt_tag(spec),
                                         describe(probe), ", ".join(a[0] for a, b in zip(snap0, snap2) if a != b)),
                                     replay_obj(spec, prov, [op, probe])))
                    break
        if changed:
            what = "%s on an instance (%s) of an immutable %s with options %s changed %s" % (
                describe(op), prov, "structure" if spec["ctx"] == "struct" else "field", opt_tag(spec),
                ", ".join(a[0] for a, b in zip(snap0, snap1) if a != b))
            findings.append((finding_key(spec, prov, op, role, type_of_key(spec, op[1])), what,
                             replay_obj(spec, prov, [op])))
    return findings


def follow_ups(spec):
    pop = [f for f, _, r in spec["fields"] if r == "populated"][0]
    return [["setattr", pop, "other"], ["delitem", pop]]


def describe(op):
    if op[0] == "setattr":
        return "x.%s = <%s>" % (op[1], op[2])
    if op[0] == "delattr":
        return "del x.%s" % op[1]
    return "del x[%r]" % op[1]


def run_history(spec, prov, rnd, rep, length):
    """a random history on ONE instance; the first step after which the snapshot differs is reported"""
    try:
        x = obtain(spec, prov)
    except Exception:  # noqa
        return []
    twin = construct(spec)
    snap0 = snapshot(x, twin, spec)
    pool = all_ops(spec, x)
    if not pool:
        return []
    hist = []
    for _ in range(length):
        op, role = rnd.choice(pool)
        hist.append(op)
        apply_op(spec, x, op)
        rep.count("inst-histories", 1, None)
        if snapshot(x, twin, spec) != snap0:
            rep.stat("inst-histories", "CHANGED")
            # shrink: does the last operation alone suffice?  else one earlier operation followed by the last?
            def reproduces(h):
                y = obtain(spec, prov)
                for o in h:
                    apply_op(spec, y, o)
                return snapshot(y, twin, spec) != snap0
            roles = dict(keys_for(spec, x))
            key = finding_key(spec, prov, op, role, "") + "/history"
            if reproduces([op]):
                hist, key = [op], finding_key(spec, prov, op, role, "")
            else:
                for first in hist[:-1]:
                    if reproduces([first, op]):
                        hist = [first, op]
                        key = finding_key(spec, prov, first, roles.get(first[1], "?"), "") + "/then-" + op_tag(op)
                        break
            return [(key,
                     "history %s changed an immutable %s (options %s)" % (
                         "; ".join(describe(o) for o in hist), "structure" if spec["ctx"] == "struct" else "field",
                         opt_tag(spec)),
                     replay_obj(spec, prov, hist))]
    rep.stat("inst-histories", "unchanged")
    rep.count("inst-histories", 0, (spec["ctx"], opt_tag(spec), prov, tuple(map(tuple, hist))))
    return []


def lattice_specs():
    out = []
    i = 0
    for ctx in ("struct", "field"):
        for eu in (False, True):
            for ign in (False, True):
                for ap in (None, False):
                    out.append({"ctx": ctx, "eu": eu, "ign": ign, "ap": ap, "fields": spec_fields(default_types(i))})
                    i += 1
    return out


def random_spec(rnd):
    types = {"required": rnd.choice(SCALARS + CONTS), "populated": rnd.choice(SCALARS + CONTS),
             "container": rnd.choice(CONTS), "anything": "any", "none": rnd.choice(SCALARS + CONTS), "absent": rnd.choice(SCALARS + CONTS),
             "default": rnd.choice(SCALARS)}
    # the rarely used options are drawn with probability 1/2 each
    return {"ctx": rnd.choice(["struct", "struct", "field"]), "eu": rnd.random() < 0.5, "ign": rnd.random() < 0.5,
            "ap": rnd.choice([None, False]), "fields": spec_fields(types)}


def run_stream(rep, rnd, tier):
    """Returns (findings, probes).  probes = setattr probes on constructor-built instances, for the Coq side."""
    findings, probes = [], []
    specs = lattice_specs()
    nrandom = 12 if tier == "quick" else 80
    specs += [random_spec(rnd) for _ in range(nrandom)]
    for n, spec in enumerate(specs):
        try:
            construct(spec)
        except Exception as e:  # noqa
            rep.stat("inst-ops", "class-or-instance-rejected:%s" % type(e).__name__)
            continue
        provs = PROVENANCES if (n < 16 or tier != "quick") else ["ctor", rnd.choice(PROVENANCES[1:])]
        for prov in provs:
            findings += run_single(spec, prov, rep, probes)
        for _ in range(6 if tier == "quick" else 20):
            findings += run_history(spec, rnd.choice(PROVENANCES), rnd, rep, rnd.randint(2, 4))
    return findings, probes


# ------------------------------------------------------------------ Coq side
def emit_probe(p):
    spec, op, role, exn, changed, has = p
    is_field = role not in ("undeclared", "sunder") + INTERNAL_ROLES
    vclass = {"none": "VNone", "same": "VSame", "other": "VOther"}.get(op[2], "VBad")
    if op[2] == "same" and not has:
        vclass = "VOther"
    if op[2] == "invalid" and value_for(spec, None, op[1], "invalid") is None:
        vclass = "VNone"        # Anything: there is no invalid value, None is sent
    obs = "ORaised" if exn else ("OChanged" if changed else "OSilent")
    return "{| p_imm := %s; p_fimm := %s; p_eu := %s; p_ign := %s; p_ap := %s; p_field := %s; p_required := %s; " \
           "p_sunder := %s; p_has := %s; p_val := %s; p_obs := %s; p_valerr := %s |}" % (
               E.blit(spec["ctx"] == "struct"), E.blit(spec["ctx"] == "field"), E.blit(bool(spec["eu"])),
               E.blit(bool(spec["ign"])), E.blit(spec["ap"] is not False), E.blit(is_field),
               E.blit(role == "required"), E.blit(role in ("sunder",) + INTERNAL_ROLES), E.blit(bool(has)), vclass, obs,
               E.blit(exn == "ValueError"))


OPT_HEADER = """From Coq Require Import ZArith NArith String List Bool. Import ListNotations.
From TP Require Import Base.PyVal Base.PyEq Check.C04optchk.
"""


def coq_shards(probes, per=400):
    shards = []
    for s in range(0, len(probes), per):
        body = "Definition probes : list probe := %s.\n" % E.lst(["\n " + emit_probe(p) for p in probes[s:s + per]])
        body += "Eval vm_compute in (indices_where opt_mismatch probes 0).\n"
        body += "Eval vm_compute in (length (filter declined probes)).\n"
        shards.append(body)
    return shards


# ------------------------------------------------------------------ replay
def replay(obj):
    spec = obj["spec"]
    spec["fields"] = [tuple(f) for f in spec["fields"]]
    prov = obj["provenance"]
    print(obj["class_source"])
    print("constructor arguments:", obj.get("ctor_kwargs"))
    x = obtain(spec, prov)
    twin = construct(spec)
    snap0 = snapshot(x, twin, spec)
    print("instance (%s): %s" % (prov, x))
    for op in obj["ops"]:
        exn = apply_op(spec, x, op)
        print("operation: %-28s %s" % (describe(op), "raised " + exn if exn else "returned"))
    snap1 = snapshot(x, twin, spec)
    print("instance now   : %s" % (x,))
    if snap1 != snap0:
        print("FAILS    : observable state changed (required: unchanged)")
        for a, b in zip(snap0, snap1):
            if a != b:
                print("   %-14s before: %r\n   %-14s after : %r" % (a[0], a[1], "", b[1]))
        return 1
    print("observable state unchanged: no clause of C04 fails on this input now")
    return 0
