"""Python objects -> Gallina literals of the model (Base/PyVal.v), and the reifier that turns
observed Python values into the model's value universe (as plain tagged tuples first)."""
import collections
import datetime
import decimal
import enum
import math

SAFE = set("abcdefghijklmnopqrstuvwxyzABCDEFGHIJKLMNOPQRSTUVWXYZ0123456789 _.-:,;/+*()[]{}<>=!?@#$%^&|~'")


def pstr(s):
    """pystr literal."""
    if s == "":
        return "(@nil N)"
    if all(c in SAFE for c in s):
        return '(s2p "%s")' % s
    return "[" + ";".join(str(ord(c)) for c in s) + "]%N"


def zlit(z):
    return "(%d)%%Z" % z


def nlit(n):
    return "%d%%N" % n


def natlit(n):
    return "%d%%nat" % n


def blit(b):
    return "true" if b else "false"


def lst(items):
    return "[" + "; ".join(items) + "]"


def opt(x, f=lambda y: y):
    return "None" if x is None else "(Some %s)" % f(x)


# ------------------------------------------------------------------ reified values
# A reified value is a tagged tuple:
#  ("none",) ("bool",b) ("int",z) ("flt",m,e) ("dec",m,e) ("str",s) ("list",[..]) ("tuple",[..])
#  ("deque",[..]) ("set",frozen,[..]) ("dict",[(k,v)..]) ("enum",cls,name,value)
#  ("struct",cls,[(name,v)..]) ("other",tag,repr)

def float_me(x):
    if x == 0:
        return (0, 0)
    p, q = x.as_integer_ratio()
    e = -(q.bit_length() - 1)
    while p % 2 == 0:
        p //= 2
        e += 1
    return (p, e)


def dec_me(d):
    sign, digits, exp = d.as_tuple()
    m = int("".join(map(str, digits))) if digits else 0
    if sign:
        m = -m
    if m == 0:
        return (0, 0)
    while m % 10 == 0:
        m //= 10
        exp += 1
    return (m, exp)


def canon_key(r):
    return repr(r)


def reify(v, struct_attrs=None, depth=0):
    """Python value -> reified tagged tuple.  struct_attrs(obj) -> list[(name, value)] for Structures."""
    if depth > 40:
        return ("other", "deep", "")
    rec = lambda x: reify(x, struct_attrs, depth + 1)
    if v is None:
        return ("none",)
    if isinstance(v, bool):
        return ("bool", v)
    if isinstance(v, enum.Enum):
        return ("enum", type(v).__name__, v.name, rec(v.value))
    if isinstance(v, int):
        return ("int", int(v))
    if isinstance(v, float):
        if math.isfinite(v):
            return ("flt",) + float_me(v)
        return ("other", "float", repr(v))
    if isinstance(v, decimal.Decimal):
        if v.is_finite():
            return ("dec",) + dec_me(v)
        return ("other", "Decimal", str(v))
    if isinstance(v, str):
        return ("str", v)
    if struct_attrs is not None:
        sa = struct_attrs(v)
        if sa is not None:
            return ("struct", type(v).__name__, [(k, rec(x)) for k, x in sa])
    if isinstance(v, collections.deque):
        return ("deque", [rec(x) for x in v])
    if isinstance(v, list):
        return ("list", [rec(x) for x in v])
    if isinstance(v, tuple):
        return ("tuple", [rec(x) for x in v])
    if isinstance(v, (set, frozenset)):
        items = sorted((rec(x) for x in v), key=canon_key)
        return ("set", isinstance(v, frozenset), items)
    if isinstance(v, dict):
        return ("dict", [(rec(k), rec(x)) for k, x in v.items()])
    if isinstance(v, datetime.datetime):
        return ("other", "datetime", v.isoformat())
    if isinstance(v, datetime.date):
        return ("other", "date", v.isoformat())
    if isinstance(v, datetime.time):
        return ("other", "time", v.isoformat())
    return ("other", type(v).__name__, "")


def pval(r):
    """reified value -> Gallina term of type pyval."""
    t = r[0]
    if t == "none":
        return "PNone"
    if t == "bool":
        return "(PBool %s)" % blit(r[1])
    if t == "int":
        return "(PNum (NInt %s))" % zlit(r[1])
    if t == "flt":
        return "(PNum (NFlt %s %s))" % (zlit(r[1]), zlit(r[2]))
    if t == "dec":
        return "(PNum (NDec %s %s))" % (zlit(r[1]), zlit(r[2]))
    if t == "str":
        return "(PStr %s)" % pstr(r[1])
    if t in ("list", "tuple", "deque"):
        c = {"list": "PList", "tuple": "PTuple", "deque": "PDeque"}[t]
        return "(%s %s)" % (c, lst([pval(x) for x in r[1]]))
    if t == "set":
        return "(PSet %s %s)" % (blit(r[1]), lst([pval(x) for x in r[2]]))
    if t == "dict":
        return "(PDict %s)" % lst(["(%s, %s)" % (pval(k), pval(v)) for k, v in r[1]])
    if t == "enum":
        return "(PEnum %s %s %s)" % (pstr(r[1]), pstr(r[2]), pval(r[3]))
    if t == "struct":
        return "(PStruct %s %s)" % (pstr(r[1]), lst(["(%s, %s)" % (pstr(k), pval(v)) for k, v in r[2]]))
    if t == "other":
        return "(POther %s %s)" % (pstr(r[1]), pstr(r[2]))
    raise ValueError(r)


EXN = {"TypeError": "TypeError", "ValueError": "ValueError", "InvalidStructureErr": "InvalidStructureErr",
       "IndexError": "IndexError", "KeyError": "KeyError", "AttributeError": "AttributeError",
       "OverflowError": "OverflowError", "ZeroDivisionError": "ZeroDivisionError",
       "NotImplementedError": "NotImplementedError", "RuntimeError": "RuntimeError"}


def exn(name):
    return EXN.get(name) or "(OtherExn %s)" % pstr(name)


def exn_name(e):
    """Canonical class name of a raised exception (most specific of the modelled ones)."""
    n = type(e).__name__
    if n in EXN:
        return n
    for base in type(e).__mro__:
        if base.__name__ in EXN:
            return base.__name__
    return n


def outcome(o):
    """("ok", reified) | ("raise", clsname) -> res pyval term."""
    if o[0] == "ok":
        return "(Ok %s)" % pval(o[1])
    return "(@Raise pyval %s)" % exn(o[1])


def dictlit(r):
    """reified dict -> `list (pyval*pyval)` term."""
    assert r[0] == "dict"
    return lst(["(%s, %s)" % (pval(k), pval(v)) for k, v in r[1]])
