"""Differential validation of the generated layer of C08 (Gen/SchemaSrc.v + Schema/SchemaSrcProofs.v), evaluated
inside Coq with Check/C08srcchk.v:

  view   the Python-level view [field_obj f] used by the bridging theorems is the real typedpy Field object built
         from the declaration f (class name + the attributes the mappers read);
  src    the GENERATED translation of convert_to_schema, run on the reified real object, returns exactly what the
         real convert_to_schema returned (keys, order, values) / raises when it raised;
  model  the hand model (mappable, fschema) against the same observation, exactly.

`check(rep, rnd, n)` can be called from harness/props/c08.py (streams "src:view", "src:translation", "src:model");
`python -m harness.c08_src [n]` runs it stand-alone and prints the counts."""
import enum
import random
import sys

from harness import core, coqemit as E, fieldgen as G
from harness import c08enums as X

# the enum-class vocabulary of C08 (as harness/props/c08.py registers it): mixed-in primitive types, by-value twins
G.ENUMS.update(X.EXTRA)
G.BY_VALUE.update(X.BY_VALUE)

HEADER = """From Coq Require Import ZArith NArith String List Bool. Import ListNotations.
From TP Require Import Check.C08srcchk.
Local Open Scope string_scope.
"""

NUM = ["multiplesOf", "minimum", "maximum", "exclusiveMaximum"]
SEQ = ["items", "uniqueItems", "additionalItems", "minItems", "maxItems"]
ATTRS = [  # (typedpy class name, attributes the mappers read) -- first isinstance match wins
    ("Number", NUM), ("String", ["minLength", "maxLength", "pattern"]), ("Boolean", []), ("NoneField", []),
    ("Anything", []), ("Enum", ["values", "serialization_by_value"]), ("Array", SEQ), ("Deque", SEQ),
    ("Set", ["items", "minItems", "maxItems"]), ("Tuple", ["items", "uniqueItems"]),
    ("Map", ["items", "minItems", "maxItems"]), ("AllOf", ["_fields"]), ("AnyOf", ["_fields"]),
    ("OneOf", ["_fields"]), ("NotField", ["_fields"]), ("ClassReference", ["_ty"]),
]


def reify_obj(o):
    """a real typedpy object -> reified value: Field instances as ("struct", class name, attributes)"""
    import typedpy
    from typedpy.structures import Field
    if isinstance(o, Field):
        for cname, attrs in ATTRS:
            cls = getattr(typedpy, cname, None) or getattr(__import__("typedpy.structures", fromlist=[cname]), cname)
            if isinstance(o, cls):
                return ("struct", type(o).__name__, [(a, reify_obj(getattr(o, a))) for a in attrs])
        return ("other", "field", type(o).__name__)
    if isinstance(o, list):
        return ("list", [reify_obj(x) for x in o])
    if isinstance(o, type) and not issubclass(o, enum.Enum):
        return ("other", "class", o.__name__)
    return E.reify(o)


def realise(f):
    ns = {}
    exec(G.IMPORTS + X.IMPORT + "the_field = " + G.field_src(f), ns)      # noqa: S102 - generated source of a declaration
    return ns["the_field"]


def observe(obj):
    from typedpy.json_schema.json_schema_mapping import convert_to_schema
    try:
        return ("ok", E.reify(convert_to_schema(obj, {})))
    except (TypeError, NotImplementedError) as e:
        return ("raise", type(e).__name__)


# ---- the regex MapMapper builds as the key of "patternProperties" (Schema/ToSchema.v key_pid, SchemaSrcProofs.v key_text)
KEY_BASE = 1000000000


def _enc_z(o):
    return 0 if o is None else 1 + 2 * abs(o) + (1 if o < 0 else 0)


def _enc_n(o):
    return 0 if o is None else o + 1


def _pair(a, b):
    return (a + b) * (a + b + 1) // 2 + b


def key_pid(kf):
    """oracle id of the key regex of a Map whose key field is the String declaration kf (ToSchema.key_pid)"""
    mn, mx, pat = kf.get("min"), kf.get("max"), kf.get("pat")
    if (mx or 0) != 0 or (mn or 0) != 0:
        return KEY_BASE + _pair(_enc_n(pat), _pair(_enc_z(mn), _enc_z(mx)))
    return pat if pat is not None else 0


def key_text(kf):
    """f"{keys.pattern or ''}{suffix}" as MapMapper.to_schema writes it"""
    mn, mx, pat = kf.get("min"), kf.get("max"), kf.get("pat")
    suffix = "{%s, %s}" % (mn or "", mx or "") if (mx or mn) else ""
    return (G.PATTERNS[pat] if pat is not None else "") + suffix


def key_entries(f, acc=None):
    """{id: text} of the key regexes with a length suffix in declaration f (the others are plain pattern ids)"""
    acc = {} if acc is None else acc
    if f.get("t") == "mapkv" and isinstance(f.get("kf"), dict) and f["kf"].get("t") == "str":
        i = key_pid(f["kf"])
        if i >= KEY_BASE:
            acc[i] = key_text(f["kf"])
    for k in ("item", "kf", "vf"):
        if isinstance(f.get(k), dict):
            key_entries(f[k], acc)
    for k in ("items", "fs"):
        for g in f.get(k) or []:
            key_entries(g, acc)
    return acc


def ptable(fields=()):
    rows = list(enumerate(G.PATTERNS))
    keys = {}
    for f in fields:
        key_entries(f, keys)
    rows += sorted(keys.items())
    return E.lst(["(%s, %s)" % (E.nlit(i), E.pstr(t)) for i, t in rows])


def einfo_text():
    return E.lst(["(%s, {| eo_mixin := %s; eo_by_value := %s |})" % (E.pstr(n), X.mixin_of(c), E.blit(n in G.BY_VALUE))
                  for n, c in sorted(G.ENUMS.items())])


def case_text(f, obj, obs):
    out = "(Some %s)" % E.pval(obs[1]) if obs[0] == "ok" else "None"
    return "{| vc_pats := pats0; vc_einfo := einfo0; vc_field := %s; vc_obj := %s; vc_out := %s |}" % (
        G.emit_field(f), E.pval(reify_obj(obj)), out)


def sprinkle(rnd, f):
    """enum members among the literals of some Enum[...] declarations (the generator's pool has none)"""
    if f.get("t") == "enumlit" and rnd.random() < 0.4:
        cname = rnd.choice(sorted(G.ENUMS))
        member = rnd.choice(list(G.ENUMS[cname]))
        f["values"] = f["values"] + [E.reify(member)]
    for k in ("item", "kf", "vf"):
        if isinstance(f.get(k), dict):
            sprinkle(rnd, f[k])
    for k in ("items", "fs"):
        for g in f.get(k) or []:
            sprinkle(rnd, g)
    return f


def check(rep, rnd, n=300, shard=150):
    """-> dict stream -> (cases, mismatching case indexes); records obligations on `rep` when given"""
    fields = []
    while len(fields) < n:
        f = sprinkle(rnd, G.gen_field(rnd, depth=0, classes=(), max_depth=rnd.choice([1, 2, 2, 3])))
        fields.append(f)
    cases, stats = [], {"ok": 0, "raise": 0}
    for f in fields:
        obj = realise(f)
        obs = observe(obj)
        stats[obs[0]] += 1
        cases.append(case_text(f, obj, obs))
    shards = []
    for i in range(0, len(cases), shard):
        body = "Definition pats0 : vptable := %s.\nDefinition einfo0 : list (pystr * eopts) := %s.\n" % (
            ptable(fields[i:i + shard]), einfo_text())
        body += "Definition cases : list vcase := %s.\n" % E.lst(["\n " + c for c in cases[i:i + shard]])
        for fn in ("view_mismatch", "src_mismatch", "model_mismatch"):
            body += "Eval vm_compute in (indices_where %s cases 0).\n" % fn
        shards.append(body)
    res = core.eval_cases(shards, "c08src", HEADER)
    bad = {"src:view": [], "src:translation": [], "src:model": []}
    for si, (rc, so, se) in enumerate(res):
        vals = core.parse_eval(so)
        if rc != 0 or len(vals) != 3:
            raise RuntimeError("c08_src shard failed to evaluate: %s" % ((so + se)[-1500:]))
        for key, v in zip(bad, vals):
            bad[key] += [si * shard + i for i in core.parse_nat_list(v)]
    if rep is not None:
        for key, idx in bad.items():
            rep.obligation("correspondence:" + key, not idx, "%d cases (%d return, %d raise), %d mismatches" % (
                len(cases), stats["ok"], stats["raise"], len(idx)))
            for i in idx[:3]:
                rep.broken("correspondence:" + key, "generated layer disagrees with the real library",
                           {"field": G.field_src(fields[i])})
    return {k: (len(cases), v) for k, v in bad.items()}, fields, stats


if __name__ == "__main__":
    n = int(sys.argv[1]) if len(sys.argv) > 1 else 300
    out, fields, stats = check(None, random.Random(core.seed() * 1000003 + 808), n)
    print(stats)
    for k, (m, idx) in out.items():
        print(k, m, "cases,", len(idx), "mismatches", [G.field_src(fields[i]) for i in idx[:5]])
    sys.exit(1 if any(idx for _, idx in out.values()) else 0)
