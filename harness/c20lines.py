"""C20 — the "lines" stream: pre-emption at EVERY line boundary inside typedpy.

The property quantifies over pre-emption "at any line boundary inside typedpy" and over operations on
classes of every shape; the table-driven schedule stream of harness/props/c20.py only pre-empts at the
lines named by the generated shared-access table and only uses a bare class `K` (one field under test, no
class-level options).  This stream complements it:

  * every operation runs in its own REAL thread under sys.settrace with a line budget (LineSched): the
    thread stops before the k-th line event it meets inside typedpy, so the controller can realise any
    line-granular schedule without per-line hand-offs;
  * class PROFILES exercise what is declared at class level and shared by all instances: serialization /
    deserialization mappers (dict, TO_CAMELCASE, TO_LOWERCASE, lists of them, nested `._mapper`s, function
    mappers), FastSerializable classes (serializer installed on the class at first use), nested structures,
    enums (cached enum mapping), trusted "simple class" deserialization (cached), defaults / optional /
    immutable / inherited fields, additional properties, plus every field kind of the table-driven stream;
  * operations: construct, deserialize (Deserializer and deserialize_structure), setattr, serialize (three
    entry points), construct-then-serialize, deserialize-then-serialize; valid inputs and inputs that are
    invalid in a field that differs per thread;
  * class state: COLD (classes declared afresh for every schedule: every lazily filled cache is empty, every
    lazily installed attribute missing) and WARM (the classes have been used before);
  * schedules: ALL schedules with one pre-emption (thread A runs k line events, thread B runs to completion,
    A finishes) for every k and both role assignments; thorough adds sampled two-pre-emption schedules and
    three threads.  In the quick tier the pre-emption points of long operations are thinned to the first
    and last `occ` occurrences of every distinct (file, line) (`--tier thorough`: all of them).

The clause evaluated: each thread's outcome (result / exception class / named field) equals the outcome of
the same operation run alone on the same (cold or warm) class state."""
import collections
import copy
import os
import random
import re
import sys
import threading
import time

from harness import core

FIELD = "f"


# ============================================================================ scheduler

class LWorker(threading.Thread):
    def __init__(self, tid, fn, sched):
        super().__init__(daemon=True)
        self.tid = tid
        self.fn = fn
        self.sched = sched
        self.go = threading.Semaphore(0)
        self.finished = False
        self.outcome = None
        self.budget = None
        self.nlines = 0
        self.where = None
        self.stopped = False
        self.tident = None
        self.record = None          # list of (file, line) of every line event, when recording

    def _global(self, frame, event, arg):
        if event == "call" and frame.f_code.co_filename.startswith(self.sched.root):
            return self._local
        return None

    def _local(self, frame, event, arg):
        if event == "line":
            if threading.get_ident() != self.tident:
                # a frame created by this worker (a generator, say) being run or finalised by another thread
                return self._local
            self.nlines += 1
            if self.record is not None:
                self.record.append((frame.f_code.co_filename, frame.f_lineno, frame.f_code.co_name))
            if self.budget is not None:
                self.budget -= 1
                if self.budget <= 0:
                    self.where = (frame.f_code.co_filename, frame.f_lineno, frame.f_code.co_name)
                    self.budget = None
                    self.stopped = True
                    self.sched.ctl.release()
                    self.go.acquire()
        return self._local

    def run(self):
        self.tident = threading.get_ident()
        self.go.acquire()
        sys.settrace(self._global)
        try:
            try:
                self.outcome = ("ok", self.fn())
            except BaseException as e:  # noqa
                self.outcome = ("raise", e)
        finally:
            sys.settrace(None)
            self.finished = True
            self.sched.ctl.release()


class LineTimeout(RuntimeError):
    pass


class LineSched:
    """Line-granular deterministic scheduler.  Exactly one worker runs at any time."""

    def __init__(self, root=None):
        import typedpy
        self.root = root or (os.path.dirname(os.path.abspath(typedpy.__file__)) + os.sep)
        self.ctl = threading.Semaphore(0)

    def run(self, ops, segments, timeout=20.0, record=False):
        """segments: [(tid, k)]: thread tid runs until it is about to execute its k-th further line inside
        typedpy (k=None: to completion); afterwards every unfinished thread runs to completion in tid order.
        -> (outcomes, line events per thread, executed segments, where each pre-empted thread stood, records)"""
        workers = [LWorker(i, fn, self) for i, fn in enumerate(ops)]
        for w in workers:
            if record:
                w.record = []
            w.start()
        executed = []
        stood = []
        for tid, k in list(segments) + [(i, None) for i in range(len(ops))]:
            w = workers[tid]
            if w.finished:
                continue
            before = w.nlines
            w.budget = k
            w.stopped = False
            w.go.release()
            while True:
                if not self.ctl.acquire(timeout=timeout):
                    self.ctl = threading.Semaphore(0)
                    raise LineTimeout("worker %d did not yield within %ss" % (tid, timeout))
                if w.finished or w.stopped:
                    break               # (anything else would be a wake-up that is not this worker's)
            executed.append((tid, w.nlines - before if not w.finished else None))
            if not w.finished:
                stood.append((tid,) + tuple(w.where))
        for w in workers:
            w.join(timeout)
        return ([w.outcome for w in workers], [w.nlines for w in workers], executed, stood,
                [w.record for w in workers])


# ============================================================================ profiles

IMPORTS = ("import enum\nfrom typing import Optional\nfrom collections import deque\n"
           "from typedpy import (Structure, ImmutableStructure, FastSerializable, Integer, String, Float, Boolean, Number, "
           "Positive, Array, Deque, Tuple, Set, ImmutableSet, Map, AllOf, AnyOf, OneOf, NotField, Enum, Anything, "
           "FunctionCall, mappers, Deserializer, Serializer, serialize, deserialize_structure, create_serializer)\n")


def S(cls, **kw):
    """marker of a nested Structure instance to build inside the operation"""
    return ("@", cls, kw)


def _n(t, i=0):
    return 1000 * (t + 1) + i


def _s(t, i=0):
    return "s%d" % _n(t, i)


def _corrupt(kw, path, value):
    kw = copy.deepcopy(kw)
    cur = kw
    for p in path[:-1]:
        cur = cur[p] if not (isinstance(cur, tuple) and cur and cur[0] == "@") else cur[2][p]
        if isinstance(cur, tuple) and cur and cur[0] == "@":
            cur = cur[2]
    cur[path[-1]] = value
    return kw


PROFILES = []
BURST = 160          # distinct cache keys per burst operation (more than any bound a cache is likely to have)
BURST_PROFILES = ("mapper-dict", "mapper-camel-nested", "fast-serializable")


def profile(name, src, top, val, bad, setf, racy_fields=(), racy_keys=(), fast=False, deser_kw=None, ser_kw=None, tags=(), doc=None):
    PROFILES.append(dict(name=name, src=src, top=top, val=val, bad=bad, setf=setf, racy_fields=tuple(racy_fields) + tuple(racy_keys),
                         fast=fast, deser_kw=deser_kw or {}, ser_kw=ser_kw or {}, tags=tuple(tags), doc=doc))


# -- an explicit dict mapper; scalar + Set + Map fields
profile(
    "mapper-dict",
    "class K(Structure):\n    first_name: String\n    zip_code: Integer\n    tags: Set[String]\n    by_key: Map[String, Integer]\n"
    "    _serialization_mapper = {'first_name': 'given', 'zip_code': 'zip', 'by_key': 'index'}\n",
    "K",
    val=lambda t: dict(first_name=_s(t), zip_code=_n(t), tags={_s(t, 1), _s(t, 2)}, by_key={_s(t, 3): _n(t, 3)}),
    bad=lambda kw, t: _corrupt(kw, [["zip_code", "first_name", "tags"][t % 3]], [1.5]),
    setf=lambda t: ("zip_code", _n(t, 7)))

# -- nested structures, camel case at both levels, a list of mappers at the top
profile(
    "mapper-camel-nested",
    "class Address(Structure):\n    street_name: String\n    zip_code: Integer\n    _serialization_mapper = mappers.TO_CAMELCASE\n"
    "class Person(Structure):\n    first_name: String\n    home_address: Address\n    other_addresses: Map[String, Address]\n"
    "    nick_names: Set[String]\n    geo_pos: Tuple[Float, Float]\n"
    "    _serialization_mapper = [{'first_name': 'given_name'}, mappers.TO_CAMELCASE]\n",
    "Person",
    val=lambda t: dict(first_name=_s(t), home_address=S("Address", street_name=_s(t, 1), zip_code=_n(t, 1)),
                       other_addresses={_s(t, 2): S("Address", street_name=_s(t, 3), zip_code=_n(t, 3))},
                       nick_names={_s(t, 4)}, geo_pos=(t + 0.5, t + 1.5)),
    bad=lambda kw, t: _corrupt(kw, [["first_name", "nick_names", "geo_pos"][t % 3]], 17),
    setf=lambda t: ("home_address", S("Address", street_name=_s(t, 8), zip_code=_n(t, 8))))

# -- the common web-service shape: an Array of nested structures (Array.Each is F15-racy when validated)
profile(
    "mapper-array-of-struct",
    "class Item(Structure):\n    item_id: Integer\n    display_name: String\n    _serialization_mapper = mappers.TO_CAMELCASE\n"
    "class Order(Structure):\n    order_id: Integer\n    line_items: Array[Item]\n    note_text: String\n"
    "    _serialization_mapper = [mappers.TO_CAMELCASE, {'orderId': 'id'}]\n",
    "Order",
    val=lambda t: dict(order_id=_n(t), line_items=[S("Item", item_id=_n(t, i + 1), display_name=_s(t, i + 1)) for i in range(2 + t % 2)],
                       note_text=_s(t, 9)),
    bad=lambda kw, t: _corrupt(kw, [["order_id", "note_text"][t % 2]], [None]),
    setf=lambda t: ("note_text", _s(t, 7)),
    racy_fields=["line_items"], racy_keys=["lineItems"])

# -- lower-case serialization mapper + its own deserialization mapper + nested `._mapper`
profile(
    "mapper-lower-deser",
    "class Leaf(Structure):\n    val_a: Integer\n    val_b: String\n"
    "class K(Structure):\n    name_x: String\n    count_y: Integer\n    leaf_z: Leaf\n"
    "    _serialization_mapper = mappers.TO_LOWERCASE\n"
    "    _deserialization_mapper = {'name_x': 'NX', 'count_y': 'CY', 'leaf_z': 'LEAF_Z', 'leaf_z._mapper': {'val_a': 'VA'}}\n",
    "K",
    val=lambda t: dict(name_x=_s(t), count_y=_n(t), leaf_z=S("Leaf", val_a=_n(t, 1), val_b=_s(t, 1))),
    bad=lambda kw, t: _corrupt(kw, [["count_y", "name_x"][t % 2]], {"zz": 1}),
    setf=lambda t: ("count_y", _n(t, 7)),
    doc=lambda t: {"NX": _s(t), "CY": _n(t), "LEAF_Z": {"VA": _n(t, 1), "val_b": _s(t, 1)}})

# -- FastSerializable: the serializer is created and installed on the class at first construction
profile(
    "fast-serializable",
    "class Point(Structure, FastSerializable):\n    x_pos: Integer\n    y_pos: Integer\n    _serialization_mapper = mappers.TO_CAMELCASE\n"
    "class Line(Structure, FastSerializable):\n    start_pt: Point\n    end_pt: Point\n    label_txt: String\n    weights: Array[Float]\n"
    "    _serialization_mapper = [mappers.TO_CAMELCASE, {'labelTxt': 'label'}]\n",
    "Line",
    val=lambda t: dict(start_pt=S("Point", x_pos=_n(t, 1), y_pos=_n(t, 2)), end_pt=S("Point", x_pos=_n(t, 3), y_pos=_n(t, 4)),
                       label_txt=_s(t), weights=[t + 0.25, t + 0.75]),
    bad=lambda kw, t: _corrupt(kw, [["label_txt", "start_pt"][t % 2]], 3.5),
    setf=lambda t: ("label_txt", _s(t, 7)),
    racy_fields=["weights"], fast=True)

# -- enum fields (cached enum mapping), optional, defaults
profile(
    "enum-optional-default",
    "class Color(enum.Enum):\n    RED = 1\n    GREEN = 2\n    BLUE = 3\n"
    "class K(Structure):\n    color: Enum[Color]\n    shade: Optional[Color]\n    level: Integer(default=5)\n"
    "    title: Optional[String]\n    kind: Enum(values=['p', 'q', 'r'])\n    _required = ['color', 'kind']\n",
    "K",
    val=lambda t: dict(color=("@enum", "Color", ["RED", "GREEN", "BLUE"][t % 3]), shade=("@enum", "Color", ["BLUE", "RED", "GREEN"][t % 3]),
                       title=_s(t), kind="pqr"[t % 3]) if t % 2 == 0 else
    dict(color=("@enum", "Color", ["RED", "GREEN", "BLUE"][t % 3]), kind="pqr"[t % 3], level=_n(t)),
    bad=lambda kw, t: _corrupt(kw, [["kind", "color"][t % 2]], "zz"),
    setf=lambda t: ("level", _n(t, 7)))

# -- several differently named optional fields that receive an explicit None (the None option of every Optional
#    must not be one object shared between fields)
profile(
    "optional-none",
    "class K(Structure):\n    nick: Optional[String]\n    age: Optional[Integer]\n    user_id: Optional[Integer]\n"
    "    name: String\n    tags: AnyOf[Set[String], None]\n",
    "K",
    val=lambda t: dict(name=_s(t), nick=None, age=_n(t, 1), user_id=None, tags={_s(t, 2)}) if t % 2 == 0 else
    dict(name=_s(t), nick=_s(t, 1), age=None, user_id=_n(t, 3), tags=None),
    bad=lambda kw, t: _corrupt(kw, [["name", "age"][t % 2]], [0.5]),
    setf=lambda t: (["nick", "age", "user_id"][t % 3], None))

# -- trusted deserialization of a "simple" class (cached simplicity level + cached flat mapper)
profile(
    "trusted-simple",
    "class Inner(Structure):\n    a_val: Integer\n    b_val: String\n    _serialization_mapper = {'a_val': 'A'}\n"
    "class K(Structure):\n    i_val: Integer\n    s_val: String\n    inner: Inner\n    nums: Set[Integer]\n"
    "    _serialization_mapper = {'i_val': 'I', 's_val': 'S'}\n",
    "K",
    val=lambda t: dict(i_val=_n(t), s_val=_s(t), inner=S("Inner", a_val=_n(t, 1), b_val=_s(t, 1)), nums={_n(t, 2), _n(t, 3)}),
    bad=lambda kw, t: _corrupt(kw, [["i_val", "s_val"][t % 2]], [2.5]),
    setf=lambda t: ("i_val", _n(t, 7)),
    deser_kw={"direct_trusted_mapping": True})

# -- inheritance, immutability, additional properties, a function mapper
profile(
    "inherit-immutable-function-mapper",
    "class Base(Structure):\n    ident: Integer\n    _additional_properties = True\n"
    "class Mid(Base):\n    names: Array[String]\n    _serialization_mapper = {'ident': 'ID'}\n"
    "class K(Mid, ImmutableStructure):\n    score: Float\n    pairs: Array(items=[Integer, String])\n"
    "    _serialization_mapper = {'score': FunctionCall(func=lambda x: x * 2), 'names': 'NAMES'}\n"
    "    _deserialization_mapper = {'score': FunctionCall(func=lambda x: x / 2, args=['score']), 'names': 'NAMES', 'ident': 'ID'}\n",
    "K",
    val=lambda t: dict(ident=_n(t), names=[_s(t, 1), _s(t, 2), _s(t, 3)][:2 + t % 2], score=t + 0.5, pairs=[_n(t, 4), _s(t, 4)]),
    bad=lambda kw, t: _corrupt(kw, [["score", "ident"][t % 2]], "bad"),
    setf=lambda t: ("score", t + 7.5),
    racy_fields=["names"], racy_keys=["NAMES"])

# -- multi-field wrappers and positional collections next to each other (all classified safe by the model)
profile(
    "wrappers-positional",
    "class Sub(Structure):\n    u: Integer\n    w: String\n"
    "class K(Structure):\n    any_f: AnyOf[Integer, String]\n    all_f: AllOf[Integer, Number]\n    one_f: OneOf[Sub, String]\n"
    "    tup_f: Tuple[Integer, String]\n    map_f: Map[String, Sub]\n    dq_f: Deque(items=[Integer, String])\n"
    "    _serialization_mapper = mappers.TO_CAMELCASE\n",
    "K",
    val=lambda t: dict(any_f=_n(t) if t % 2 == 0 else _s(t), all_f=_n(t, 1), one_f=S("Sub", u=_n(t, 2), w=_s(t, 2)) if t % 2 == 0 else _s(t, 2),
                       tup_f=(_n(t, 4), _s(t, 4)), map_f={_s(t, 5): S("Sub", u=_n(t, 5), w=_s(t, 6))},
                       dq_f=collections.deque([_n(t, 7), _s(t, 7)])),
    bad=lambda kw, t: _corrupt(kw, [["any_f", "tup_f", "all_f"][t % 3]], [1.5]),
    setf=lambda t: ("any_f", _s(t, 8)))


# -- serialization with explicit arguments: the override mapper / camel-case flag are part of the cache key
profile(
    "serialize-override-mapper",
    "class Part(Structure):\n    part_no: Integer\n    part_name: String\n    _serialization_mapper = {'part_no': 'no'}\n"
    "class K(Structure):\n    a_val: Integer\n    b_val: String\n    main_part: Part\n    spare_parts: Map[String, Part]\n"
    "    _serialization_mapper = mappers.TO_CAMELCASE\n",
    "K",
    val=lambda t: dict(a_val=_n(t), b_val=_s(t), main_part=S("Part", part_no=_n(t, 1), part_name=_s(t, 1)),
                       spare_parts={_s(t, 2): S("Part", part_no=_n(t, 2), part_name=_s(t, 3))}),
    bad=lambda kw, t: _corrupt(kw, [["a_val", "b_val"][t % 2]], [0.5]),
    setf=lambda t: ("a_val", _n(t, 7)),
    ser_kw={"mapper": {"a_val": "AA", "main_part._mapper": {"part_name": "NAME"}}}, tags=["ser-only"])

profile(
    "serialize-camel-flag",
    "class Leg(Structure):\n    leg_len: Float\n    leg_tag: String\n"
    "class K(Structure):\n    first_leg: Leg\n    all_legs: Tuple[Leg, Leg]\n    trip_name: String\n    stop_count: Integer\n",
    "K",
    val=lambda t: dict(first_leg=S("Leg", leg_len=t + 0.5, leg_tag=_s(t, 1)),
                       all_legs=(S("Leg", leg_len=t + 1.5, leg_tag=_s(t, 2)), S("Leg", leg_len=t + 2.5, leg_tag=_s(t, 3))),
                       trip_name=_s(t), stop_count=_n(t)),
    bad=lambda kw, t: _corrupt(kw, [["stop_count", "trip_name"][t % 2]], {"q": 1}),
    setf=lambda t: ("trip_name", _s(t, 7)),
    ser_kw={"camel_case_convert": True}, tags=["ser-only"])


def _conv(v):
    """('Inner', {...}) markers of harness/props/c20.py -> ('@', 'Inner', {...})"""
    if isinstance(v, tuple) and len(v) == 2 and isinstance(v[0], str) and v[0] in ("Inner", "Flat") and isinstance(v[1], dict):
        return ("@", v[0], {a: _conv(b) for a, b in v[1].items()})
    if isinstance(v, list):
        return [_conv(x) for x in v]
    if isinstance(v, collections.deque):
        return collections.deque(_conv(x) for x in v)
    if isinstance(v, tuple):
        return tuple(_conv(x) for x in v)
    if isinstance(v, dict):
        return {a: _conv(b) for a, b in v.items()}
    return v


def _kind_profiles():
    from harness.props import c20 as P
    for k in P.KINDS:
        def val(t, k=k):
            n = k.get("fixed_n", P.SIZES[t % len(P.SIZES)])
            return {FIELD: _conv(k["val"](t, n)), "s": "t%d" % t}

        def bad(kw, t, k=k):
            # thread 0: the field under test is invalid; thread 1: the OTHER field is (error messages must name one's own)
            if t % 2 == 0:
                n = k.get("fixed_n", P.SIZES[t % len(P.SIZES)])
                return {FIELD: _conv(k["bad"](k["val"](t, n))), "s": "t%d" % t}
            return dict(kw, s=[t])

        def setf(t, k=k):
            return (FIELD, _conv(k["val"](t, 2)))
        profile("kind:" + k["name"], P.INNER + "class K(Structure):\n    %s = %s\n    s = String\n" % (FIELD, k["decl"]), "K",
                val=val, bad=bad, setf=setf, tags=["kind"])


_kind_profiles()
PROFILE = {p["name"]: p for p in PROFILES}
KIND_PAIRS = [
    (("construct", True), ("construct", False)),
    (("deserialize", True), ("setattr", True)),
    (("construct", False), ("deserialize", False)),
    (("construct_serialize", "serialize"), ("setattr", False)),
]


# ---------------------------------------------------------------------------- realisation

_CODE = {}


def declare(p):
    ns = {}
    code = _CODE.get(p["name"])
    if code is None:
        code = _CODE[p["name"]] = compile(IMPORTS + p["src"], "<profile %s>" % p["name"], "exec")
    exec(code, ns)
    return ns


def realise(v, ns):
    if isinstance(v, tuple) and len(v) == 3 and v[0] == "@":
        return ns[v[1]](**{a: realise(b, ns) for a, b in v[2].items()})
    if isinstance(v, tuple) and len(v) == 3 and v[0] == "@enum":
        return ns[v[1]][v[2]]
    if isinstance(v, list):
        return [realise(x, ns) for x in v]
    if isinstance(v, collections.deque):
        return collections.deque(realise(x, ns) for x in v)
    if isinstance(v, tuple):
        return tuple(realise(x, ns) for x in v)
    if isinstance(v, dict):
        return {a: realise(b, ns) for a, b in v.items()}
    if isinstance(v, (set, frozenset)):
        return set(v)
    return v


def canon(x, depth=0):
    import enum
    from typedpy import Structure
    if depth > 10:
        return "<deep>"
    if isinstance(x, Structure):
        return ["S", type(x).__name__, sorted((a, canon(b, depth + 1)) for a, b in x.__dict__.items() if not a.startswith("_"))]
    if isinstance(x, enum.Enum):
        return ["E", type(x).__name__, x.name]
    if isinstance(x, collections.deque):
        return ["Q"] + [canon(y, depth + 1) for y in x]
    if isinstance(x, list):
        return ["L"] + [canon(y, depth + 1) for y in x]
    if isinstance(x, tuple):
        return ["T"] + [canon(y, depth + 1) for y in x]
    if isinstance(x, (set, frozenset)):
        return ["Set"] + sorted((canon(y, depth + 1) for y in x), key=repr)
    if isinstance(x, dict):
        return ["D"] + sorted(([canon(a, depth + 1), canon(b, depth + 1)] for a, b in x.items()), key=repr)
    if isinstance(x, (int, float, str, bool)) or x is None:
        return x
    return repr(type(x))


def named_field(msg):
    from harness.props import c20 as P
    return P.named_field(msg)


def outcome_of(o):
    if o is None:
        return ("hung",)
    if o[0] == "ok":
        return ("ok", canon(o[1]))
    e = o[1]
    msg = str(e)
    return ("raise", type(e).__name__, named_field(msg), re.sub(r"0x[0-9a-f]+", "0x", msg)[:300])


def same_outcome(a, b):
    if a[0] != b[0]:
        return False
    if a[0] == "ok":
        return a[1] == b[1]
    if a[0] == "raise":
        return a[1] == b[1] and a[2] == b[2]
    return True


# ---------------------------------------------------------------------------- documents (computed on a TWIN declaration)

def good_doc(p, t, twin):
    from typedpy import Serializer
    if p["doc"] is not None:
        return p["doc"](t)
    cache = twin.setdefault("__docs__", {})
    if t not in cache:
        inst = twin[p["top"]](**realise(p["val"](t), twin))
        cache[t] = Serializer(inst).serialize()
    return cache[t]


def bad_doc(p, t, twin):
    """the document of a valid instance with the value of one key (a different one per thread) replaced"""
    doc = copy.deepcopy(good_doc(p, t, twin))
    keys = sorted(doc)
    k = keys[t % len(keys)]
    doc[k] = {"zz": [1.5]}
    return doc


# ---------------------------------------------------------------------------- operations

SER_APIS = ["serialize", "Serializer", "method"]


def build_op(p, ns, twin, spec, t):
    """spec = (opkind, valid_or_api).  Everything besides the classes of `ns` is private to the operation.
    -> (callable, description)"""
    from typedpy import Deserializer, Serializer, serialize, deserialize_structure
    opkind, arg = spec
    top = ns[p["top"]]
    desc = {"op": opkind, "arg": arg, "thread": t}

    def ser(inst, api):
        if api == "method" and p["fast"]:
            return inst.serialize()
        kw = p["ser_kw"]
        if api == "Serializer":
            ctor = {"mapper": kw["mapper"]} if kw.get("mapper") else {}
            return Serializer(source=inst, **ctor).serialize(**{a: b for a, b in kw.items() if a != "mapper"})
        return serialize(inst, **kw)

    if opkind == "construct":
        kw = p["val"](t)
        if not arg:
            kw = p["bad"](kw, t)
        desc["kwargs"] = repr(kw)
        return (lambda: top(**realise(kw, ns))), desc
    if opkind in ("deserialize", "deser_fn", "roundtrip"):
        doc = good_doc(p, t, twin) if arg else bad_doc(p, t, twin)
        desc["doc"] = repr(doc)
        if opkind == "deserialize":
            return (lambda: Deserializer(target_class=top).deserialize(copy.deepcopy(doc), **p["deser_kw"])), desc
        if opkind == "deser_fn":
            return (lambda: deserialize_structure(top, copy.deepcopy(doc), **p["deser_kw"])), desc
        return (lambda: serialize(Deserializer(target_class=top).deserialize(copy.deepcopy(doc), **p["deser_kw"]))), desc
    if opkind == "setattr":
        if any(getattr(b, "__name__", "") == "ImmutableStructure" for b in top.__mro__):
            # assignment to an immutable structure must raise for every thread alike
            pass
        inst = top(**realise(p["val"](t + 5), ns))
        name, v = p["setf"](t)
        if not arg:
            v = [{"zz": 2.5}]
        desc["assign"] = repr((name, v))

        def op():
            setattr(inst, name, realise(v, ns))
            return inst
        return op, desc
    if opkind == "serialize":
        inst = top(**realise(p["val"](t), ns))
        desc["kwargs"] = repr(p["val"](t))
        return (lambda: ser(inst, arg)), desc
    if opkind == "burst":
        # a burst of serializations of ONE instance, each with its own ad-hoc override mapper (a service that builds
        # its mappers per request): every call has its own cache key, so `arg` calls fill any bounded cache
        inst = top(**realise(p["val"](t), ns))
        fld = sorted(top.get_all_fields_by_name())[0]
        desc["kwargs"] = repr(p["val"](t))
        desc["override_mappers"] = "{%r: %r + '_<thread>_<i>'} for i in range(%d)" % (fld, fld, arg)

        def op():
            out = [serialize(inst, mapper={fld: "%s_%d_%d" % (fld, t, i)}) for i in range(arg)]
            return [out[0], out[-1], len(out)]
        return op, desc
    if opkind == "construct_serialize":
        kw = p["val"](t)
        desc["kwargs"] = repr(kw)
        return (lambda: ser(top(**realise(kw, ns)), arg)), desc
    raise ValueError(opkind)


def cold_ok(p, spec):
    """can this operation be prepared without warming the class state it is meant to meet cold?"""
    opkind, _ = spec
    if opkind in ("serialize", "setattr", "burst") and p["fast"]:
        return False        # preparing the instance installs the FastSerializable serializer
    return True


# ---------------------------------------------------------------------------- operation pairs

def pairs(tier):
    """-> [(spec pair, class states)]  class states: "cw" cold and warm, "c" cold, "w" warm"""
    quick = tier == "quick"
    base = [
        ((("serialize", "serialize"), ("serialize", "Serializer")), "cw"),
        ((("construct_serialize", "method"), ("construct_serialize", "serialize")), "c" if quick else "cw"),
        ((("deserialize", True), ("deser_fn", True)), "c" if quick else "cw"),
        ((("deserialize", False), ("deserialize", False)), "w"),
        ((("construct", True), ("construct", False)), "w"),
        ((("construct", False), ("setattr", False)), "w"),
        ((("setattr", True), ("deserialize", True)), "w"),
    ]
    if not quick:
        base += [
            ((("serialize", "Serializer"), ("roundtrip", True)), "c"),
            ((("construct", True), ("serialize", "serialize")), "cw"),
            ((("construct", True), ("construct", True)), "cw"),
            ((("deser_fn", False), ("construct", True)), "cw"),
            ((("roundtrip", True), ("roundtrip", True)), "cw"),
            ((("setattr", True), ("setattr", False)), "w"),
            ((("construct_serialize", "Serializer"), ("deserialize", True)), "cw"),
            ((("deserialize", False), ("deserialize", False)), "c"),
            ((("construct", True), ("construct", False)), "c"),
            ((("serialize", "serialize"), ("burst", BURST)), "w"),
        ]
    return base


def tasks(tier, rnd, chunk=450):
    """-> list of explore_task argument tuples"""
    quick = tier == "quick"
    occ = 1 if quick else 2
    extra2 = 0 if quick else 30
    out = []
    rot = core.seed()
    for i, p in enumerate(PROFILES):
        if "kind" in p["tags"]:
            prs = [KIND_PAIRS[(i + rot) % len(KIND_PAIRS)]] if quick else KIND_PAIRS
            for pr in prs:
                out.append((p["name"], pr, False, occ, extra2, rnd.randrange(1 << 30)))
            continue
        for pr, states in pairs(tier):
            if quick and "ser-only" in p["tags"] and not any("serialize" in s_[0] for s_ in pr):
                continue
            if any(s_[0] == "burst" for s_ in pr) and p["name"] not in BURST_PROFILES:
                continue
            for cold in (True, False):
                if ("c" if cold else "w") not in states:
                    continue
                if cold and not all(cold_ok(p, s) for s in pr):
                    continue
                out.append((p["name"], pr, cold, occ, extra2, rnd.randrange(1 << 30)))
        if not quick:
            # three threads: the third repeats the first operation on its own input
            for pr, states in pairs(tier)[:4]:
                cold = "c" in states and all(cold_ok(p, s_) for s_ in pr)
                out.append((p["name"], pr + (pr[0],), cold, occ, 60, rnd.randrange(1 << 30)))
    return out


# ---------------------------------------------------------------------------- exploration (worker process)

def thin(record, occ):
    """pre-emption points: indices k (1-based line events) kept when thinning to the first and last `occ`
    occurrences of every distinct (file, line)"""
    if occ is None:
        return list(range(1, len(record) + 1))
    by = collections.defaultdict(list)
    for i, r in enumerate(record):
        by[(r[0], r[1])].append(i + 1)
    keep = set()
    for ks in by.values():
        keep.update(ks[:occ])
        keep.update(ks[-occ:])
    return sorted(keep)


def _warm(p, twin, spec_pair):
    """classes on which every operation of the pair and every serialization entry point has been used once"""
    ns = declare(p)
    for t, spec in enumerate(spec_pair):
        try:
            build_op(p, ns, twin, spec, t + 3)[0]()
        except Exception:  # noqa
            pass
    for api in SER_APIS:
        for sp in (("construct_serialize", api), ("roundtrip", True)):
            try:
                build_op(p, ns, twin, sp, 4)[0]()
            except Exception:  # noqa
                pass
    return ns


def _schedules(recs, occ, extra2, rnd):
    scheds = []
    if len(recs) == 3:
        # three threads, two pre-emptions, sampled: A k1 | B k2 | C all | B rest | A rest   (all role assignments)
        import itertools
        perms = list(itertools.permutations(range(3)))
        for _ in range(extra2 * 3):
            a, b, c = perms[rnd.randrange(len(perms))]
            if len(recs[a]) > 1 and len(recs[b]) > 1:
                scheds.append([(a, rnd.randrange(1, len(recs[a]) + 1)), (b, rnd.randrange(1, len(recs[b]) + 1)),
                               (c, None), (b, None), (a, None)])
        return scheds
    for a in range(len(recs)):
        b = 1 - a
        for k in thin(recs[a], occ):
            scheds.append([(a, k), (b, None), (a, None)])
        # two pre-emptions, sampled: A k1, B j, A k2, B rest, A rest
        for _ in range(extra2):
            if len(recs[a]) > 2 and len(recs[b]) > 1:
                k1 = rnd.randrange(1, len(recs[a]))
                j = rnd.randrange(1, len(recs[b]) + 1)
                k2 = rnd.randrange(1, max(2, len(recs[a]) - k1 + 1))
                scheds.append([(a, k1), (b, j), (a, k2), (b, None), (a, None)])
    return scheds


def explore_task(args):
    """One (profile, operation pair, class state), chunk `ci` of `nch` of its schedules.  With nch == 0 only the
    plan is computed (solo runs, number of schedules)."""
    pname, spec_pair, cold, occ, extra2, seed, ci, nch = args
    p = PROFILE[pname]
    rnd = random.Random(seed)
    res = {"profile": pname, "ops": [list(s) for s in spec_pair], "cold": cold, "schedules": 0, "deviations": [],
           "ndev": 0, "lines": None, "points": None, "error": None, "skipped": None, "seq": None, "timeouts": 0,
           "sites": [], "chunk": ci}
    try:
        sch = LineSched()
        twin = declare(p)
        warm_ns = None if cold else _warm(p, twin, spec_pair)

        def fresh():
            ns = declare(p) if cold else warm_ns
            built = [build_op(p, ns, twin, spec, t) for t, spec in enumerate(spec_pair)]
            return [b[0] for b in built], [b[1] for b in built]

        try:
            fresh()
        except Exception as e:  # noqa
            res["skipped"] = "%s: %s" % (type(e).__name__, str(e)[:200])
            return res
        # each operation alone (on its own fresh state): the required outcome, and its line events
        seq, recs = [], []
        for i in range(len(spec_pair)):
            ops, _ = fresh()
            o, nl, _, _, rec = sch.run([ops[i]], [], record=True)
            seq.append(outcome_of(o[0]))
            recs.append(rec[0])
        res["seq"] = seq
        res["lines"] = [len(r) for r in recs]
        scheds = _schedules(recs, occ, extra2, rnd)
        res["points"] = len(scheds)
        if nch == 0:
            return res
        sites = set()
        kept = collections.Counter()
        for segs in scheds[ci::nch]:
            ops, descs = fresh()
            try:
                o, nl, executed, stood, _ = sch.run(ops, segs, timeout=10.0)
            except LineTimeout:
                res["timeouts"] += 1
                continue
            res["schedules"] += 1
            for s_ in stood:
                sites.add((os.path.relpath(s_[1], sch.root), s_[3]))
            outs = [outcome_of(x) for x in o]
            bad = [i for i in range(len(ops)) if not same_outcome(outs[i], seq[i])]
            if bad:
                dev = {"stream": "lines", "profile": pname, "ops": [list(s) for s in spec_pair], "cold": cold,
                       "segments": [list(s) for s in segs], "executed": executed,
                       "stood": [[s[0], os.path.relpath(s[1], sch.root), s[2], s[3]] for s in stood],
                       "threads": bad, "observed": outs, "sequential": seq, "inputs": descs}
                res["ndev"] += len(bad)
                kk = tuple((t, symptom(dev, t)[0], symptom(dev, t)[2]) for t in bad) + (site_of(dev),)   # (no "diverges" yet: where the pre-empted thread stood)
                kept[kk] += 1
                dev["multiplicity_key"] = repr(kk)
                if kept[kk] <= 2:
                    # where does the deviating thread first leave the path it takes when run alone?
                    try:
                        ops2, _ = fresh()
                        _, _, _, _, rec2 = sch.run(ops2, segs, timeout=10.0, record=True)
                        dev["diverges"] = [divergence(recs[t], rec2[t], sch.root) for t in bad]
                    except Exception:  # noqa
                        dev["diverges"] = []
                    res["deviations"].append(dev)
                else:
                    for d in res["deviations"]:
                        if d["multiplicity_key"] == repr(kk):
                            d["more"] = d.get("more", 0) + 1
                            break
        res["sites"] = sorted(sites)
    except Exception:  # noqa
        import traceback
        res["error"] = traceback.format_exc()[-1500:]
    _release_classes()
    return res


def _release_classes():
    """the classes declared afresh for every schedule stay referenced from typedpy's class-keyed caches: drop them
    (worker processes are reused for many chunks)"""
    import gc
    try:
        import functools
        for mname, mod in list(sys.modules.items()):
            if mod is None or not mname.startswith("typedpy."):
                continue
            for v in list(vars(mod).values()):
                if isinstance(v, functools._lru_cache_wrapper):
                    v.cache_clear()
        _m = sys.modules.get("typedpy.serialization.mappers")      # (the package also exports an enum called `mappers`)
        if isinstance(getattr(_m, "aggregated_mapper_by_class", None), dict):
            _m.aggregated_mapper_by_class.clear()
    except Exception:  # noqa
        pass
    gc.collect()


def run_stream(tier, rnd, nproc, chunk=350):
    """Plan every task, split it into chunks of about `chunk` schedules, run the chunks in worker processes.
    -> list of per-chunk results"""
    import concurrent.futures
    import multiprocessing
    base = tasks(tier, rnd)
    ctx = multiprocessing.get_context("fork")
    with concurrent.futures.ProcessPoolExecutor(max_workers=nproc, mp_context=ctx) as ex:
        plans = list(ex.map(explore_task, [t + (0, 0) for t in base], chunksize=2))
        jobs = []
        results = []
        for t, pl in zip(base, plans):
            if pl["error"] or pl["skipped"] or not pl["points"]:
                results.append(pl)
                continue
            nch = max(1, (pl["points"] + chunk - 1) // chunk)
            for ci in range(nch):
                jobs.append((pl["points"] / nch, t + (ci, nch)))
        jobs.sort(key=lambda j: -j[0])
        for r in ex.map(explore_task, [j[1] for j in jobs], chunksize=1):
            results.append(r)
    return results, len(base)


# ---------------------------------------------------------------------------- classification of a deviation

def leaves(c, acc=None):
    acc = [] if acc is None else acc
    if isinstance(c, (list, tuple)):
        for y in c:
            leaves(y, acc)
    else:
        acc.append(c)
    return acc


def diff_fields(a, b):
    """top-level attribute / key names under which two canonical values differ (None: differ as a whole)"""
    if a == b:
        return []
    if (isinstance(a, list) and isinstance(b, list) and len(a) == 3 and len(b) == 3 and a[0] == "S" and b[0] == "S"
            and a[1] == b[1]):
        da, db = dict((k, v) for k, v in a[2]), dict((k, v) for k, v in b[2])
        return sorted(k for k in set(da) | set(db) if da.get(k, "<absent>") != db.get(k, "<absent>"))
    if isinstance(a, list) and isinstance(b, list) and a and b and a[0] == "D" and b[0] == "D":
        try:
            da, db = dict((repr(k), v) for k, v in a[1:]), dict((repr(k), v) for k, v in b[1:])
            return sorted(k.strip("'") for k in set(da) | set(db) if da.get(k, "<absent>") != db.get(k, "<absent>"))
        except Exception:  # noqa
            return [None]
    return [None]


VALIDATING = ("construct", "deserialize", "deser_fn", "setattr", "roundtrip", "construct_serialize")


def racy_field(tok, p):
    """the racy-validator field of the profile an element-slot name such as `line_items_1` belongs to"""
    if tok is None:
        return None
    for f in sorted(p["racy_fields"], key=len, reverse=True):
        if tok == f or tok.startswith(f + "_"):
            return f
    return None


def symptom(dev, t):
    """-> (symptom, description, F15-shaped field or None).  F15-shaped: all operations validate, and the deviation
    is an AttributeError/KeyError naming an element slot of a field whose declaration contains a validator the MODEL
    classifies racy (per-element rewriting of a shared name), or a result that differs only inside such fields and
    only by the thread's own elements."""
    p = PROFILE[dev["profile"]]
    obs, seq = dev["observed"][t], dev["sequential"][t]
    validating = all(o[0] in VALIDATING for o in dev["ops"])
    if obs[0] == "ok" and seq[0] == "ok":
        fields = diff_fields(obs[1], seq[1])
        own = leaves(seq[1])
        others = [x for u, o_ in enumerate(dev["sequential"]) if u != t and o_[0] == "ok" for x in leaves(o_[1])]
        others += [x for u, i_ in enumerate(dev.get("inputs") or []) if u != t for x in re.findall(r"s?\d{4,}", repr(i_))]
        foreign = [x for x in leaves(obs[1]) if x not in own and (x in others or str(x) in others)
                   and not isinstance(x, bool) and x is not None]
        where = ",".join(str(f) for f in fields)
        if foreign:
            return "foreign-value", "result differs in %s and contains %r taken from another thread's input: %r instead of %r" % (
                where, foreign[:4], obs[1], seq[1]), None
        f15 = None
        if validating and fields and all(f in p["racy_fields"] for f in fields) and all(x in own for x in leaves(obs[1])):
            f15 = fields[0]
        return "wrong-result", "result differs in %s: %r instead of %r" % (where, obs[1], seq[1]), f15
    scratch_miss = obs[0] == "raise" and obs[1] in ("AttributeError", "KeyError") and (
        validating or "'Structure' object has no attribute" in obs[3])
    if obs[0] == "raise" and seq[0] == "ok":
        f15 = racy_field(obs[2], p) if scratch_miss else None
        return "unexpected-exception:" + obs[1], "%s: %s (run alone it returns %r)" % (obs[1], obs[3], seq[1]), f15
    if obs[0] == "ok" and seq[0] == "raise":
        return "lost-exception", "returned %r; run alone it raises %s: %s" % (obs[1], seq[1], seq[3]), None
    if obs[0] == "raise" and seq[0] == "raise":
        f15 = racy_field(obs[2], p) if scratch_miss else None
        if obs[1] == seq[1]:
            if validating and racy_field(obs[2], p) is not None and racy_field(obs[2], p) == racy_field(seq[2], p):
                f15 = racy_field(obs[2], p)         # another element slot of the same field is named
            return "wrong-field-named", "%s names %r; run alone it names %r (%s)" % (obs[1], obs[2], seq[2], obs[3]), f15
        return "different-exception", "%s: %s; run alone %s: %s" % (obs[1], obs[3], seq[1], seq[3]), f15
    return "hung", "operation did not finish", None


def divergence(solo, inter, root):
    """file:function of the last line the thread executed in common with its solo run before its control flow
    differed (None: same path, only data differ)"""
    n = min(len(solo), len(inter))
    for i in range(n):
        if solo[i][:2] != inter[i][:2]:
            j = max(0, i - 1)
            return "%s:%s" % (os.path.relpath(solo[j][0], root).replace(os.sep, "/"), solo[j][2])
    if len(solo) != len(inter) and n:
        return "%s:%s" % (os.path.relpath(solo[n - 1][0], root).replace(os.sep, "/"), solo[n - 1][2])
    return None


def site_of(dev):
    """call site of the interference: where the first deviating thread's control flow left its solo path; if
    only data differ, the function in which the pre-empted thread stood"""
    for d in dev.get("diverges") or []:
        if d:
            return d
    if dev.get("stood"):
        s = dev["stood"][0]
        return "%s:%s" % (s[1].replace(os.sep, "/"), s[3])
    return "?"


# ---------------------------------------------------------------------------- replay

def replay(obj):
    p = PROFILE[obj["profile"]]
    spec = [tuple(s) for s in obj["ops"]]
    sch = LineSched()
    twin = declare(p)
    cold = obj.get("cold", True)

    def prepare():
        reset_containers(obj.get("reset"))
        return None if cold else _warm(p, twin, spec)
    state = {"ns": prepare()}

    def fresh():
        if obj.get("reset"):
            state["ns"] = prepare()         # the schedule was found from exactly this state
        ns = declare(p) if cold else state["ns"]
        return [build_op(p, ns, twin, sp, t)[0] for t, sp in enumerate(spec)]
    seq = []
    for i in range(len(spec)):
        o, _, _, _, _ = sch.run([fresh()[i]], [])
        seq.append(outcome_of(o[0]))
    segs = [tuple(s) for s in obj["segments"]]
    o, nl, executed, stood, _ = sch.run(fresh(), segs)
    outs = [outcome_of(x) for x in o]
    print(IMPORTS + p["src"])
    print("class state:", "cold (declared afresh, nothing used yet)" if cold else "warm (used before)")
    for t, sp in enumerate(spec):
        print("thread %d: %s %r" % (t, sp, build_op(p, declare(p), twin, sp, t)[1]))
    print("schedule (thread, line events inside typedpy before it is pre-empted; None = to completion):", segs)
    for s in stood:
        print("  thread %d pre-empted before %s:%d (%s)" % (s[0], os.path.relpath(s[1], sch.root), s[2], s[3]))
    fails = 0
    for t in range(len(spec)):
        ok = same_outcome(outs[t], seq[t])
        print("thread %d: observed %r\n          required (run alone) %r   %s" % (t, outs[t], seq[t], "" if ok else "<-- DIFFERS"))
        fails += 0 if ok else 1
    if not fails:
        print("no clause of C20 fails on this schedule now")
    return 1 if fails else 0


# ============================================================================ field trees (for the model's classification)

def field_tree(f, depth=0):
    """the declaration tree of a real Field object in the vocabulary of harness/props/c20.py (LEAF / node / struct)"""
    from typedpy import Array, Deque, Tuple, Set, ImmutableSet, Map, AllOf, AnyOf, OneOf, NotField, Structure
    from typedpy.structures import ClassReference, Field
    from harness.props import c20 as P
    if depth > 6:
        return P.LEAF
    if isinstance(f, ClassReference):
        return class_tree(f._ty, depth + 1)
    if isinstance(f, type) and issubclass(f, Structure):
        return class_tree(f, depth + 1)

    def sub(x):
        return field_tree(x, depth + 1)
    items = getattr(f, "items", None)
    for cls, base in ((Array, "Array"), (Deque, "Deque")):
        if isinstance(f, cls):
            if isinstance(items, Field):
                return P.node(base + ".Each", sub(items))
            if isinstance(items, (list, tuple)):
                return P.node(base + ".Positional", *[sub(x) for x in items])
            return P.LEAF
    if isinstance(f, Tuple):
        if isinstance(items, (list, tuple)) and len(items) > 1:
            return P.node("Tuple.Positional", *[sub(x) for x in items])
        if isinstance(items, (list, tuple)) and len(items) == 1:
            return P.node("Tuple.Uniform", sub(items[0]))
        return P.LEAF
    if isinstance(f, ImmutableSet):
        return P.node("ImmutableSet", sub(items)) if isinstance(items, Field) else P.LEAF
    if isinstance(f, Set):
        return P.node("Set", sub(items)) if isinstance(items, Field) else P.LEAF
    if isinstance(f, Map):
        if isinstance(items, (list, tuple)) and len(items) == 2:
            return P.node("Map", sub(items[0]), sub(items[1]))
        return P.LEAF
    for cls, base in ((AllOf, "AllOf"), (AnyOf, "AnyOf"), (OneOf, "OneOf"), (NotField, "NotField")):
        if isinstance(f, cls):
            return P.node(base, *[sub(x) for x in f.get_fields()])
    return P.LEAF


def class_tree(cls, depth=0):
    from harness.props import c20 as P
    return P.struct(*[field_tree(f, depth + 1) for f in cls.get_all_fields_by_name().values()])


def _reachable_classes(top):
    """the Structure classes instances of which can occur inside an instance of `top`"""
    from typedpy import Structure
    from typedpy.structures import ClassReference, Field
    seen, todo = [], [top]

    def walk(f, depth=0):
        if depth > 8:
            return
        if isinstance(f, ClassReference):
            todo.append(f._ty)
            return
        if isinstance(f, type) and issubclass(f, Structure):
            todo.append(f)
            return
        items = getattr(f, "items", None)
        for x in (items if isinstance(items, (list, tuple)) else [items]):
            if isinstance(x, (Field, type)):
                walk(x, depth + 1)
        if hasattr(f, "get_fields"):
            try:
                for x in f.get_fields():
                    walk(x, depth + 1)
            except Exception:  # noqa
                pass
    while todo:
        c = todo.pop()
        if c in seen or not (isinstance(c, type) and issubclass(c, Structure)):
            continue
        seen.append(c)
        for f in c.get_all_fields_by_name().values():
            walk(f)
    return seen


def profile_field_trees():
    """[(profile name, field name, serialized key, tree)] for every field of every Structure class a profile declares
    (nested classes included: an element slot `ys_1` of a nested class's Array field is named in messages too)"""
    from typedpy import Structure
    from typedpy.serialization.mappers import aggregate_serialization_mappers
    out = []
    for p in PROFILES:
        ns = declare(p)
        classes = _reachable_classes(ns[p["top"]])
        seen = set()
        for cls in classes:
            try:
                mp = aggregate_serialization_mappers(cls)
            except Exception:  # noqa
                mp = {}
            for name, f in cls.get_all_fields_by_name().items():
                key = mp.get(name, name)
                key = key if isinstance(key, str) else name
                if (name, key) in seen:
                    continue
                seen.add((name, key))
                out.append((p["name"], name, key, field_tree(f)))
    return out + internal_field_trees()


INTERNAL = "*typedpy*"


def internal_field_trees():
    """fields of typedpy's OWN Structure classes (FunctionCall, Serializer, Deserializer, ...): operations construct
    instances of them internally (e.g. aggregating a mapper with FunctionCall entries builds FunctionCall objects), so
    their class-level Field objects are shared by all threads too"""
    from typedpy import Structure

    def subs(c):
        for x in c.__subclasses__():
            yield x
            yield from subs(x)
    out = []
    for c in sorted(set(subs(Structure)), key=lambda c: (c.__module__, c.__qualname__)):
        if not (c.__module__ or "").startswith("typedpy."):
            continue
        try:
            fields = c.get_all_fields_by_name()
        except Exception:  # noqa
            continue
        for name, f in fields.items():
            out.append((INTERNAL, "%s.%s" % (c.__name__, name), name, field_tree(f)))
    return out


def set_racy(trees, racy_lists):
    """racy_lists[i]: names of the validators the model classifies racy inside trees[i]"""
    by = collections.defaultdict(dict)
    internal = {}
    for (pname, fname, key, _), racy in zip(trees, racy_lists):
        if not racy:
            continue
        if pname == INTERNAL:
            internal[key] = (racy[0], fname)
            continue
        by[pname][fname] = racy[0]
        by[pname][key] = racy[0]
    for p in PROFILES:
        p["racy"] = dict(by.get(p["name"], {}))
        p["racy_internal"] = {}
        for f, (validator, owner) in internal.items():
            if f not in p["racy"]:
                p["racy"][f] = validator
                p["racy_internal"][f] = owner
        p["racy_fields"] = tuple(p["racy"].keys())
    out = {p["name"]: sorted(set(by.get(p["name"], {}).keys())) for p in PROFILES}
    out[INTERNAL] = sorted(v[1] for v in internal.values())
    return out


# ============================================================================ caches: logged accesses of real calls

class _LogDict(dict):
    """a dict that logs who looks it up / stores into it (installed in place of a module-level cache)"""
    _sink = None
    _entry = None

    _calls = None       # shared: thread id -> stack of (function name, call number)

    def _ev(self, kind, value=None):
        fr = sys._getframe(2)
        stack = self._calls.get(threading.get_ident()) or []
        name = fr.f_code.co_name
        callno = next((c for (n, c) in reversed(stack) if n == name), None)
        self._sink.append((self._entry, kind, callno if callno is not None else -id(fr), name, fr.f_lineno, value,
                           repr(value) if kind == "store" else None))

    def __contains__(self, k):
        r = dict.__contains__(self, k)
        self._ev("check1" if r else "check0")
        return r

    def __getitem__(self, k):
        try:
            v = dict.__getitem__(self, k)
        except KeyError:
            self._ev("read0")
            raise
        self._ev("read1")
        return v

    def get(self, k, d=None):
        r = dict.__contains__(self, k)
        self._ev("hit" if r else "miss")
        return dict.get(self, k, d)

    def __setitem__(self, k, v):
        self._ev("store", v)
        dict.__setitem__(self, k, v)

    def setdefault(self, k, d=None):
        if not dict.__contains__(self, k):
            self._ev("store", d)
        else:
            self._ev("hit")
        return dict.setdefault(self, k, d)

    def update(self, *a, **kw):
        self._ev("store", None)
        dict.update(self, *a, **kw)

    def __delitem__(self, k):
        self._ev("clear")
        dict.__delitem__(self, k)

    def pop(self, *a):
        self._ev("clear")
        return dict.pop(self, *a)

    def clear(self):
        self._ev("clear")
        dict.clear(self)


def _resolve_container(entry):
    """-> (owner object, attribute name, current container) for a module-container entry, or None"""
    import importlib
    parts = entry["name"].split(".")
    for cut in range(len(parts) - 1, 0, -1):
        try:
            mod = importlib.import_module("typedpy." + ".".join(parts[:cut]))
        except ImportError:
            continue
        obj = mod
        try:
            for a in parts[cut:-1]:
                obj = getattr(obj, a)
            cur = getattr(obj, parts[-1])
        except AttributeError:
            return None
        return obj, parts[-1], cur
    return None


def cache_traces(ca):
    """Run serializing / deserializing operations of every profile (cold, then warm) with every module-level
    cache of the table replaced by a logging dict and the return values of the table's functions captured.
    -> (cases [(entry index, prog index, [event strings], meta)], touched entry indices, problems)"""
    sink = []
    installed = []
    problems = []
    fn_names = {}
    calls_by_thread = {}
    counter = [0]
    for ei, e in enumerate(ca["entries"]):
        if e["kind"] != "module-container":
            continue
        r = _resolve_container(e)
        if r is None or not isinstance(r[2], dict):
            continue
        owner, attr, cur = r
        ld = type("_LogDict%d" % ei, (_LogDict,), {"_sink": sink, "_entry": ei, "_calls": calls_by_thread})(cur)
        try:
            setattr(owner, attr, ld)
        except Exception as ex:  # noqa
            problems.append("cannot instrument %s: %s" % (e["name"], ex))
            continue
        installed.append((owner, attr, cur, ld))
        for pi, pr in enumerate(e["progs"]):
            fn_names.setdefault(pr["fn"], []).append((ei, pi))
    returns = {}

    def prof(frame, event, arg):
        name = frame.f_code.co_name
        if name not in fn_names:
            return
        if event == "call":
            counter[0] += 1
            calls_by_thread.setdefault(threading.get_ident(), []).append((name, counter[0]))
        elif event == "return":
            stack = calls_by_thread.get(threading.get_ident()) or []
            if stack and stack[-1][0] == name:
                returns[stack.pop()[1]] = (arg, repr(arg))

    calls = []      # (entry, fn name, frame id) in first-event order
    try:
        sys.setprofile(prof)
        threading.setprofile(prof)
        for p in PROFILES:
            twin = declare(p)
            ns = declare(p)
            for rnd_ in (0, 1):         # cold, then warm
                for spec in (("serialize", "serialize"), ("serialize", "Serializer"), ("construct_serialize", "method"),
                             ("roundtrip", True), ("deserialize", True), ("construct", True)):
                    for t in (0, 1):
                        try:
                            build_op(p, ns, twin, spec, t)[0]()
                        except Exception:  # noqa
                            pass
    finally:
        sys.setprofile(None)
        threading.setprofile(None)
        for owner, attr, cur, ld in installed:
            cur.update(ld) if isinstance(cur, dict) else None
            setattr(owner, attr, cur)
    by_call = collections.OrderedDict()
    for (ei, kind, fid, fname, line, value, rep0) in sink:
        by_call.setdefault((ei, fname, fid), []).append((kind, line, value, rep0))
    cases = []
    touched = set()
    for (ei, fname, fid), evs in by_call.items():
        touched.add(ei)
        progs = [pi for (e2, pi) in fn_names.get(fname, []) if e2 == ei]
        if not progs:
            problems.append("%s is accessed by %s, which the generated table does not list" % (ca["entries"][ei]["name"], fname))
            continue
        ret = returns.get(fid)
        out = []
        for kind, line, value, rep0 in evs:
            if kind in ("check0", "check1"):
                out.append("(EvCheck %s)" % ("true" if kind == "check1" else "false"))
            elif kind in ("read0", "read1"):
                out.append("(EvRead %s)" % ("true" if kind == "read1" else "false"))
            elif kind == "hit":
                if out and out[-1] == "EvHit":
                    continue
                out.append("EvHit")
            elif kind == "miss":
                out.append("EvMiss")
            elif kind == "clear":
                out.append("EvClear")
            else:
                final = ret is not None and value is ret[0] and rep0 == ret[1]
                out.append("(EvStore %s)" % ("true" if final else "false"))
        cases.append((ei, progs[0], out, {"entry": ca["entries"][ei]["name"], "function": fname,
                                          "lines": [l for _, l, _, _ in evs]}))
    return cases, touched, problems


def cache_witness_replay(entry, tag_line, rep_profiles=None):
    """The model's witness for a racy cache entry, realised on the implementation: the writer thread is stopped
    right after the line of its placeholder store, a second thread (distinct instance, same classes) runs to
    completion.  -> deviation dict or None, number of schedules tried"""
    sch = LineSched()
    path = os.path.join(core.REPO, entry["file"])
    specs = [("serialize", "serialize"), ("construct_serialize", "serialize"), ("serialize", "Serializer"),
             ("roundtrip", True), ("deserialize", True), ("construct", True)]
    tried = 0
    for p in (rep_profiles or PROFILES):
        twin = declare(p)
        for sa in specs:
            if not cold_ok(p, sa):
                continue
            try:
                ns = declare(p)
                op, _ = build_op(p, ns, twin, sa, 0)
                o, nl, _, _, rec = sch.run([op], [], record=True)
            except Exception:  # noqa
                continue
            ks = [i + 1 for i, r in enumerate(rec[0]) if os.path.realpath(r[0]) == os.path.realpath(path) and r[1] == tag_line]
            if not ks:
                continue
            seq_a = outcome_of(o[0])
            for sb in specs:
                if not cold_ok(p, sb):
                    continue
                pair = (sa, sb)
                try:
                    ns1 = declare(p)
                    seq_b = outcome_of(sch.run([build_op(p, ns1, twin, sb, 1)[0]], [])[0][0])
                    ns2 = declare(p)
                    built = [build_op(p, ns2, twin, s_, t) for t, s_ in enumerate(pair)]
                    segs = [(0, ks[0] + 1), (1, None), (0, None)]
                    o2, _, executed, stood, _ = sch.run([b[0] for b in built], segs)
                except Exception:  # noqa
                    continue
                tried += 1
                outs = [outcome_of(x) for x in o2]
                seq = [seq_a, seq_b]
                bad = [i for i in range(2) if not same_outcome(outs[i], seq[i])]
                if bad:
                    return ({"stream": "lines", "profile": p["name"], "ops": [list(s) for s in pair], "cold": True,
                             "segments": [list(s) for s in segs], "executed": executed,
                             "stood": [[s[0], os.path.relpath(s[1], sch.root), s[2], s[3]] for s in stood],
                             "threads": bad, "observed": outs, "sequential": seq, "inputs": [b[1] for b in built]}, tried)
    return None, tried


# ============================================================================ census of shared state written by operations

def _fp(v):
    if isinstance(v, (dict, list, set)):
        try:
            return (id(v), len(v), hash(repr(sorted(map(repr, v)))) if len(v) < 200 else len(v))
        except Exception:  # noqa
            return (id(v), len(v))
    return id(v)


def _snapshot(user_classes):
    import types
    snap = {}
    for mname, mod in list(sys.modules.items()):
        if mod is None or not (mname == "typedpy" or mname.startswith("typedpy.")):
            continue
        for k, v in list(vars(mod).items()):
            if isinstance(v, type):
                if getattr(v, "__module__", "").startswith("typedpy"):
                    for a, b in list(vars(v).items()):
                        snap[("class", v.__module__ + "." + v.__qualname__, a)] = _fp(b)
                continue
            if isinstance(v, (types.ModuleType, types.FunctionType, types.BuiltinFunctionType)):
                continue
            snap[("global", mname, k)] = _fp(v)
    for c in user_classes:
        for a, b in list(vars(c).items()):
            snap[("userclass", c.__qualname__, a)] = _fp(b)
    return snap


def shared_write_census(ca):
    """Module-level names of typedpy modules, attributes of typedpy's own classes and attributes of the profile's
    classes whose binding or (container) content differs after the operations of every profile have run.
    -> (changed keys not accounted for by the generated tables, all changed keys, number of operations)"""
    allowed = set()
    for e in ca["entries"]:
        if e["kind"] != "module-container":
            continue
        parts = e["name"].split(".")
        allowed.add(("global", "typedpy." + ".".join(parts[:-1]), parts[-1]))
        allowed.add(("class", "typedpy." + ".".join(parts[:-1]), parts[-1]))
    install_attrs = {i["attr"] for i in ca.get("installs", [])}
    changed_all = set()
    n_ops = 0
    specs = [("construct", True), ("construct", False), ("deserialize", True), ("deserialize", False), ("deser_fn", True),
             ("setattr", True), ("setattr", False), ("serialize", "serialize"), ("serialize", "Serializer"),
             ("serialize", "method"), ("construct_serialize", "method"), ("roundtrip", True)]
    for p in PROFILES:
        try:
            twin = declare(p)
            ns = declare(p)
            classes = _reachable_classes(ns[p["top"]])
        except Exception:  # noqa
            continue
        before = _snapshot(classes)
        for spec in specs:
            for t in (0, 1):
                try:
                    op = build_op(p, ns, twin, spec, t)[0]
                except Exception:  # noqa
                    continue
                n_ops += 1
                try:
                    op()
                except Exception:  # noqa
                    pass
        after = _snapshot(classes)
        mods_before = {k[1] for k in before if k[0] == "global"}
        for k in set(before) | set(after):
            if k[0] == "global" and k[1] not in mods_before:
                continue        # a typedpy module imported for the first time during an operation
            if before.get(k) != after.get(k):
                changed_all.add(k)
    unknown = sorted(k for k in changed_all
                     if k not in allowed and not (k[0] == "userclass" and k[2] in install_attrs))
    return unknown, sorted(changed_all), n_ops


# ============================================================================ class level (Global/ClassModel.v)

def class_entry_indices(sa):
    """{profile name: (table indices of the validators of the top-level class's collection / wrapper fields,
    number of scalar fields)} for the class profiles"""
    idx = {e["name"]: i for i, e in enumerate(sa["entries"])}
    out = {}
    for p in PROFILES:
        if "kind" in p["tags"]:
            continue
        ns = declare(p)
        ids, scalars, unknown = [], 0, []
        for name, f in ns[p["top"]].get_all_fields_by_name().items():
            t = field_tree(f)
            if t[0] == "node":
                if t[1] in idx:
                    ids.append(idx[t[1]])
                else:
                    unknown.append(t[1])
            else:
                scalars += 1
        out[p["name"]] = (ids, scalars, unknown)
    return out


def reset_containers(names):
    """empty the named module-level caches (so that a schedule does not depend on what the process did before)"""
    for nm in names or []:
        r = _resolve_container({"name": nm})
        if r is not None and hasattr(r[2], "clear"):
            try:
                r[2].clear()
            except Exception:  # noqa
                pass


def cache_removal_replay(entry, read_line, clear_line):
    """The model's REMOVAL witness realised on the implementation.  The reader (an operation whose key is already
    cached) is stopped when it is about to execute the line of its subscript read, i.e. after its membership test
    hit; a second thread performs a burst of operations with distinct cache keys, long enough to reach the
    removal line (found by doubling the burst until that line is executed); the reader resumes.
    -> (deviation dict or None, schedules tried, note)"""
    sch = LineSched()
    path = os.path.realpath(os.path.join(core.REPO, entry["file"]))
    specs = [("serialize", "serialize"), ("serialize", "Serializer"), ("construct_serialize", "serialize"), ("roundtrip", True)]
    tried = 0
    note = "no operation reaches the read line %d on its hit path" % read_line
    for p in PROFILES:
        if "kind" in p["tags"] or p["fast"]:
            continue
        twin = declare(p)

        for sa in specs:
            try:
                reset_containers([entry["name"]])
                ns = _warm(p, twin, (sa,))
                op, _ = build_op(p, ns, twin, sa, 0)
                o, nl, _, _, rec = sch.run([op], [], record=True)
            except Exception:  # noqa
                continue
            ks = [i + 1 for i, r in enumerate(rec[0]) if os.path.realpath(r[0]) == path and r[1] == read_line]
            if not ks:
                continue
            seq_a = outcome_of(o[0])
            # how long a burst reaches the removal line?
            m, reached = 48, False
            while m <= 1600 and not reached:
                try:
                    reset_containers([entry["name"]])
                    ns1 = _warm(p, twin, (sa, ("burst", m)))
                    ob, _, _, _, recb = sch.run([build_op(p, ns1, twin, ("burst", m), 1)[0]], [], record=True)
                except Exception:  # noqa
                    break
                reached = any(os.path.realpath(r[0]) == path and r[1] == clear_line for r in recb[0])
                if not reached:
                    m *= 2
            if not reached:
                note = "a burst of up to %d distinct keys never executes the removal line %d" % (m // 2, clear_line)
                continue
            seq_b = outcome_of(ob[0])
            pair = (sa, ("burst", m))
            for k in ks[:2]:
                try:
                    reset_containers([entry["name"]])
                    ns2 = _warm(p, twin, pair)
                    built = [build_op(p, ns2, twin, s_, t) for t, s_ in enumerate(pair)]
                    segs = [(0, k), (1, None), (0, None)]
                    o2, _, executed, stood, _ = sch.run([b[0] for b in built], segs, timeout=60.0)
                except Exception:  # noqa
                    continue
                tried += 1
                outs = [outcome_of(x) for x in o2]
                seq = [seq_a, seq_b]
                bad = [i for i in range(2) if not same_outcome(outs[i], seq[i])]
                if bad:
                    return ({"stream": "lines", "profile": p["name"], "ops": [list(s_) for s_ in pair], "cold": False,
                             "reset": [entry["name"]],
                             "segments": [list(s_) for s_ in segs], "executed": executed,
                             "stood": [[s_[0], os.path.relpath(s_[1], sch.root), s_[2], s_[3]] for s_ in stood],
                             "threads": bad, "observed": outs, "sequential": seq, "inputs": [b[1] for b in built]}, tried, "")
            note = "%d witness schedules replayed (burst of %d keys), no deviating outcome" % (tried, m)
    return None, tried, note
