"""C15 worker: realises a *program* (a set of plain user types, enums, field factories and typedpy
class definitions given as a JSON spec), runs a history of events on it in ONE process and computes
behaviour fingerprints of classes.

Used two ways:
  * as a subprocess  `python -m harness.c15_worker jobs.json out.json [nproc]`: imports typedpy once,
    never touches it, and forks one pristine child per job (so every job sees the process-wide state of
    a just-imported typedpy: a fresh interpreter, batched);
  * `--spawn`: every job in a really new interpreter (`python -m harness.c15_worker --one`), used to
    validate that the forked children are equivalent to fresh interpreters.
Nothing here is imported by the harness' own process except the pure helpers (spec -> source, probes).

Spec ("prog"):
  utypes : [{"var": "U0", "name": "Foo", "tag": 0}]            plain classes (bare class NAME may repeat)
  enums  : [{"var": "E0", "name": "Color", "members": ["a","b"]}]
  classes: [{"var": "S0", "name": "Foo", "kind": "struct"|"immutable"|"fast"|"factory"|"partial"|"omit"|"pick"
                                               |"extend"|"allreq",
             "base": null|"S1", "of": null|"S1", "names": [...], "fields": [[fname, ftype, default|null]...],
             "opts": {"additional": false, "optional": [...], "ignore_none": true, "mapper": "camel"|{"a":"b"}, "n": 7}}]
Field types (ftype strings): see FT below; parameterised ones are "u:U0", "arr_u:U0", "map_u:U0", "ref:S0",
"arr_ref:S0", "enum:E0".
Events: ["define", S] ["construct", S, i] ["ser", S, i, mode] ["deser", S, i, mode] ["schema", S]
        ["create_serializer", S, compact, serialize_none] ["trusted", S, i] ["setdefault", key, value] ["restore", key]
        ["probe", S]   (= every use the fingerprint makes of S: construct, serialize, deserialize, trusted, schema, str)
"""
import json
import os
import re
import sys

# --------------------------------------------------------------------------------- field types
# name -> (source expression, [(python value expr, json doc or NOJSON)] valid-ish, same invalid-ish)
NOJSON = "<nojson>"
FT = {
    "int": ("Integer", [("3", 3), ("-7", -7)], [("'x'", "x"), ("1.5", 1.5)]),
    "pint": ("Integer(minimum=1, maximum=100)", [("5", 5)], [("0", 0), ("'a'", "a")]),
    "str": ("String", [("'ab'", "ab"), ("''", "")], [("4", 4)]),
    "sstr": ("String(maxLength=3)", [("'ab'", "ab")], [("'abcd'", "abcd"), ("1", 1)]),
    "bool": ("Boolean", [("True", True)], [("'x'", "x")]),
    "float": ("Float", [("1.5", 1.5), ("2", 2)], [("'q'", "q")]),
    "arr_int": ("Array[Integer]", [("[1, 2]", [1, 2]), ("[]", [])], [("[1, 'a']", [1, "a"]), ("3", 3)]),
    "set_str": ("Set[String]", [("{'a'}", ["a"])], [("{1}", [1])]),
    "map_si": ("Map[String, Integer]", [("{'a': 1}", {"a": 1})], [("{'a': 'b'}", {"a": "b"})]),
    "fac": ("mk_small", [("4", 4)], [("10", 10), ("'s'", "s")]),
    "fac2": ("mk_small()", [("9", 9)], [("-1", -1)]),
    "facb": ("mk_big()", [("50", 50)], [("5", 5)]),
    "anyof": ("AnyOf[Integer, String]", [("1", 1), ("'a'", "a")], [("1.5", 1.5)]),
    "opt_int": ("Optional[int]", [("6", 6), ("None", None)], [("'a'", "a")]),
    "sref": ("StructureReference(a=Integer, b=String)", [("{'a': 1, 'b': 'x'}", {"a": 1, "b": "x"})],
             [("{'a': 'x', 'b': 'x'}", {"a": "x", "b": "x"}), ("3", 3)]),
    "sref2": ("StructureReference(a=String, c=Integer(maximum=5))", [("{'a': 'k', 'c': 1}", {"a": "k", "c": 1})],
              [("{'a': 'k', 'c': 9}", {"a": "k", "c": 9})]),
}

DEFAULT_KEYS = {
    "additional_properties_default": False,
    "compact_serialization_default": True,
    "compact_deserialization_default": True,
    "allow_none_for_optionals": True,
    "ignore_invalid_additional_properties_in_deserialization": False,
    "safe_trusted_instantiation": True,
    "defensive_copy_on_get": False,
    "automatic_enum_conversion": False,
    "fail_fast": False,
}
SER_MODES = ["plain", "compact", "camel", "serializer", "fn_compact_default"]
DESER_MODES = ["plain", "camel", "keep_undefined"]


def class_by_var(prog):
    return {c["var"]: c for c in prog["classes"]}


def effective_fields(prog, var, _seen=()):
    """[(fname, ftype)] the class is expected to have (used only to build probes)."""
    c = class_by_var(prog)[var]
    k = c["kind"]
    own = [(f[0], f[1]) for f in c.get("fields", [])]
    if k in ("struct", "immutable", "fast", "factory"):
        base = effective_fields(prog, c["base"]) if c.get("base") else []
        if k == "factory":
            own = own + [("lim", "int")]
        names = [n for n, _ in own]
        return [(n, t) for n, t in base if n not in names] + own
    src = effective_fields(prog, c["of"])
    if k == "omit":
        src = [(n, t) for n, t in src if n not in c["names"]]
    elif k == "pick":
        src = [(n, t) for n, t in src if n in c["names"]]
    names = [n for n, _ in own]
    return [(n, t) for n, t in src if n not in names] + own


def deps(prog, var):
    """Variables of typedpy classes that must be defined before `var` (transitively), in order."""
    byv = class_by_var(prog)
    out = []

    def go(v):
        c = byv[v]
        for d in [c.get("base"), c.get("of")] + [x for _, t, *_ in c.get("fields", [])
                                                   if t.startswith(("ref:", "arr_ref:", "pos_ref:", "map_ref:"))
                                                   for x in t.split(":", 1)[1].split(",")]:
            if d and d not in out and d != var:
                go(d)
                if d not in out:
                    out.append(d)
    go(var)
    return out


def ftype_src(t):
    if ":" in t:
        k, a = t.split(":", 1)
        return {"u": "Field[%s]", "arr_u": "Array[%s]", "map_u": "Map[String, %s]", "ref": "%s",
                "arr_ref": "Array[%s]", "enum": "Enum[%s]", "set_u": "Set[%s]",
                "pos_ref": "Array(items=[%s])", "map_ref": "Map[String, %s]"}[k] % a.replace(",", ", ")
    return FT[t][0]


def values(prog, t, depth=0):
    """([(expr, doc)] valid-ish, [(expr, doc)] invalid-ish) for a field type."""
    if ":" not in t:
        return FT[t][1], FT[t][2]
    k, a = t.split(":", 1)
    if k in ("u", "arr_u", "map_u"):
        me = [u for u in prog["utypes"] if u["var"] == a][0]
        others = [u["var"] for u in prog["utypes"] if u["var"] != a and u["name"] == me["name"]]
        others += [u["var"] for u in prog["utypes"] if u["var"] != a and u["name"] != me["name"]][:1]
        wrap = {"u": "%s()", "arr_u": "[%s()]", "map_u": "{'k': %s()}"}[k]
        return [(wrap % a, NOJSON)], [(wrap % o, NOJSON) for o in others] + [("3", 3)]
    if k == "enum":
        me = [e for e in prog["enums"] if e["var"] == a][0]
        others = [e for e in prog["enums"] if e["var"] != a]
        good = [("%s.%s" % (a, m), m) for m in me["members"][:2]]
        bad = [("%s.%s" % (o["var"], o["members"][0]), o["members"][0]) for o in others[:2]] + [("'zz'", "zz")]
        return good, bad
    if k == "pos_ref":
        # positional items: one instance of each listed class, in order
        if depth > 2:
            return [], [("3", 3)]
        insts, docs = [], []
        for v in a.split(","):
            kw, doc = base_kwargs(prog, v, depth + 1)
            insts.append("%s(**%s)" % (v, kw_src(kw)))
            docs.append(doc)
        d = NOJSON if any(x == NOJSON for x in docs) else docs
        return [("[%s]" % ", ".join(insts), d)], [("[3]", [3]), ("3", 3)]
    if k == "map_ref":
        if depth > 2:
            return [], [("3", 3)]
        kw, doc = base_kwargs(prog, a, depth + 1)
        inst = "%s(**%s)" % (a, kw_src(kw))
        return [("{'k': %s}" % inst, NOJSON if doc == NOJSON else {"k": doc})], [("{'k': 3}", {"k": 3}), ("3", 3)]
    if k in ("ref", "arr_ref"):
        if depth > 2:
            return [], [("3", 3)]
        kw, doc = base_kwargs(prog, a, depth + 1)
        inst = "%s(**%s)" % (a, kw_src(kw))
        # values of OTHER typedpy classes are deliberately not used as probes: building them would
        # define those classes, and the class under test would no longer be alone
        bad = [("%s()" % u["var"], NOJSON) for u in prog["utypes"][:1]]
        if k == "ref":
            return [(inst, doc)], bad + [("3", 3)]
        return [("[%s]" % inst, [doc] if doc != NOJSON else NOJSON)], \
               [("[%s]" % b, [d] if d != NOJSON else NOJSON) for b, d in bad] + [("[3]", [3])]
    raise ValueError(t)


def kw_src(kw):
    return "{" + ", ".join("%r: %s" % (k, v) for k, v in kw) + "}"


def base_kwargs(prog, var, depth=0):
    """([(fname, expr)], json doc) with the first valid-ish value of every expected field."""
    kw, doc = [], {}
    for n, t in effective_fields(prog, var):
        good, _ = values(prog, t, depth)
        if not good:
            continue
        kw.append((n, good[0][0]))
        if doc is not NOJSON:
            if good[0][1] == NOJSON:
                doc = NOJSON
            else:
                doc[n] = good[0][1]
    return kw, doc


def probes(prog, var, limit=26):
    """Deterministic probe set of a class: list of {"kw": [(fname, expr)], "doc": json|NOJSON, "why": str}."""
    fields = effective_fields(prog, var)
    bkw, bdoc = base_kwargs(prog, var)
    out = [{"kw": bkw, "doc": bdoc, "why": "base"}]

    def variant(n, e, d, why):
        kw = [(k, (e if k == n else v)) for k, v in bkw]
        if n not in [k for k, _ in bkw]:
            kw.append((n, e))
        if bdoc == NOJSON or d == NOJSON:
            # still give the deserializer a document when only this field is opaque
            doc = NOJSON
        else:
            doc = dict(bdoc)
            doc[n] = d
        out.append({"kw": kw, "doc": doc, "why": why})

    for n, t in fields:
        good, bad = values(prog, t)
        for e, d in good[1:2]:
            variant(n, e, d, "alt:" + n)
        for e, d in bad[:2]:
            variant(n, e, d, "bad:" + n)
    for n, t in fields:
        kw = [(k, v) for k, v in bkw if k != n]
        doc = NOJSON if bdoc == NOJSON else {k: v for k, v in bdoc.items() if k != n}
        out.append({"kw": kw, "doc": doc, "why": "missing:" + n})
    out.append({"kw": bkw + [("zz_extra", "1")], "doc": NOJSON if bdoc == NOJSON else dict(bdoc, zz_extra=1),
                "why": "extra"})
    for n, t in fields[:3]:
        variant(n, "None", None, "none:" + n)
    if bdoc != NOJSON:
        out.append({"kw": bkw, "doc": [1], "why": "nondict"})
        out.append({"kw": bkw, "doc": {camel(k): v for k, v in bdoc.items()}, "why": "camel-doc"})
    return out[:limit]


def camel(k):
    w = k.split("_")
    return w[0] + "".join(x.title() for x in w[1:])


# --------------------------------------------------------------------------------- source

PRELUDE = """from typing import Optional
import enum
from typedpy import (Structure, ImmutableStructure, Field, Integer, String, Boolean, Float, Array, Set, Map,
    AnyOf, Enum, StructureReference, FastSerializable, mappers, Partial, Omit, Pick, Extend, AllFieldsRequired,
    Serializer, Deserializer, serialize, structure_to_schema, create_serializer, TypedPyDefaults)
def mk_small() -> Field:
    return Integer(minimum=0, maximum=9)
def mk_big() -> Field:
    return Integer(minimum=10, maximum=99)
"""


def prelude_src(prog):
    s = PRELUDE
    for u in prog["utypes"]:
        s += "%s = type(%r, (), {'tag': %d, '__repr__': lambda self: '<%s#%d>'})\n" % (
            u["var"], u["name"], u["tag"], u["name"], u["tag"])
    for e in prog["enums"]:
        s += "%s = enum.Enum(%r, %r)\n" % (e["var"], e["name"], e["members"])
    return s


def class_src(prog, var):
    c = class_by_var(prog)[var]
    k, name, o = c["kind"], c["name"], c.get("opts", {})
    body = []
    if o.get("additional") is not None:
        body.append("_additional_properties = %r" % o["additional"])
    if o.get("ignore_none"):
        body.append("_ignore_none = True")
    if o.get("mapper") == "camel":
        body.append("_serialization_mapper = mappers.TO_CAMELCASE")
    elif isinstance(o.get("mapper"), dict):
        body.append("_serialization_mapper = %r" % o["mapper"])
    if o.get("optional"):
        body.append("_optional = %r" % o["optional"])
    for f in c.get("fields", []):
        line = "%s: %s" % (f[0], ftype_src(f[1]))
        if len(f) > 2 and f[2] is not None:
            line += " = %s" % f[2]
        body.append(line)
    if not body:
        body = ["pass"]
    if k == "factory":
        # classes produced by ONE class-factory function: same name, different parameter
        src = "def _make_%s(n):\n    class %s(Structure):\n" % (var, name)
        src += "".join("        %s\n" % b for b in body)
        src += "        lim: Integer(maximum=n)\n    return %s\n%s = _make_%s(%d)\n" % (name, var, var, o.get("n", 5))
        return src
    if k in ("struct", "immutable", "fast"):
        base = c.get("base") or {"struct": "Structure", "immutable": "ImmutableStructure",
                                 "fast": "Structure, FastSerializable"}[k]
        if c.get("base") and k == "fast":
            base += ", FastSerializable"
    else:
        of = c["of"]
        base = {"partial": "Partial[%s]" % of, "allreq": "AllFieldsRequired[%s]" % of, "extend": "Extend[%s]" % of,
                "omit": "Omit[%s, %r]" % (of, list(c.get("names", []))),
                "pick": "Pick[%s, %r]" % (of, list(c.get("names", [])))}[k]
        if c.get("direct"):
            b2 = base[:-1] + ", %r]" % name
            return "%s = %s\n" % (var, b2)
    return "class %s(%s):\n%s%s = %s\n" % (name, base, "".join("    %s\n" % b for b in body), var, name)


def program_src(prog, events=None):
    """Stand-alone readable Python rendering of a history (for replay files)."""
    s = prelude_src(prog)
    for ev in events or []:
        s += "# event %r\n" % (ev,)
        if ev[0] == "define":
            s += class_src(prog, ev[1])
    return s


# --------------------------------------------------------------------------------- running (typedpy side)

def canon(v, depth=0):
    import enum
    import collections
    if depth > 12:
        return "<deep>"
    if v is None or isinstance(v, (bool, int, str)):
        # strings are compared as they are (only object ids are stripped): a string that shows the
        # StructureReference counter IS a history-dependent behaviour
        return v if not isinstance(v, str) else re.sub(r"0x[0-9a-f]+", "0x", v)
    if isinstance(v, float):
        return ["float", repr(v)]
    if isinstance(v, enum.Enum):
        return ["enum", type(v).__name__, v.name]
    st = _structure_type()
    if isinstance(v, st):
        names = list(type(v).get_all_fields_by_name())
        d = {k: x for k, x in v.__dict__.items() if k not in ("_instantiated", "_none_fields", "_trust_supplied_values")}
        for n in names:
            if n not in d:
                try:
                    x = getattr(v, n)
                except Exception as e:  # noqa
                    x = "<getattr raised %s>" % type(e).__name__
                if x is not None:
                    d[n] = x
        return ["struct", _norm(type(v).__name__), sorted([[k, canon(x, depth + 1)] for k, x in d.items()], key=lambda p: p[0])]
    if isinstance(v, dict):
        # dicts are compared as == does: without order
        return ["dict", sorted(([canon(k, depth + 1), canon(x, depth + 1)] for k, x in v.items()),
                               key=lambda p: json.dumps(p, sort_keys=True, default=str))]
    if isinstance(v, (list, tuple, collections.deque)):
        return ["list" if isinstance(v, list) else type(v).__name__, [canon(x, depth + 1) for x in v]]
    if isinstance(v, (set, frozenset)):
        return ["set", sorted((canon(x, depth + 1) for x in v), key=lambda x: json.dumps(x, sort_keys=True, default=str))]
    if hasattr(type(v), "tag"):
        return ["obj", type(v).__name__, type(v).tag]
    return ["other", type(v).__name__]


_ST = []


def _norm(s):
    """The generated NAME of an inline StructureReference class (type(x).__name__, which this harness
    itself puts into the canonical form of an instance) is not behaviour (C15_counter_hidden)."""
    return re.sub(r"StructureReference_\d+", "StructureReference_#", re.sub(r"0x[0-9a-f]+", "0x", s))


def _structure_type():
    if not _ST:
        from typedpy import Structure
        _ST.append(Structure)
    return _ST[0]


def outcome(thunk):
    try:
        return ["ok", canon(thunk())]
    except (TypeError, ValueError):
        return ["rejected"]
    except Exception as e:  # noqa
        return ["raise", type(e).__name__]


class UnknownEvent(Exception):
    pass


class Run:
    def __init__(self, prog, patch=()):
        self.prog = prog
        self.patch = tuple(patch or ())
        self.ns = {}
        exec(prelude_src(prog), self.ns)
        if "keep_required" in self.patch:
            # counterfactual used only to ATTRIBUTE a difference: structure_to_schema is wrapped so that
            # the `_required` lists of the defined classes are put back after every call
            real = self.ns["structure_to_schema"]

            def wrapped(*a, **k):
                saved = [(c, list(c.__dict__["_required"])) for c in self._user_classes()
                         if isinstance(c.__dict__.get("_required"), list)]
                try:
                    return real(*a, **k)
                finally:
                    for c, req in saved:
                        c.__dict__["_required"][:] = req
            self.ns["structure_to_schema"] = wrapped
        self.defined = []
        self.saved = {}
        self._probes = {}

    def _user_classes(self):
        out = []
        for v in self.defined:
            c = self.ns.get(v)
            if isinstance(c, type):
                out.extend(k for k in c.__mro__ if k is not object)   # Omit/Pick/... classes live in typedpy's module
        return out

    def probes(self, var):
        if var not in self._probes:
            self._probes[var] = probes(self.prog, var)
        return self._probes[var]

    def define(self, var):
        if var in self.defined:
            return
        for d in deps(self.prog, var):
            if d not in self.defined:
                self.define(d)
        self.defined.append(var)
        try:
            exec(class_src(self.prog, var), self.ns)
        except Exception as e:  # noqa
            self.ns[var] = None
            self.ns["_deferr_" + var] = type(e).__name__

    def cls(self, var):
        self.define(var)
        return self.ns[var]

    def kwargs(self, p):
        return {k: eval(e, self.ns) for k, e in p["kw"]}

    def instance(self, var, i):
        ps = self.probes(var)
        return self.cls(var)(**self.kwargs(ps[i % len(ps)]))

    def ser(self, x, mode):
        ns = self.ns
        if mode == "plain":
            return ns["serialize"](x)
        if mode == "compact":
            return ns["serialize"](x, compact=True)
        if mode == "camel":
            return ns["serialize"](x, camel_case_convert=True)
        if mode == "serializer":
            return ns["Serializer"](x).serialize()
        if mode == "fn_compact_default":
            return ns["Serializer"](x).serialize(compact=False)
        raise ValueError(mode)

    def deser(self, C, doc, mode):
        ns = self.ns
        import copy
        doc = copy.deepcopy(doc)
        if mode == "plain":
            return ns["Deserializer"](C).deserialize(doc)
        if mode == "camel":
            return ns["Deserializer"](C, camel_case_convert=True).deserialize(doc)
        if mode == "keep_undefined":
            return ns["Deserializer"](C).deserialize(doc, keep_undefined=True)
        if mode == "trusted":
            return ns["Deserializer"](C).deserialize(doc, direct_trusted_mapping=True)
        raise ValueError(mode)

    def set_default(self, key, value):
        ns = self.ns
        if key == "fail_fast":
            if key not in self.saved:
                self.saved[key] = ns["Structure"].failing_fast()
            ns["Structure"].set_fail_fast(value)
            return
        D = ns["TypedPyDefaults"]
        if key not in self.saved:
            self.saved[key] = getattr(D, key)
        setattr(D, key, value)

    def restore(self, key):
        if key in self.saved:
            self.set_default(key, self.saved.pop(key))
            self.saved.pop(key, None)

    def event(self, ev):
        k = ev[0]
        if k not in ("setdefault", "restore"):
            self.define(ev[1])          # every event on a class defines it (and what it needs) first
        try:
            if k == "define":
                self.define(ev[1])
            elif k == "construct":
                self.instance(ev[1], ev[2])
            elif k == "ser":
                self.ser(self.instance(ev[1], ev[2]), ev[3])
            elif k == "deser":
                ps = self.probes(ev[1])
                doc = ps[ev[2] % len(ps)]["doc"]
                if doc != NOJSON:
                    self.deser(self.cls(ev[1]), doc, ev[3])
            elif k == "trusted":
                ps = self.probes(ev[1])
                doc = ps[ev[2] % len(ps)]["doc"]
                if doc != NOJSON:
                    self.deser(self.cls(ev[1]), doc, "trusted")
            elif k == "schema":
                self.ns["structure_to_schema"](self.cls(ev[1]), {})
            elif k == "create_serializer":
                self.ns["create_serializer"](self.cls(ev[1]), compact=ev[2], serialize_none=ev[3])
            elif k == "probe":
                self.fingerprint(ev[1])
            elif k == "setdefault":
                self.set_default(ev[1], ev[2])
            elif k == "restore":
                self.restore(ev[1])
            else:
                raise UnknownEvent("unknown event %r" % (ev,))
        except UnknownEvent:
            raise
        except Exception:  # noqa: a use that fails is still a use
            pass

    def resolved(self, C, depth=0):
        """For every implicit-wrapper field of the class (and of the classes it refers to): which user
        class the wrapper checks against (its tag).  This is what the model's class entry holds."""
        out = []

        def walk(f, d):
            if f is None or d > 4:
                return []
            ty = getattr(f, "_ty", None)
            if type(f).__name__.startswith("Field_") and isinstance(ty, type):
                return [getattr(ty, "tag", type(ty).__name__)]
            if isinstance(ty, type) and isinstance(ty, type(self.ns["Structure"])) and depth < 3:
                return [self.resolved(ty, depth + 1)]
            r = []
            items = getattr(f, "items", None)
            for x in (items if isinstance(items, (list, tuple)) else [items]):
                if x is not None and not isinstance(x, type):
                    r += walk(x, d + 1)
            for x in getattr(f, "_fields", None) or []:
                if not isinstance(x, type):
                    r += walk(x, d + 1)
            return r
        try:
            fields = C.get_all_fields_by_name()
        except Exception:  # noqa
            return ["<no fields>"]
        for n in sorted(fields):
            w = walk(fields[n], 0)
            if w:
                out.append([n, w])
        return out

    def fingerprint(self, var):
        C = self.cls(var)
        if C is None:
            return {"define": [["raise", self.ns.get("_deferr_" + var)]]}
        fp = {"define": [["ok"]], "resolved": [outcome(lambda: self.resolved(C))], "construct": [], "ser": [],
              "deser": [], "trusted": [], "schema": [], "str": []}
        ps = self.probes(var)
        insts = []
        for i, p in enumerate(ps):
            try:
                kw = self.kwargs(p)
            except Exception as e:  # noqa  (a probe value that cannot even be built, e.g. a referenced class failed)
                fp["construct"].append(["probe-unbuildable", type(e).__name__])
                insts.append(None)
                continue
            try:
                x = C(**kw)
                fp["construct"].append(["ok", canon(x)])
                insts.append(x)
            except (TypeError, ValueError):
                fp["construct"].append(["rejected"])
                insts.append(None)
            except Exception as e:  # noqa
                fp["construct"].append(["raise", type(e).__name__])
                insts.append(None)
        for i, x in enumerate(insts):
            if x is None:
                fp["ser"].append(None)
                continue
            fp["ser"].append([outcome(lambda m=m: self.ser(x, m)) for m in SER_MODES])
        for i, p in enumerate(ps):
            if p["doc"] == NOJSON:
                fp["deser"].append(None)
                fp["trusted"].append(None)
                continue
            fp["deser"].append([outcome(lambda m=m: self.deser(C, p["doc"], m)) for m in DESER_MODES])
            # trusted deserialization is only specified on valid documents: probe it on the base/alt docs
            if p["why"] == "base" or p["why"].startswith("alt:"):
                fp["trusted"].append(outcome(lambda: self.deser(C, p["doc"], "trusted")))
            else:
                fp["trusted"].append(None)
        fp["schema"].append(outcome(lambda: list(self.ns["structure_to_schema"](C, {}))))
        fp["str"].append(outcome(lambda: str(C)))
        return fp


def run_job(job):
    r = Run(job["prog"], job.get("patch"))
    for ev in job["events"]:
        r.event(ev)
    for k in list(r.saved):
        r.restore(k)
    out, aux = {}, {}
    for var in job["targets"]:
        out[var] = r.fingerprint(var)
        # not part of the class' behaviour: the class objects of the whole statement (what the model's
        # [beh] ranges over), used only to compare the model's verdict with the implementation
        aux[var] = [[d, outcome(lambda d=d: r.resolved(r.ns[d]))] for d in deps(job["prog"], var)]
    return out, aux


def _job_entry(job):
    try:
        fp, aux = run_job(job)
        return {"id": job.get("id"), "fp": fp, "aux": aux}
    except Exception as e:  # noqa
        import traceback
        return {"id": job.get("id"), "error": traceback.format_exc()[-1500:]}


def main(argv):
    if argv and argv[0] == "--one":
        job = json.load(sys.stdin)
        json.dump(_job_entry(job), sys.stdout)
        return 0
    jobs = json.load(open(argv[0]))
    nproc = int(argv[2]) if len(argv) > 2 else 8
    import typedpy  # noqa: imported, never used in this (parent) process
    import typedpy.serialization.serialization  # noqa
    import typedpy.json_schema.json_schema_mapping  # noqa
    import multiprocessing as mp
    ctx = mp.get_context("fork")
    with ctx.Pool(nproc, maxtasksperchild=1) as pool:
        res = list(pool.imap(_job_entry, jobs, chunksize=1))
    with open(argv[1], "w") as f:
        json.dump(res, f)
    return 0


if __name__ == "__main__":
    sys.exit(main(sys.argv[1:]))
