import argparse
import importlib
import json
import os
import sys
import traceback

from harness import core


def main():
    ap = argparse.ArgumentParser()
    ap.add_argument("what")
    ap.add_argument("arg", nargs="?")
    ap.add_argument("--tier", default=os.environ.get("VERIF_TIER", "quick"))
    a = ap.parse_args()
    if a.what == "setup":
        bad = core.grep_gate()
        if bad:
            print("gate failed:", *bad, sep="\n  ")
            return 2
        gen_all()
        ok, log, failed = core.build(None, timeout=3000)
        print(log[-3000:])
        print("setup:", "ok" if ok else "FAILED at %s" % failed)
        return 0 if ok else 2
    if a.what == "replay":
        obj = json.load(open(a.arg))
        mod = importlib.import_module("harness.props." + obj["property"].lower())
        return mod.replay(obj)
    pid = a.what.upper()
    tier = a.tier if a.tier in ("quick", "thorough") else "quick"
    mod = importlib.import_module("harness.props." + pid.lower())
    rep = core.Report(pid, tier)
    try:
        gen_all()
        rc = mod.run(rep, tier)
    except Exception:  # the check itself failed: never report that as a pass
        traceback.print_exc()
        rep.broken("harness-crash", traceback.format_exc())
        return rep.finish() or 1
    if rc == 0 and tier == "quick" and not os.environ.get("VERIF_NO_ESCALATE"):
        rc = escalate(pid)
    return rc


def escalate(pid):
    """The source differs from the tree the checks were last shown to pass on and the first pass found
    nothing: widen the search by re-running the quick tier under further seeds of the single PRNG, within a
    time budget.  This only ever ADDS explored inputs; a run that finds nothing still exits 0."""
    import subprocess
    import time
    changed = core.changed_sources()
    if not changed:
        return 0
    budget = float(os.environ.get("VERIF_ESCALATE_BUDGET", "200"))
    extra = int(os.environ.get("VERIF_ESCALATE_SEEDS", "6"))
    print("[%s] source differs from the recorded baseline in %s: widening the search (up to %d further seeds, %.0f s)"
          % (pid, ", ".join(changed[:4]) + (" ..." if len(changed) > 4 else ""), extra, budget))
    sys.stdout.flush()
    t0 = time.time()
    s0 = core.seed()
    for k in range(1, extra + 1):
        if time.time() - t0 > budget:
            break
        env = dict(os.environ, VERIF_SEED=str(s0 + 1000 * k), VERIF_NO_ESCALATE="1")
        p = subprocess.run([sys.executable, "-m", "harness.main", pid, "--tier", "quick"], env=env,
                           cwd=core.VERIF, capture_output=True, text=True)
        out = [l for l in (p.stdout + p.stderr).split("\n") if l.startswith(("VIOLATION", "[" + pid))]
        print("\n".join(out))
        sys.stdout.flush()
        if p.returncode != 0:
            return p.returncode
    return 0


def gen_all():
    """Regenerate the generated Coq layer (Gen/*.v) from /repo's working tree."""
    try:
        from harness import gen
    except ImportError:
        return
    gen.regenerate()


if __name__ == "__main__":
    sys.exit(main())
