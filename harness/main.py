import argparse
import importlib
import json
import os
import sys
import traceback

from harness import core


def main():
    ap = argparse.ArgumentParser()
    ap.add_argument("what")
    ap.add_argument("arg", nargs="?")
    ap.add_argument("--tier", default=os.environ.get("VERIF_TIER", "quick"))
    a = ap.parse_args()
    if a.what == "setup":
        bad = core.grep_gate()
        if bad:
            print("gate failed:", *bad, sep="\n  ")
            return 2
        gen_all()
        ok, log, failed = core.build(None, timeout=3000)
        print(log[-3000:])
        print("setup:", "ok" if ok else "FAILED at %s" % failed)
        return 0 if ok else 2
    if a.what == "replay":
        obj = json.load(open(a.arg))
        mod = importlib.import_module("harness.props." + obj["property"].lower())
        return mod.replay(obj)
    pid = a.what.upper()
    tier = a.tier if a.tier in ("quick", "thorough") else "quick"
    mod = importlib.import_module("harness.props." + pid.lower())
    rep = core.Report(pid, tier)
    try:
        gen_all()
        return mod.run(rep, tier)
    except Exception:  # the check itself failed: never report that as a pass
        traceback.print_exc()
        rep.broken("harness-crash", traceback.format_exc())
        return rep.finish() or 1


def gen_all():
    """Regenerate the generated Coq layer (Gen/*.v) from /repo's working tree."""
    try:
        from harness import gen
    except ImportError:
        return
    gen.regenerate()


if __name__ == "__main__":
    sys.exit(main())
