"""Helpers private to the C03 check: the argument language of wrapper-mutator calls beyond plain reified
values (slices, one-shot / failing iterators, key functions, keyword arguments), rendering of such calls as
Python source, and the "equal but differently typed" value transformer.

Special argument forms (JSON-able, tag starts with "x:" so that it cannot collide with a reified value):
  ["x:slice", lo, hi, step]      slice(lo, hi, step)  (None allowed)
  ["x:iter", [items]]            a one-shot generator over the reified items
  ["x:failiter", [items]]        a generator that yields the items and then raises ValueError
  ["x:keyseq", [keys]]           a key function that returns the reified keys in call order (list.sort computes
                                 the keys of the elements in index order, so the i-th element gets the i-th key)
"""
import decimal

from harness import coqemit as E
from harness import fieldgen as G


def is_special(a):
    return isinstance(a, (list, tuple)) and len(a) > 0 and isinstance(a[0], str) and a[0].startswith("x:")


def realize(a, classes):
    """One argument -> a fresh Python object (iterators and key functions are single use)."""
    if not is_special(a):
        return G.unreify(a, classes)
    t = a[0]
    if t == "x:slice":
        return slice(a[1], a[2], a[3])
    if t == "x:iter":
        items = [G.unreify(x, classes) for x in a[1]]
        return (x for x in items)
    if t == "x:failiter":
        items = [G.unreify(x, classes) for x in a[1]]

        def gen():
            for x in items:
                yield x
            raise ValueError("the caller's iterator failed")
        return gen()
    if t == "x:keyseq":
        keys = [G.unreify(x, classes) for x in a[1]]
        it = iter(keys)

        def key(_elem):
            return next(it, 0)
        return key
    raise ValueError(a)


def realize_call(op, classes):
    """(args, kwargs) for a call op; fresh objects on every call."""
    args = [realize(a, classes) for a in op.get("args", [])]
    kwargs = {k: realize(v, classes) for k, v in (op.get("kwargs") or {}).items()}
    return args, kwargs


def src(a):
    if not is_special(a):
        return G.py_src(a)
    t = a[0]
    if t == "x:slice":
        return "slice(%r, %r, %r)" % (a[1], a[2], a[3])
    if t == "x:iter":
        return "iter([%s])" % ", ".join(G.py_src(x) for x in a[1])
    if t == "x:failiter":
        return "failing_iter([%s])" % ", ".join(G.py_src(x) for x in a[1])
    if t == "x:keyseq":
        return "key_sequence([%s])" % ", ".join(G.py_src(x) for x in a[1])
    raise ValueError(a)


PRELUDE = '''
def failing_iter(items):
    for v in items:
        yield v
    raise ValueError("the caller's iterator failed")

def key_sequence(keys):
    it = iter(keys)
    return lambda _elem: next(it, 0)
'''


def call_args_src(op):
    parts = [src(a) for a in op.get("args", [])]
    parts += ["%s=%s" % (k, src(v)) for k, v in (op.get("kwargs") or {}).items()]
    return ", ".join(parts)


def needs_prelude(ops):
    for op in ops:
        for a in list(op.get("args", [])) + list((op.get("kwargs") or {}).values()):
            if is_special(a) and a[0] in ("x:failiter", "x:keyseq"):
                return True
    return False


def map_values(a, fn):
    """Applies fn to every reified value inside an argument (special forms are traversed)."""
    if not is_special(a):
        return fn(a)
    if a[0] in ("x:iter", "x:failiter", "x:keyseq"):
        return [a[0], [fn(x) for x in a[1]]]
    return a


def arg_shape(a):
    """Coarse shape of an argument, for distinct counting."""
    if is_special(a):
        return a[0]
    return a[0]


# ------------------------------------------------------------------ equal-but-differently-typed values

def _num_alternatives(r):
    """Reified numbers/bools that compare == to r in Python but are of another type."""
    x = G.unreify(r)
    cands = []
    try:
        if x == int(x):
            cands.append(int(x))
            if int(x) in (0, 1):
                cands.append(bool(int(x)))
    except (ValueError, OverflowError, decimal.InvalidOperation):
        pass
    try:
        fx = float(x)
        if fx == x:
            cands.append(fx)
    except (ValueError, OverflowError, decimal.InvalidOperation):
        pass
    try:
        dx = decimal.Decimal(x) if not isinstance(x, bool) else decimal.Decimal(int(x))
        if dx == x:
            cands.append(dx)
    except (ValueError, OverflowError, TypeError, decimal.InvalidOperation):
        pass
    out = []
    for c in cands:
        rc = E.reify(c)
        if rc == tuple(r) or rc[0] == "other" or not (c == x) or rc in out:
            continue
        # the reified form must denote exactly this value again (a Decimal with more digits than the context
        # precision does not survive unreify: Decimal(1e300))
        try:
            back = G.unreify(rc)
        except Exception:  # noqa
            continue
        if type(back) is type(c) and back == c and E.reify(back) == rc:
            out.append(rc)
    return out


def lookalikes(r, limit=64):
    """All values obtained from the reified value r by replacing ONE numeric/bool leaf (dict keys included) by a
    value of another type that Python's == cannot tell from it, or by turning a set into a frozenset (and back).
    Every result v satisfies unreify(v) == unreify(r) and reify differs.  Structures are not entered."""
    r = tuple(r)
    t = r[0]
    out = []
    if t in ("bool", "int", "flt", "dec"):
        return _num_alternatives(r)[:limit]
    if t in ("list", "tuple", "deque"):
        items = list(r[1])
        for i, x in enumerate(items):
            for y in lookalikes(x, limit):
                out.append((t, items[:i] + [y] + items[i + 1:]))
                if len(out) >= limit:
                    return out
        return out
    if t == "set":
        items = list(r[2])
        out.append(("set", not r[1], items))
        for i, x in enumerate(items):
            for y in lookalikes(x, limit):
                out.append(("set", r[1], sorted(items[:i] + [y] + items[i + 1:], key=E.canon_key)))
                if len(out) >= limit:
                    return out
        return out
    if t == "dict":
        pairs = [tuple(p) for p in r[1]]
        for i, (k, v) in enumerate(pairs):
            for y in lookalikes(v, limit):
                out.append(("dict", pairs[:i] + [(k, y)] + pairs[i + 1:]))
            for y in lookalikes(k, limit):
                if G.is_hashable(y):
                    out.append(("dict", pairs[:i] + [(y, v)] + pairs[i + 1:]))
            if len(out) >= limit:
                return out[:limit]
        return out
    return out


def lookalike(rnd, r):
    c = lookalikes(r, 24)
    return rnd.choice(c) if c else None


def has_nonfinite(a):
    """Does the argument (reified value or special form) contain a NaN / infinity?"""
    if is_special(a):
        if a[0] in ("x:iter", "x:failiter", "x:keyseq"):
            return any(has_nonfinite(x) for x in a[1])
        return False
    t = a[0]
    if t == "other":
        return a[1] in ("float", "Decimal")
    if t in ("list", "tuple", "deque"):
        return any(has_nonfinite(x) for x in a[1])
    if t == "set":
        return any(has_nonfinite(x) for x in a[2])
    if t == "dict":
        return any(has_nonfinite(k) or has_nonfinite(v) for k, v in a[1])
    if t == "struct":
        return any(has_nonfinite(v) for _, v in a[2])
    return False


def op_has_nonfinite(op):
    vals = list(op.get("args", [])) + list((op.get("kwargs") or {}).values())
    if "value" in op:
        vals.append(op["value"])
    return any(has_nonfinite(v) for v in vals)
