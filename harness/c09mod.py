"""C09 -- the module-level entry points: schema_definitions_to_code and write_code_from_schema.

A *module case* is (class name, main schema, definitions) where definitions refer to each other and the
main schema refers to definitions from every position a sub-schema can sit in (directly as a property,
items as schema, positional items list, allOf/anyOf/oneOf/not lists, map values, nested objects, and
two-level combinations).  Streams:
  * lattice : every (reference position) x (holder = main class | a definition) x (with/without an
              unreferenced spare definition), the referenced definition being referred to from that one
              place only -- enumerated deterministically on every run;
  * random  : seeded modules (0-4 definitions forming a DAG, declared in dependency order, shuffled, or
              recursive), payload strings from the C09 alphabet (incl. non-ASCII).
Spec clauses evaluated on the implementation alone: write_code_from_schema writes a file that compiles
and executes; the main class and every definition it reaches are Structure classes of the module;
schema_definitions_to_code yields a class for EVERY definition; structure_to_schema of the main class
returns the schema and the reached definitions; the module and the two string-returning entry points
agree.  Correspondence (inside Coq, Check/C09chk.v): the file's text against render(module_toks) under the
GENERATED layout, and CPython's NameError (which name) against the model's first_unbound."""
import ast
import copy
import json
import os
import warnings

from harness import coqemit as E

REF = "#/definitions/"

POSITIONS = ["direct", "items", "tuple", "tuple-first", "anyOf", "oneOf", "allOf", "not-list", "map", "nested",
             "array-of-anyOf", "anyOf-of-array", "nested-tuple", "map-of-array"]
# positions a draft-4 validator understands ('not' as a LIST is typedpy's own dialect)
DOC_POSITIONS = [p for p in POSITIONS if p != "not-list"]

DEF_NAMES = ["Address", "Point", "Item", "Node", "Leaf", "Mid", "Tag", "Def0", "Def1", "B", "A"]


def refd(name):
    return {"$ref": REF + name}


def ref_at(pos, name):
    """A property schema that mentions definition `name` at position `pos` (and nowhere else)."""
    r = refd(name)
    if pos == "direct":
        return r
    if pos == "items":
        return {"type": "array", "items": r}
    if pos == "tuple":
        return {"type": "array", "items": [{"type": "string"}, r], "additionalItems": False}
    if pos == "tuple-first":
        return {"type": "array", "items": [r, {"type": "integer"}], "additionalItems": False}
    if pos in ("anyOf", "oneOf"):
        return {pos: [r, {"type": "string"}]}
    if pos == "allOf":
        return {"allOf": [r]}
    if pos == "not-list":
        return {"not": [r]}
    if pos == "map":
        return {"type": "object", "additionalProperties": r}
    if pos == "nested":
        return {"type": "object", "properties": {"inner": r, "k": {"type": "integer"}}, "required": ["inner", "k"],
                "additionalProperties": True}
    if pos == "array-of-anyOf":
        return {"type": "array", "items": {"anyOf": [{"type": "integer"}, r]}}
    if pos == "anyOf-of-array":
        return {"anyOf": [{"type": "array", "items": r}, {"type": "integer"}]}
    if pos == "nested-tuple":
        return {"type": "object", "properties": {"pair": {"type": "array", "items": [{"type": "boolean"}, r],
                                                          "additionalItems": False},
                                                 "k": {"type": "integer"}},
                "required": ["pair", "k"], "additionalProperties": True}
    if pos == "map-of-array":
        return {"type": "object", "additionalProperties": {"type": "array", "items": r}}
    raise ValueError(pos)


def walk_refs(s, path=()):
    """(definition name, tuple of the JSON keys / 'list' markers above the $ref) in document order."""
    if isinstance(s, list):
        for x in s:
            yield from walk_refs(x, path + ("[]",))
    elif isinstance(s, dict):
        if isinstance(s.get("$ref"), str) and s["$ref"].startswith(REF):
            yield s["$ref"][len(REF):], path
        for k, v in s.items():
            if k in ("default", "enum", "required", "description", "pattern", "$ref"):
                continue
            if k == "properties" and isinstance(v, dict):
                for n, x in v.items():
                    yield from walk_refs(x, path + ("properties",))
            elif isinstance(v, (dict, list)):
                yield from walk_refs(v, path + (k,))


def refs_of(s):
    return [n for n, _ in walk_refs(s)]


def position_key(path):
    """Coarse, shape-level name of where a reference sits: its innermost container."""
    if not path or path == ("properties",):
        return "property"
    inner = [p for p in path if p != "properties"]
    if not inner:
        return "nested-property"
    if inner[-1] == "[]" and len(inner) >= 2:
        return inner[-2] + "-list"
    return inner[-1]


def reachable(main, defs):
    seen, todo = [], list(refs_of(main))
    while todo:
        n = todo.pop(0)
        if n in seen or n not in defs:
            continue
        seen.append(n)
        todo += refs_of(defs[n])
    return seen


def in_cycle(name, defs):
    seen, todo = set(), [r for r in refs_of(defs.get(name, {}))]
    while todo:
        n = todo.pop()
        if n == name:
            return True
        if n in seen or n not in defs:
            continue
        seen.add(n)
        todo += refs_of(defs[n])
    return False


def predict_name_error(main, defs):
    """Executing one class statement per definition IN DECLARATION ORDER, then the main class: the first name
    that is looked up before it is bound (None: none).  (The same function as first_unbound in the Coq model.)"""
    bound = set()
    for dn, d in defs.items():
        for r in refs_of(d):
            if r not in bound:
                return r
        bound.add(dn)
    for r in refs_of(main):
        if r not in bound:
            return r
    return None


# ------------------------------------------------------------------------------------ running the entry points

def run_module(name, schema, defs, path):
    """write_code_from_schema -> ("ok", text) | ("raise", exception class, message) | ("nofile",)"""
    from typedpy.json_schema.json_schema_mapping import write_code_from_schema
    try:
        os.remove(path)
    except OSError:
        pass
    try:
        write_code_from_schema(schema, defs, path, name)
    except Exception as e:  # noqa
        return ("raise", E.exn_name(e), str(e)[:200])
    try:
        with open(path, "rb") as f:
            raw = f.read()
    except OSError:
        return ("nofile",)
    try:
        return ("ok", raw.decode("utf-8"))
    except UnicodeDecodeError as e:
        return ("raise", "not-utf8", str(e)[:120])


def exec_module(text, path="<generated module>"):
    """-> ("ok", ns) | ("compile", msg) | ("nameerror", name, msg) | ("exec", class, msg)"""
    try:
        with warnings.catch_warnings():
            warnings.simplefilter("ignore")
            co = compile(text, path, "exec")
    except (SyntaxError, ValueError, UnicodeError) as e:
        return ("compile", "%s: %s" % (type(e).__name__, str(e)[:160]))
    ns = {"__name__": "c09_generated_module"}
    try:
        exec(co, ns)
    except NameError as e:
        return ("nameerror", getattr(e, "name", None) or str(e).split("'")[1], str(e)[:160])
    except Exception as e:  # noqa
        return ("exec", type(e).__name__, str(e)[:160])
    return ("ok", ns)


def class_names(text):
    try:
        with warnings.catch_warnings():
            warnings.simplefilter("ignore")
            tree = ast.parse(text)
    except (SyntaxError, ValueError):
        return None
    return [n.name for n in tree.body if isinstance(n, ast.ClassDef)]


def is_structure(obj):
    from typedpy import Structure
    return isinstance(obj, type) and issubclass(obj, Structure)


def back_of(ns, name):
    from typedpy.json_schema.json_schema_mapping import structure_to_schema
    try:
        sch, defs = structure_to_schema(ns[name], {})
        return ("ok", json.loads(json.dumps(sch)), json.loads(json.dumps(defs)))
    except Exception as e:  # noqa
        return ("raise", type(e).__name__, str(e)[:160])


# ------------------------------------------------------------------------------------ the clauses

def classify_name_error(missing, msg, inp, inp_defs, written, explained, where_tag):
    """Finding for a NameError on `missing` raised by generated code that contains class statements `written`."""
    predicted = predict_name_error(inp, inp_defs)
    if missing in inp_defs and missing not in written:
        where = sorted({position_key(p) for owner in [inp] + [inp_defs[w] for w in written if w in inp_defs]
                        for n, p in walk_refs(owner) if n == missing})
        return ("C09/%s/exec/definition-not-written/%s" % (where_tag, "+".join(where or ["?"])),
                "the generated code refers to definition %r (from: %s) but has no class statement for it: "
                "NameError at exec" % (missing, ", ".join(where)))
    if missing in inp_defs and predicted == missing and in_cycle(missing, inp_defs):
        return ("C09/module/exec/recursive-definition",
                "definition %r refers to itself (directly or through other definitions); a class statement looks "
                "the name up before it is bound: %s" % (missing, msg))
    if missing in inp_defs and predicted == missing:
        return ("C09/module/exec/forward-reference",
                "definition %r is declared after a definition that refers to it; classes are written in "
                "declaration order: %s" % (missing, msg))
    if explained:
        return None
    return ("C09/%s/exec/unexplained/NameError" % where_tag,
            "the generated code raises %s although, in the caller's declaration order, every class is declared "
            "before its first use" % msg)


def module_spec(P, name, sch, defs, probe_disc, path):
    """Evaluate the statement's clauses on one (schema, definitions) through the module-level entry points.
    P = harness.props.c09.  Returns (findings [(key, what)], outcome tag, text, ran) where ran is what the
    correspondence needs: None (not executed / other failure) | ("ok",) | ("nameerror", name)."""
    import re
    fails = []
    inp, inp_defs = copy.deepcopy(sch), copy.deepcopy(defs)
    # strings that their emission site gets wrong (known lexical findings): they explain a failure to compile
    explained = set()
    for owner in [inp] + list(inp_defs.values()):
        for site, s in P.schema_leaves(owner):
            in_dom = P.probe_in_domain(site, s) or (site in P.IDENT_SITES and s in P.KW_SET)
            if (P.is_hot(s) or s in P.KW_SET) and in_dom and P.probe_spec(site, s) is not None:
                trig = "keyword" if (site in P.IDENT_SITES and s in P.KW_SET) else P.trigger_of(s, site)
                fails.append(("C09/emit/%s/%s/%s" % (site, probe_disc.get(site, "?"), trig), P.probe_spec(site, s)))
                explained.add(site)
    reach = reachable(inp, inp_defs)

    def diff_back(b, tag):
        """main schema and reached definitions against what structure_to_schema returned"""
        want = P.norm_schema({k: v for k, v in inp.items() if k != "description"})
        got = P.norm_schema(b[1])
        diffs = []
        if want != got:
            P.top_diff(want, got, diffs)
        for dn in reach:
            d = inp_defs[dn]
            if d.get("type", "object") != "object" or "properties" not in d:
                if dn not in b[2] or P.norm_schema(d) != P.norm_schema(b[2][dn]):
                    diffs.append(("C09/module/back/non-object-definition",
                                  "definition %r = %r is generated as a class with a single property 'wrapped' and "
                                  "mapped back as %r" % (dn, d, b[2].get(dn))))
                continue
            if dn not in b[2]:
                diffs.append(("C09/%s/back/definition-missing" % tag,
                              "definition %r is reachable from the main schema but is not among the definitions "
                              "returned by structure_to_schema: %r" % (dn, sorted(b[2]))))
            elif P.norm_schema({k: v for k, v in d.items() if k != "description"}) != P.norm_schema(b[2][dn]):
                n0 = len(diffs)
                dd = {k: v for k, v in P.norm_schema(d).items() if k != "description"}
                P.top_diff(dd, P.norm_schema(b[2][dn]), diffs)
                if len(diffs) == n0:
                    diffs.append(("C09/%s/back/definition-differs" % tag,
                                  "definition %r = %r mapped back as %r" % (dn, d, b[2][dn])))
        # a string that a RAW site writes wrongly can swallow the text after it and still compile: every structural
        # difference of this schema then has that (reported) lexical root cause
        raw_broken = bool(explained & {"pattern", "default", "description"})
        for k, w in diffs:
            m = re.match(r"C09/back/\w+/(pattern|default|enum)/changed", k)
            if raw_broken or (m and (m.group(1) in explained or (m.group(1) == "default" and "default_container" in explained))):
                continue
            fails.append((k, w))

    def other_exec_failure(x, tag):
        if P.not_schema_symptom(x) and (P.has_not_schema(inp) or any(P.has_not_schema(d) for d in inp_defs.values())):
            fails.append(("C09/exec/not-schema", "a draft-4 'not' (schema valued) is generated as NotField(fields=<field>): "
                                                 "%s at exec: %s" % (x[1], x[2])))
        elif shadowed(inp_defs):
            fails.append(("C09/module/exec/definition-shadows-typedpy-name",
                          "definition(s) %s rebind a name the generated code uses as a typedpy field class: %s: %s"
                          % (shadowed(inp_defs), x[1], x[2])))
        elif not explained:
            fails.append(("C09/%s/exec/unexplained/%s" % (tag, x[1]), "the generated code raises %s at exec: %s" % (x[1], x[2])))

    # ---------------------------------------------------------------- write_code_from_schema
    def module_part():
        r = run_module(name, sch, defs, path)
        if sch != inp or defs != inp_defs:
            fails.append(("C09/mutates-input/module", "write_code_from_schema modified the caller's schema / definitions"))
        if r[0] == "nofile":
            fails.append(("C09/module/no-file", "write_code_from_schema returned without writing %s" % path))
            return "no-file", None, None, None
        if r[0] == "raise":
            def crash_shape(s):
                return "required" not in s and any(isinstance(p, dict) and "default" in p
                                                   for p in s.get("properties", {}).values())
            if r[1] == "TypeError" and (crash_shape(inp) or any(crash_shape(d) for d in inp_defs.values())):
                fails.append(("C09/crash/default-without-required", "generator raised TypeError: " + r[2]))
            else:
                fails.append(("C09/module/crash/" + r[1], "write_code_from_schema raised %s: %s" % (r[1], r[2])))
            return "generator-raised", None, None, None
        text = r[1]
        x = exec_module(text, path)
        if x[0] == "compile":
            if not explained:
                fails.append(("C09/module/compile/unexplained", "the written module does not compile: " + x[1]))
            return "no-compile", text, None, None
        if x[0] == "nameerror":
            f = classify_name_error(x[1], x[2], inp, inp_defs, class_names(text) or [], explained, "module")
            if f:
                fails.append(f)
            return "name-error", text, ("nameerror", x[1]), None
        if x[0] == "exec":
            other_exec_failure(x, "module")
            return "exec-raised", text, None, None
        ns = x[1]
        if not is_structure(ns.get(name)):
            fails.append(("C09/module/main-class-missing", "the module does not define Structure class %r" % name))
            return "no-main", text, ("ok",), None
        for dn in reach:
            if not is_structure(ns.get(dn)):
                fails.append(("C09/module/definition-class-missing",
                              "definition %r is reachable from the main schema but the module defines no Structure "
                              "class for it" % dn))
        if "description" not in explained:
            for cn, owner in [(name, inp)] + [(dn, inp_defs[dn]) for dn in reach]:
                if isinstance(owner.get("description"), str) and is_structure(ns.get(cn)):
                    doc = ns[cn].__doc__
                    if doc is None or doc.strip(" \n") != owner["description"].strip(" \n"):
                        fails.append(("C09/module/doc/unexplained",
                                      "docstring %r of class %s is not the description %r" % (doc, cn, owner["description"])))
        b = back_of(ns, name)
        if b[0] == "raise":
            if not explained:
                fails.append(("C09/module/back/raises/" + b[1], "structure_to_schema of the module's main class raised: " + b[2]))
            return "back-raised", text, ("ok",), None
        n0 = len(fails)
        diff_back(b, "module")
        return ("ok" if len(fails) == n0 else "differs"), text, ("ok",), b

    tag, text, ran, b = module_part()

    # ---------------------------------------------------------------- schema_definitions_to_code + schema_to_struct_code
    sd = string_entry_points(name, inp, inp_defs)
    if sd[0] == "raise":
        if tag != "generator-raised":
            fails.append(("C09/definitions/crash/" + sd[1], "schema_definitions_to_code / schema_to_struct_code raised %s "
                          "where write_code_from_schema did not" % sd[1]))
    elif sd[0] == "compile":
        if not explained:
            fails.append(("C09/definitions/compile/unexplained", "the generated definitions do not compile: " + sd[1]))
    elif sd[0] == "nameerror":
        f = classify_name_error(sd[1], "NameError: name %r is not defined" % sd[1], inp, inp_defs, sd[2], explained, "definitions")
        if f and f not in fails:
            fails.append(f)
    elif sd[0] == "exec":
        if tag != "exec-raised":
            other_exec_failure(sd, "definitions")
    else:
        ns2 = sd[1]
        for dn in inp_defs:
            if not is_structure(ns2.get(dn)):
                fails.append(("C09/definitions/class-missing",
                              "schema_definitions_to_code produced no Structure class for definition %r" % dn))
        b2 = back_of(ns2, name) if is_structure(ns2.get(name)) else ("raise", "no-class", "")
        if b is not None and b2[0] == "ok":
            if P.norm_schema(b2[1]) != P.norm_schema(b[1]) or \
                    {k: P.norm_schema(v) for k, v in b2[2].items()} != {k: P.norm_schema(v) for k, v in b[2].items()}:
                fails.append(("C09/module/entry-points-differ",
                              "the class written by write_code_from_schema maps back to %r / %r, the one built from "
                              "schema_definitions_to_code + schema_to_struct_code to %r / %r"
                              % (b[1], sorted(b[2]), b2[1], sorted(b2[2]))))
    seen, out = set(), []
    for f in fails:
        if f[0] not in seen:
            seen.add(f[0])
            out.append(f)
    return out, tag, text, ran


_TYPEDPY_NAMES = None


def shadowed(defs):
    global _TYPEDPY_NAMES
    if _TYPEDPY_NAMES is None:
        import typedpy
        _TYPEDPY_NAMES = set(getattr(typedpy, "__all__", None) or [n for n in dir(typedpy) if not n.startswith("_")])
    return sorted(n for n in defs if n in _TYPEDPY_NAMES)


def string_entry_points(name, sch, defs):
    """exec(schema_definitions_to_code(defs)); exec(schema_to_struct_code(name, sch, defs)) in one namespace"""
    from typedpy.json_schema.json_schema_mapping import schema_to_struct_code, schema_definitions_to_code
    try:
        dcode = schema_definitions_to_code(copy.deepcopy(defs))
        code = schema_to_struct_code(name, copy.deepcopy(sch), copy.deepcopy(defs))
    except Exception as e:  # noqa
        return ("raise", type(e).__name__)
    ns = {"__name__": "c09_generated_strings"}
    try:
        with warnings.catch_warnings():
            warnings.simplefilter("ignore")
            cos = [compile("from typedpy import *\n", "<prologue>", "exec"), compile(dcode, "<definitions>", "exec"),
                   compile(code, "<main>", "exec")]
    except (SyntaxError, ValueError, UnicodeError) as e:
        return ("compile", "%s: %s" % (type(e).__name__, str(e)[:160]))
    try:
        for co in cos:
            exec(co, ns)
    except NameError as e:
        return ("nameerror", getattr(e, "name", None) or str(e).split("'")[1],
                (class_names(dcode) or []) + (class_names(code) or []))
    except Exception as e:  # noqa
        return ("exec", type(e).__name__, str(e)[:160])
    return ("ok", ns)


# ------------------------------------------------------------------------------------ generators

def leaf_def(rnd, P, hotness):
    props = {}
    for n in rnd.sample(P.NAMES, rnd.randint(1, 2)):
        f = P.gen_field(rnd, 1, {}, hotness, False, prop=False)
        f.pop("default", None)
        props[n] = f
    d = {"type": "object", "properties": props, "required": sorted(props), "additionalProperties": True}
    if rnd.random() < 0.15:
        d["description"] = P.clean_json_str(P.gen_payload(rnd, hotness))
    return d


def lattice(P):
    """Deterministic: every position x holder x spare."""
    leaf = {"type": "object", "properties": {"n": {"type": "integer"}, "s": {"type": "string", "maxLength": 5}},
            "required": ["n"], "additionalProperties": True}
    spare = {"type": "object", "properties": {"q": {"type": "boolean"}}, "required": ["q"], "additionalProperties": True}
    out = []
    for pos in POSITIONS:
        for holder in ("main", "definition"):
            for with_spare in (False, True):
                defs = {}
                if with_spare:
                    defs["Spare"] = copy.deepcopy(spare)
                defs["Leaf"] = copy.deepcopy(leaf)
                if holder == "main":
                    props = {"id": {"type": "integer"}, "v": ref_at(pos, "Leaf")}
                else:
                    defs["Mid"] = {"type": "object", "properties": {"w": ref_at(pos, "Leaf"), "k": {"type": "string"}},
                                   "required": ["w", "k"], "additionalProperties": True}
                    props = {"id": {"type": "integer"}, "v": refd("Mid")}
                sch = {"type": "object", "properties": props, "required": ["id", "v"], "additionalProperties": True}
                out.append(("Lat", sch, defs, "lattice:%s:%s:%s" % (pos, holder, "spare" if with_spare else "nospare")))
    # payloads that every discipline carries, through the FILE (encoding of the written module)
    nonascii = {"type": "object", "description": "Größe – 中文 😀",
                "properties": {"e": {"enum": ["é", "中", "😀", "plain"]}, "d": {"type": "string", "default": "naïve"},
                               "p": {"type": "string", "pattern": "^[a-zé]+$"}, "v": refd("Leaf")},
                "required": ["e", "d", "p", "v"], "additionalProperties": True}
    out.append(("Lat", nonascii, {"Leaf": copy.deepcopy(leaf)}, "lattice:non-ascii-payloads"))
    out.append(("Lat", {"type": "object", "properties": {"id": {"type": "integer"}}, "required": ["id"],
                        "additionalProperties": True}, {}, "lattice:no-definitions"))
    out.append(("Lat", {"type": "object", "properties": {"id": {"type": "integer"}}, "required": ["id"],
                        "additionalProperties": True}, {"Spare": copy.deepcopy(spare)}, "lattice:only-unreferenced"))
    return out


def gen_module(rnd, P, hotness, ext):
    """-> (name, schema, definitions, shape tag)"""
    k = rnd.choice([0, 1, 1, 2, 2, 3, 3, 4])
    names = rnd.sample(DEF_NAMES, k)
    bodies = {}
    for i, dn in enumerate(names):
        d = leaf_def(rnd, P, hotness)
        if i > 0 and rnd.random() < 0.75:
            for _ in range(rnd.choice([1, 1, 2])):
                pn = rnd.choice(["link", "r1", "r2"])
                d["properties"][pn] = ref_at(rnd.choice(POSITIONS), rnd.choice(names[:i]))
            d["required"] = sorted(d["properties"])
        bodies[dn] = d
    order, shape = list(names), "ordered"
    r = rnd.random()
    if k >= 2 and r < 0.18:
        rnd.shuffle(order)
        shape = "shuffled"
    elif k >= 1 and r < 0.26:
        dn = rnd.choice(names)
        tgt = dn if (k == 1 or rnd.random() < 0.5) else rnd.choice([n for n in names if n != dn])
        bodies[dn]["properties"]["next"] = ref_at(rnd.choice(POSITIONS), tgt)       # optional: finite documents exist
        if tgt != dn:
            bodies[tgt]["properties"]["back"] = ref_at(rnd.choice(POSITIONS), dn)
        shape = "recursive"
    defs = {dn: bodies[dn] for dn in order}
    if ext and k and rnd.random() < 0.3:
        # a definition that is not an object
        dn = rnd.choice(["Code", "Level"])
        defs[dn] = rnd.choice([{"type": "string", "maxLength": 3}, {"enum": [1, 2, 3]}, {"type": "integer", "minimum": 0}])
        names = names + [dn]
        shape += "+non-object"
    if ext and k and rnd.random() < 0.12:
        dn = rnd.choice(["String", "Integer", "Array", "Map"])
        defs[dn] = leaf_def(rnd, P, 0.0)
        names = names + [dn]
        shape += "+shadow"
    pnames = rnd.sample(P.NAMES, rnd.randint(1, 3))
    props = {}
    for n in pnames:
        if names and rnd.random() < 0.6:
            props[n] = ref_at(rnd.choice(POSITIONS), rnd.choice(names))
        else:
            props[n] = P.gen_field(rnd, 0, {x: 1 for x in names}, hotness, ext, prop=True)
    sch = {"type": "object", "properties": props}
    if rnd.random() < 0.25:
        sch["description"] = P.clean_json_str(P.gen_payload(rnd, hotness))
    req = [n for n in pnames if "default" in props[n] or rnd.random() < 0.6]
    rnd.shuffle(req)
    sch["required"] = req
    if rnd.random() < 0.7:
        sch["additionalProperties"] = rnd.choice([True, True, False])
    if sch.get("additionalProperties") is False and len(pnames) == 1 and req == pnames:
        sch["additionalProperties"] = True
    return "Mod%d" % rnd.randint(0, 10 ** 6), sch, defs, shape


def module_python(name, sch, defs):
    return ("import os, tempfile\nfrom typedpy import *\nfrom typedpy.json_schema.json_schema_mapping import "
            "write_code_from_schema\nschema = %r\ndefinitions = %r\n"
            "fn = os.path.join(tempfile.mkdtemp(), 'generated.py')\n"
            "write_code_from_schema(schema, definitions, fn, %r)\nsrc = open(fn, encoding='utf-8').read()\nprint(src)\n"
            "ns = {}\nexec(compile(src, fn, 'exec'), ns)\nprint(structure_to_schema(ns[%r], {}))\n" % (sch, defs, name, name))


# ------------------------------------------------------------------------------------ to the Coq model

def to_model(P, name, sch, defs):
    """(list of definition classes, main class) as the harness-side AST, or None outside the modelled fragment"""
    try:
        if shadowed(defs):
            return None
        return [P.to_class(dn, d) for dn, d in defs.items()], P.to_class(name, sch)
    except P.Unmodelled:
        return None


def c_modcase(P, model, text, ran):
    dl, main = model
    if ran is None:
        r = "None"
    elif ran[0] == "ok":
        r = "(Some None)"
    else:
        r = "(Some (Some %s))" % P.codepoints(ran[1])
    return "(%s, %s, %s, %s)" % (E.lst([P.c_class(c) for c in dl]), P.c_class(main),
                                 "None" if text is None else "(Some %s)" % P.codepoints(text), r)
