"""Differential validation of the regex semantics of coq/theories/Errors/Regex.v against CPython's `re`.

run_regex_corr(rnd, n): n (pattern, subject) pairs; the pattern is one of the four patterns of typedpy/errors.py (as
found in the working tree, translated by harness/genmods/regex_src.py - the same translation that produces
Gen/ErrorPatterns.v) or one of ~30 small patterns that exercise every node kind of the AST (literals, sets,
negated sets, \\s \\S, `.`, greedy and lazy * + ?, alternation, groups that take no part, ^ $ \\A \\Z);
the subject is mostly message-shaped (field-ish prefix, ':', ' Got ', '; ', newlines, unicode white space, empty
pieces) or drawn from the pattern's own alphabet.  `re.compile(text).match(subject)` is run for real, and
`re_match <translated pattern> <subject>` is evaluated inside Coq (vm_compute) and compared with the groups exactly.

    PYTHONPATH=/repo:<verif> /venv/bin/python -m harness.regexcorr [n]"""
import os
import random
import re
import sys

from harness import core
from harness import coqemit as E
from harness.genmods import regex_src

EXTRA_PATTERNS = [
    r"abc", r"a.c", r"[a-c]+x", r"[^a-c]*x", r"\s+\S", r"a*?b", r"(a+?)(a*)", r"(a|ab)(c|bcd)(d*)",
    r"(?:ab|a)*c", r"x?y", r"x??y", r"(a)?b", r"(a)??(a?)b", r"^a$", r"a$\n", r"a\Z", r"(.*);", r"(.*?); (.*)$",
    r"(.+?)\s(.+)", r"\Aab", r"a^b", r"(?:(a)|b)*c", r"[\s;]+(.)", r"([^\S\n]+)x", r"(.*)(.*)$", r"(.*?)(.*?)$",
    r"(a|b)+?(b*)c", r"((a)|(b))+", r"(a*)(ab)?b", r"$", r"^$", r"(.+)$\n", r"[a\-c]+", r"[]a]+", r"(?:a|(b))+?c",
    # edits of the source patterns that a developer might make
    r"^([a-zA-Z0-9_.]+): Got (.*?); (.*)$", r"^([a-zA-Z0-9_.]+): Got ([^;]*); (.*)", r"^([a-zA-Z0-9_.]+): (.*); Got (.*)$",
    r"^([a-zA-Z0-9_.]*):\s(.*)$", r"^(\S+):\s(.*?); Got (.*)$", r"([a-zA-Z0-9_.]+):\s(.+)\Z",
    r"^Expected\s<class '(.*?)'>$", r"^Expected <class '([^']*)'>",
]

FIELDISH = ["a", "name", "Foo.bar", "x_1", "a.b.c", "_", "9", "Z", "", "a b", "a-b", "é", "a:b", "arr_0"]
SEPS = [":", ": ", ":\t", ":\n", ": ", ": ", " :", "::", ";", ""]
PIECES = ["Got ", " Got ", "; ", ";", "; Got ", "Got", "; Got", " ", "", "\n", "\n\n", "'", "'>", "<class '", "Expected ",
          "Expected\t", "Expected", "int", "str", "5", "'abc'", "[1, 2]", "x;y", "a; b", "Expected <class 'int'>",
          "Expected <class 'str'>\n", "must be", "　", "\x1c", "\x85", "\r", "\x0b", "​", "\U0001f600", " ",
          ";;", "; ; ", "  ", "Got 5; Expected <class 'int'>", "wrong; Got 7", "\n; Got ", "; Got \n"]


VALUES = ["5", "'abc'", "[1, 2]", "", "x;y", "a; b", "None", "{'a': 1}", "1.5", "'; Got '", "é", "a\nb", "<x>", " "]
PROBLEMS = ["Expected <class 'int'>", "Expected <class 'str'>", "Expected\t<class 'float'>", "must be positive",
            "Expected a number", "", "wrong; really", "a; Got b", "Expected <class 'Foo'>", "Expected <class ''>",
            "Expected <class 'a'>'>", "not one of [1; 2]", "Expected\u3000<class 'list'>", "x\ny", "é", ";", "; "]
WS = [" ", " ", " ", "\t", "\n", "\u00a0", "\u3000", "\x1c", "\x85", "\r", "\x0b", "\u2028", "", "  ", "\u200b", "\x1b"]
NOISE = ["\n", ";", " ", "; Got ", ":", "; ", " Got ", "G", "\U0001f600", "\t", "'", ">"]


def gen_message(rnd):
    r = rnd.random()
    if r < 0.05:
        return "".join(rnd.choice("ab:; G\not\n'><x") for _ in range(rnd.randint(0, 9)))
    if r < 0.12:
        s = rnd.choice(FIELDISH) + rnd.choice(SEPS)
        for _ in range(rnd.randint(0, 5)):
            s += rnd.choice(PIECES)
        return s
    field = rnd.choice(FIELDISH[:8]) if rnd.random() < 0.9 else rnd.choice(FIELDISH)
    shape = rnd.randrange(3)
    if shape == 0:
        s = field + ": Got " + rnd.choice(VALUES) + "; " + rnd.choice(PROBLEMS)
    elif shape == 1:
        s = field + ":" + rnd.choice(WS) + rnd.choice(PROBLEMS) + "; Got " + rnd.choice(VALUES)
    else:
        s = field + ":" + rnd.choice(WS) + rnd.choice(PROBLEMS)
    if rnd.random() < 0.2:
        s += rnd.choice(["\n", "\n", "\n\n", "\r\n", "\n "])
    if rnd.random() < 0.25:
        k = rnd.randrange(len(s) + 1)
        m = rnd.randrange(3)
        if m == 0:
            s = s[:k] + rnd.choice(NOISE) + s[k:]
        elif m == 1:
            s = s[:k] + s[k + 1:]
        else:
            s = s[:k] + rnd.choice(NOISE) + s[k + 1:]
    return s


def gen_class_problem(rnd):
    if rnd.random() < 0.25:
        s = rnd.choice(["Expected", "Expected", "Expecte", "expected", ""]) + rnd.choice([" ", "\t", "\n", "\u00a0", "", "  "])
        s += rnd.choice(["<class '", "<class '", "<class'", "<class \"", ""])
        s += rnd.choice(["int", "str", "a.B", "", "x'>y", "a\nb", "'>", "'", "é"])
        s += rnd.choice(["'>", "'>", "'>\n", "'>\n\n", "'> ", "'", ">", "", "'>'>", "'>\n'>"])
        return s
    s = "Expected" + rnd.choice(WS[:12]) + "<class '"
    s += rnd.choice(["int", "str", "float", "list", "a.B", "", "x'>y", "'>", "'", "é", "a'>\n", "'>'>", "a b", "\t"])
    s += "'>" + rnd.choice(["", "", "", "\n", "\n", "\n\n", " ", "'>", "\n'>"])
    if rnd.random() < 0.2:
        k = rnd.randrange(len(s) + 1)
        s = s[:k] + rnd.choice(NOISE + ["", ""]) + s[k + rnd.randrange(2):]
    return s


def alphabet_of(text, rnd):
    lits = {ch for ch in text if ch.isalnum() or ch in ";:' <>-]"}
    if rnd.random() < 0.5:
        lits |= set("ab\n ")
    return "".join(sorted(lits)) or "ab"


def gen_subject(rnd, text, is_class):
    r = rnd.random()
    if is_class and r < 0.8:
        return gen_class_problem(rnd)
    if r < (0.9 if text.startswith("^(") else 0.4):
        return gen_message(rnd)
    alpha = alphabet_of(text, rnd)
    return "".join(rnd.choice(alpha) for _ in range(rnd.randint(0, 7)))


def source_patterns():
    """[(label, text)] of the re.compile patterns of the working tree's errors.py that translate."""
    res, _ = regex_src.extract()
    out = []
    for _src, coq in regex_src.PATTERNS:
        r = res[coq]
        if r[0] == "ok":
            out.append((coq, r[2]))
    return out


def expected_term(text, s):
    m = re.compile(text).match(s)
    if m is None:
        return "RxNoMatch", None
    gs = m.groups()
    return "(RxMatch %s)" % E.lst([E.opt(g, E.pstr) for g in gs]), list(gs)


HEADER = """From Coq Require Import NArith List String Bool. Import ListNotations.
From TP Require Import Base.PyVal Base.PyEq Errors.Regex.
Local Open Scope string_scope.
Local Open Scope N_scope.
"""


def run_regex_corr(rnd, n, per=400):
    """-> (n_cases, mismatches).  A mismatch is a dict {pattern, subject, python}; an evaluation failure
    is reported as a single mismatch with key "coq-eval"."""
    pats = []            # (label, text, coq term)
    skipped = []
    for label, text in source_patterns():
        pats.append((label, text, regex_src.translate(text)[0]))
    n_src = len(pats)
    for text in EXTRA_PATTERNS:
        try:
            pats.append(("extra", text, regex_src.translate(text)[0]))
        except regex_src.Untranslatable as ex:
            skipped.append((text, str(ex)))
    defs = "".join("Definition P%d : regex := %s.\n" % (i, t) for i, (_, _, t) in enumerate(pats))
    cases = []
    for i in range(n):
        if n_src and (i % 2 == 0):
            pi = (i // 2) % n_src
        else:
            pi = n_src + rnd.randrange(len(pats) - n_src)
        label, text, _ = pats[pi]
        s = gen_subject(rnd, text, label == "pat_expected_class" or text.startswith("^Expected"))
        term, gs = expected_term(text, s)
        cases.append((pi, s, term, gs))
    shards = []
    for a in range(0, len(cases), per):
        items = ["\n (P%d, %s, %s)" % (pi, E.pstr(s), term) for pi, s, term, _ in cases[a:a + per]]
        shards.append(defs + "Definition cases : list rx_case := %s.\n" % E.lst(items) +
                      "Eval vm_compute in (indices_where rx_mismatch cases 0).\n")
    res = core.eval_cases(shards, "regexcorr", HEADER)
    mism = []
    for si, (rc, so, se) in enumerate(res):
        vals = core.parse_eval(so)
        if rc != 0 or len(vals) != 1:
            mism.append({"coq-eval": "shard %d failed: %s" % (si, (so + se)[-1200:])})
            continue
        for j in core.parse_nat_list(vals[0]):
            pi, s, _term, gs = cases[si * per + j]
            mism.append({"pattern": pats[pi][1], "subject": s, "python": gs})
    run_regex_corr.last_stats = {
        "patterns": len(pats), "source_patterns": n_src, "skipped": skipped,
        "matched": sum(1 for c in cases if c[3] is not None),
        "distinct": len({(c[0], c[1]) for c in cases}),
    }
    return len(cases), mism


def main(argv):
    n = int(argv[1]) if len(argv) > 1 else 2000
    ok, log, failed = core.build(["theories/Errors/Regex.vo"])
    if not ok:
        print("build of Errors/Regex.vo failed: %s\n%s" % (failed, log[-1500:]))
        return 2
    rnd = random.Random(core.seed() * 1000003 + 1818)
    cnt, mism = run_regex_corr(rnd, n)
    st = run_regex_corr.last_stats
    print("regexcorr: %d cases (%d distinct, %d matching), %d patterns (%d from errors.py), %d mismatches"
          % (cnt, st["distinct"], st["matched"], st["patterns"], st["source_patterns"], len(mism)))
    for t, why in st["skipped"]:
        print("  extra pattern not translated: %r (%s)" % (t, why))
    for m in mism[:20]:
        print("  MISMATCH", m)
    return 1 if mism else 0


if __name__ == "__main__":
    sys.exit(main(sys.argv))
