"""C13 helper: the spellings of a semantic field declaration.

A *semantic field* is a field AST of harness/fieldgen.py.  A *spelling* is a `tyexpr` term of
coq/theories/Struct/Spelling.v, as nested tuples:
  ("name", key) ("none",) ("bare", tn) ("typing", tn, [args]) ("pep585", origin_key, [args])
  ("optional", a) ("union", [args]) ("or", a, b) ("fcls", cls) ("inst", field_ast) ("struct", cls)
  ("sub", cls, [args]) ("ctor1", cls, item, sz, uniq) ("ctorN", cls, [items], sz, uniq, additional)
`forms(f, kind, rnd)` lists EVERY top-level form in which f can be written in a context of the given kind
("general": annotation / argument of a generic / inside Cls[...]; "fieldy": plain class attribute, items= of a
constructor, left operand of |; "orright": right operand of |), choosing the spellings of the children at random.
Also: rendering as Python source, emission as Gallina, reification of real Field objects."""
import ast

from harness import coqemit as E
from harness import fieldgen as G

# how plain types are written in the generated modules (typing is imported as `t`)
NAME_SRC = {"int": "int", "float": "float", "str": "str", "bool": "bool", "list": "list", "dict": "dict",
            "set": "set", "frozenset": "frozenset", "tuple": "tuple", "collections.deque": "deque",
            "typing.Any": "t.Any", "typing.Union": "t.Union", "complex": "complex"}
TYPING_OF = {"list": "List", "dict": "Dict", "set": "Set", "frozenset": "FrozenSet", "tuple": "Tuple",
             "collections.deque": "Deque"}

MODULE_IMPORTS = (
    "import typing as t\nfrom collections import deque\nfrom decimal import Decimal\n"
    "from typedpy import (Structure, Number, Integer, Float, Positive, Negative, NonPositive, NonNegative, "
    "PositiveInt, NegativeInt, NonPositiveInt, NonNegativeInt, PositiveFloat, NegativeFloat, NonPositiveFloat, "
    "NonNegativeFloat, String, Boolean, NoneField, Anything, Enum, Array, Deque, Set, ImmutableSet, Tuple, Map, "
    "AllOf, AnyOf, OneOf, NotField)\nfrom harness.fieldgen import Color, Size\n")

NO_SZ = [None, None]


class NoSpelling(Exception):
    pass


def _unconstrained_num(f):
    return f.get("mult") is None and f.get("min") is None and f.get("max") is None and not f.get("xmax")


def _no_sz(f):
    return list(f.get("sz") or NO_SZ) == NO_SZ


def is_none(f):
    return f["t"] == "none"


def forms(f, kind, rnd, depth=0):
    """All top-level forms of semantic field f in a context of the given kind."""
    t = f["t"]
    # "unionmember": a member of a typing.Union / typing.Optional — as "general", except that an AnyOf member is never
    # itself written as a typing Union/Optional there (typing would flatten it into the enclosing Union: a nested
    # typing Union inside a Union/Optional node is therefore always an INTENDED flattening spelling, see union_shapes)
    # "subarg": an argument of Cls[...] (FieldMeta.__getitem__) — as "general", plus the parameterless FUNCTION declared
    # `-> Field` (is_function_returning_field), which is recognised there, as an annotation and as a class attribute,
    # and nowhere else (typing arguments, items=/fields=, operands of |)
    general = kind in ("general", "unionmember", "subarg")
    plain_ok = kind in ("general", "orright", "unionmember", "subarg")     # a bare mapped builtin name is acceptable
    sub = lambda g, k="general": pick(g, k, rnd, depth + 1)
    out = [("inst", f)] if t != "ref" and inst_ok(f) else []
    if kind == "subarg" and func_spellable(f):
        out.append(("func", f, rnd.random() < 0.5))
    if t == "num":
        cls = G.SIGN_CLASS[(f["k"], f["s"])]
        if _unconstrained_num(f):
            out.append(("fcls", cls))
            if plain_ok and cls in ("Integer", "Float"):
                out.append(("name", "int" if cls == "Integer" else "float"))
    elif t == "str":
        if f.get("min") is None and f.get("max") is None and f.get("pat") is None:
            out.append(("fcls", "String"))
            if plain_ok:
                out.append(("name", "str"))
    elif t == "bool":
        out.append(("fcls", "Boolean"))
        if plain_ok:
            out.append(("name", "bool"))
    elif t == "any":
        out.append(("fcls", "Anything"))
        if plain_ok:
            out.append(("name", "typing.Any"))
    elif t == "none":
        out.append(("fcls", "NoneField"))
    elif t == "seqany":
        cls, key = ("Array", "list") if f["k"] == "list" else ("Deque", "collections.deque")
        if _no_sz(f) and not f.get("uniq"):
            out.append(("fcls", cls))
            if plain_ok:
                out.append(("name", key))
            if general:
                out.append(("bare", TYPING_OF[key]))
    elif t == "seqeach":
        cls, key = ("Array", "list") if f["k"] == "list" else ("Deque", "collections.deque")
        plain = _no_sz(f) and not f.get("uniq")
        if plain:
            if general:
                out.append(("pep585", key, [sub(f["item"])]))
                out.append(("typing", TYPING_OF[key], [sub(f["item"])]))
            out.append(("sub", cls, [sub(f["item"], "subarg")]))
        out.append(("ctor1", cls, sub(f["item"], "fieldy"), list(f["sz"]), bool(f.get("uniq"))))
    elif t == "seqpos":
        cls, key = ("Array", "list") if f["k"] == "list" else ("Deque", "collections.deque")
        plain = _no_sz(f) and not f.get("uniq") and f.get("additional") is None
        if plain and len(f["items"]) >= 2:
            if general:
                out.append(("pep585", key, [sub(g) for g in f["items"]]))
            out.append(("sub", cls, [sub(g, "subarg") for g in f["items"]]))
        out.append(("ctorN", cls, [sub(g, "fieldy") for g in f["items"]], list(f["sz"]), bool(f.get("uniq")),
                    f.get("additional")))
    elif t == "set":
        cls, key = ("ImmutableSet", "frozenset") if f["imm"] else ("Set", "set")
        if f.get("item") is None:
            if _no_sz(f):
                out.append(("fcls", cls))
                if plain_ok:
                    out.append(("name", key))
                if general:
                    out.append(("bare", TYPING_OF[key]))
        else:
            if _no_sz(f):
                if general:
                    out.append(("pep585", key, [sub(f["item"])]))
                    out.append(("typing", TYPING_OF[key], [sub(f["item"])]))
                out.append(("sub", cls, [sub(f["item"], "subarg")]))
            out.append(("ctor1", cls, sub(f["item"], "fieldy"), list(f["sz"]), False))
    elif t == "tuple":
        items = f["items"]
        direct_ref = any(g["t"] == "ref" for g in items)
        if not f.get("uniq"):
            if general:        # one item too: tuple[int] / typing.Tuple[int] (Tuple(items=<class>) instantiates the class)
                out.append(("pep585", "tuple", [sub(g) for g in items]))
                out.append(("typing", "Tuple", [sub(g) for g in items]))
            out.append(("sub", "Tuple", [sub(g, "subarg") for g in items]))
        if not direct_ref:
            out.append(("ctorN", "Tuple", [sub(g, "fieldy") for g in items], NO_SZ, bool(f.get("uniq")), None))
            if len(items) == 1:
                out.append(("ctor1", "Tuple", sub(items[0], "fieldy"), NO_SZ, bool(f.get("uniq"))))
    elif t == "mapany":
        if _no_sz(f):
            out.append(("fcls", "Map"))
            if plain_ok:
                out.append(("name", "dict"))
            if general:
                out.append(("bare", "Dict"))
    elif t == "mapkv":
        if _no_sz(f):
            if general:
                out.append(("pep585", "dict", [sub(f["kf"]), sub(f["vf"])]))
                out.append(("typing", "Dict", [sub(f["kf"]), sub(f["vf"])]))
            out.append(("sub", "Map", [sub(f["kf"], "subarg"), sub(f["vf"], "subarg")]))
        out.append(("ctorN", "Map", [sub(f["kf"], "fieldy"), sub(f["vf"], "fieldy")], list(f["sz"]), False, None))
    elif t in ("allof", "anyof", "oneof", "not"):
        cls = {"allof": "AllOf", "anyof": "AnyOf", "oneof": "OneOf", "not": "NotField"}[t]
        fs = f["fs"]
        member = lambda g: ("none",) if is_none(g) and rnd.random() < 0.7 else sub(g, "subarg")
        out.append(("sub", cls, [member(g) for g in fs]))
        out.append(("ctorN", cls, [sub(g, "fieldy") for g in fs], NO_SZ, False, None))
        if t == "anyof":
            if kind == "general" and len(fs) >= 2:
                mem = [("none",) if is_none(g) else sub(g, "unionmember") for g in fs]
                shapes = union_shapes(mem)
                out.append(shapes[0])                             # Union[m0, m1, ...] as written
                whole = [x for x in shapes[1:] if x[0] == "optional"]
                nested = [x for x in shapes[1:] if x[0] != "optional"]
                out.extend(whole)                                 # Optional[T] / Optional[Union[...]] (None last)
                if nested:                                        # Union[Union[a, b], c], Union[a, Optional[b]] ...
                    out.extend(rnd.sample(nested, min(len(nested), 2)))
            if len(fs) == 2 and fs[0]["t"] not in ("ref", "none") and not is_none(fs[1]):
                out.append(("or", sub(fs[0], "fieldy"), sub(fs[1], "orright")))
    elif t == "ref":
        out.append(("struct", f["cls"]))
    return out


def union_shapes(mem):
    """Every typing spelling of the union of the member spellings `mem` (("none",) for None) that typing FLATTENS to
    Union[*mem]: the union as written first, then Optional[...] of the whole (None last and only there), then every
    single contiguous group of >= 2 members written as a nested Union[...] / Optional[...]."""
    n = len(mem)
    none = ("none",)

    def grp(g):
        alts = [("union", list(g))]
        if g[-1] == none and none not in g[:-1]:
            inner = g[:-1]
            alts.append(("optional", inner[0] if len(inner) == 1 else ("union", list(inner))))
        return alts
    out = [("union", list(mem))]
    out += grp(mem)[1:]
    for i in range(n):
        for j in range(i + 2, n + 1):
            if j - i == n:
                continue
            for a in grp(mem[i:j]):
                out.append(("union", list(mem[:i]) + [a] + list(mem[j:])))
    return [x for x in out if typing_cache_stable(x)]


UNIQUE_HEADS = ("inst", "sub", "ctor1", "ctorN", "or")      # evaluate to a fresh Field instance every time


def canonical_union(n):
    """typing caches X[...] on the argument tuple, and two typing Unions are EQUAL when they have the same members in
    any order: typing.Union[A, Union[B, None]] evaluated after typing.Union[A, Union[None, B]] returns the cached
    object of the latter (members in the other order; the same for typing.List[Union[..]], Optional[Union[..]]).  That
    is CPython's cache, not typedpy; it makes the meaning of a typing Union that is an ARGUMENT of another typing
    construct depend on what the process evaluated before.  Such argument Unions are therefore only generated in ONE
    canonical member order (None last, the others sorted by source text) unless a member is a fresh object."""
    mem = list(n[1]) if n[0] == "union" else [n[1], ("none",)]
    if any(a[0] in UNIQUE_HEADS for a in mem):
        return True
    if ("none",) in mem[:-1]:
        return False
    texts = [render(a) for a in mem if a != ("none",)]
    return texts == sorted(texts)


def typing_cache_stable(s, under_typing=False):
    """Every typing Union/Optional that occurs (at any depth, also inside PEP 585 generics, whose == compares their
    arguments) below a typing construct in s is canonical."""
    k = s[0]
    if k in ("union", "optional") and under_typing and not canonical_union(s):
        return False
    below = under_typing or k in ("typing", "union", "optional")
    if k in UNIQUE_HEADS:
        below = False                 # a fresh Field instance: never equal to an earlier argument
    if k in ("typing", "pep585", "sub", "ctorN"):
        kids = s[2]
    elif k == "union":
        kids = s[1]
    elif k == "optional":
        kids = [s[1]]
    elif k == "or":
        kids = [s[1], s[2]]
    elif k == "ctor1":
        kids = [s[2]]
    else:
        kids = []
    return all(typing_cache_stable(a, below) for a in kids)


def flat_leaves(n):
    """Members of a union/optional node after typing's flattening (no de-duplication)."""
    if n[0] == "union":
        out = []
        for a in n[1]:
            out += flat_leaves(a) if a[0] in ("union", "optional") else [a]
        return out
    if n[0] == "optional":
        return (flat_leaves(n[1]) if n[1][0] in ("union", "optional") else [n[1]]) + [("none",)]
    return [n]


_TYPING_ORIGIN = None
_uniq = [0]


def model_key(s, in_typing=False):
    """Identity of the object a spelling evaluates to, as Struct/Spelling.v's pyobj_eqb sees it (two Field instances
    are always different objects; typing.List[int] and list[int] are the same OGeneric there)."""
    global _TYPING_ORIGIN
    if _TYPING_ORIGIN is None:
        _TYPING_ORIGIN = {v: k for k, v in TYPING_OF.items()}
    k = s[0]
    if k == "name":
        return ("T", s[1])
    if k == "none":
        return ("NT",) if in_typing else ("N",)
    if k == "bare":
        return ("G", _TYPING_ORIGIN.get(s[1], s[1]), ())
    if k == "typing":
        return ("G", _TYPING_ORIGIN.get(s[1], s[1]), tuple(model_key(a, True) for a in s[2]))
    if k == "pep585":
        return ("G", s[1], tuple(model_key(a) for a in s[2]))
    if k in ("union", "optional"):
        return ("U", tuple(model_key(a, True) for a in flat_leaves(s)))
    if k == "fcls":
        return ("C", s[1])
    if k == "func":
        return ("F", func_name(s[1], s[2]))
    if k == "struct":
        return ("S", s[1])
    _uniq[0] += 1
    return ("I", _uniq[0])


def model_nodup(n):
    """The flattened members of union/optional node n are pairwise different objects for the model."""
    keys = [model_key(a, True) for a in flat_leaves(n)]
    return len(set(keys)) == len(keys)


def inst_ok(f):
    """The canonical constructor text of f is accepted by typedpy: Tuple(items=[...]) takes Field classes and
    instances only (a Structure class is a TypeError there, unlike in Tuple[...] or Array(items=[...]))."""
    if f["t"] == "tuple" and any(g["t"] == "ref" for g in f["items"]):
        return False
    for key in ("item", "kf", "vf"):
        if isinstance(f.get(key), dict) and not inst_ok(f[key]):
            return False
    return all(inst_ok(g) for key in ("items", "fs") for g in (f.get(key) or []))


def spellable(f):
    """Every node of f can be written in some form in every context."""
    if f["t"] == "tuple" and f.get("uniq") and any(g["t"] == "ref" for g in f["items"]):
        return False
    for key in ("item", "kf", "vf"):
        if isinstance(f.get(key), dict) and not spellable(f[key]):
            return False
    return all(spellable(g) for key in ("items", "fs") for g in (f.get(key) or []))


def pick(f, kind, rnd, depth=0):
    fs = forms(f, kind, rnd, depth)
    if not fs:
        raise NoSpelling(f)
    if depth >= 1 and rnd.random() < 0.25:
        return fs[0] if fs[0][0] == "inst" else rnd.choice(fs)
    return rnd.choice(fs)


# ------------------------------------------------------------------ rendering

def _kwargs(sz, uniq, additional, default_src):
    out = G.sz_args(sz)
    if uniq:
        out.append("uniqueItems=True")
    if additional is not None:
        out.append("additionalItems=%r" % additional)
    if default_src is not None:
        out.append("default=%s" % default_src)
    return out


# ------------------------------------------------------------------ functions returning a Field
# ("func", f, quoted): the NAME of a module-level `def Fn() -> Field: return <f>` (quoted: `-> "Field"`); the
# definitions are collected here and written at the top of every generated module (module_prelude()).
_FUNC_DEFS = {}


def func_spellable(f):
    return f["t"] != "ref" and inst_ok(f)


def func_name(f, quoted):
    key = (G.field_src(f), bool(quoted))
    if key not in _FUNC_DEFS:
        _FUNC_DEFS[key] = "Fn%d%s" % (len(_FUNC_DEFS), "q" if quoted else "")
    return _FUNC_DEFS[key]


def func_prelude(text=None):
    import re
    used = None if text is None else set(re.findall(r"\bFn\d+q?\b", text))
    return "".join("def %s() -> %s:\n    return %s\n" % (name, '"Field"' if q else "Field", src)
                   for (src, q), name in _FUNC_DEFS.items() if used is None or name in used)


def module_prelude(text=None):
    """Imports + the function-field definitions (those named in `text`; all rendered so far when text is None)."""
    return MODULE_IMPORTS + "from typedpy import Field\n" + func_prelude(text)


def func_prelude_since(k):
    return "".join("def %s() -> %s:\n    return %s\n" % (name, '"Field"' if q else "Field", src)
                   for (src, q), name in list(_FUNC_DEFS.items())[k:])


def n_func_defs():
    return len(_FUNC_DEFS)


def inline(s):
    """The spelling with every ("alias", name, target) node replaced by its target (("lit", v) nodes are kept)."""
    if isinstance(s, tuple) and s and s[0] == "alias":
        return inline(s[2])
    if isinstance(s, tuple):
        return tuple(inline(x) for x in s)
    if isinstance(s, list):
        return [inline(x) for x in s]
    return s


def has_lit(s):
    if isinstance(s, tuple) and s and s[0] == "lit":
        return True
    if isinstance(s, dict):
        return False
    return isinstance(s, (tuple, list)) and any(has_lit(x) for x in s)


def render(s, default_src=None):
    """Python source of a spelling; default_src: text of a default= argument for the OUTERMOST constructor
    call (only for inst/ctor1/ctorN forms).  ("alias", name, target) renders as the NAME the target expression is
    bound to; ("lit", reified) as a literal value (right operand of |)."""
    k = s[0]
    if k == "alias":
        return s[1]
    if k == "func":
        return func_name(s[1], s[2])
    if k == "lit":
        return G.py_src(s[1])
    if default_src is not None and k not in ("inst", "ctor1", "ctorN"):
        raise ValueError("default= needs a constructor call")
    if k == "name":
        return NAME_SRC[s[1]]
    if k == "none":
        return "None"
    if k == "bare":
        return "t." + s[1]
    if k == "typing":
        return "t.%s[%s]" % (s[1], ", ".join(render(a) for a in s[2]))
    if k == "pep585":
        return "%s[%s]" % (NAME_SRC[s[1]], ", ".join(render(a) for a in s[2]))
    if k == "optional":
        return "t.Optional[%s]" % render(s[1])
    if k == "union":
        return "t.Union[%s]" % ", ".join(render(a) for a in s[1])
    if k == "or":
        a, b = render(s[1]), render(s[2])
        if s[2][0] == "or":
            b = "(" + b + ")"
        return "%s | %s" % (a, b)
    if k in ("fcls", "struct"):
        return s[1]
    if k == "inst":
        src = G.field_src(s[1])
        if default_src is not None:
            head = src[:-1]
            src = head + ("" if head.endswith("(") else ", ") + "default=%s)" % default_src
        return src
    if k == "sub":
        return "%s[%s]" % (s[1], ", ".join(render(a) for a in s[2]))
    if k == "ctor1":
        return "%s(%s)" % (s[1], ", ".join(["items=%s" % render(s[2])] + _kwargs(s[3], s[4], None, default_src)))
    if k == "ctorN":
        kw = "fields" if s[1] in ("AllOf", "AnyOf", "OneOf", "NotField") else "items"
        return "%s(%s)" % (s[1], ", ".join(["%s=[%s]" % (kw, ", ".join(render(a) for a in s[2]))]
                                           + _kwargs(s[3], s[4], s[5], default_src)))
    raise ValueError(s)


def annotation_text(src):
    """What `from __future__ import annotations` stores for an annotation written as src."""
    return ast.unparse(ast.parse(src, mode="eval").body)


def signature(s, depth=0):
    """Coarse description of a spelling (for finding keys and distinct counting)."""
    k = s[0]
    if k in ("name", "bare", "fcls"):
        return "%s(%s)" % (k, s[1])
    if k in ("none", "struct"):
        return k
    if k == "inst":
        return "inst(%s)" % s[1]["t"]
    if k == "func":
        return "func%s(%s)" % ("q" if s[2] else "", s[1]["t"])
    if depth >= 2:
        return k
    if k in ("typing", "pep585", "sub"):
        return "%s(%s)[%s]" % (k, s[1], ",".join(signature(a, depth + 1) for a in s[2]))
    if k == "optional":
        return "optional[%s]" % signature(s[1], depth + 1)
    if k == "union":
        return "union[%s]" % ",".join(signature(a, depth + 1) for a in s[1])
    if k == "or":
        return "or[%s,%s]" % (signature(s[1], depth + 1), signature(s[2], depth + 1))
    if k == "ctor1":
        return "ctor1(%s)[%s]" % (s[1], signature(s[2], depth + 1))
    if k == "ctorN":
        return "ctorN(%s)[%s]" % (s[1], ",".join(signature(a, depth + 1) for a in s[2]))
    raise ValueError(s)


def top_form(s):
    return s[0] if s[0] not in ("typing", "pep585", "sub", "ctor1", "ctorN", "name", "fcls", "bare") else "%s(%s)" % (s[0], s[1])


def walk(s):
    yield s
    k = s[0]
    if k in ("typing", "pep585", "sub", "ctorN"):
        for a in s[2]:
            yield from walk(a)
    elif k == "union":
        for a in s[1]:
            yield from walk(a)
    elif k == "optional":
        yield from walk(s[1])
    elif k == "or":
        yield from walk(s[1])
        yield from walk(s[2])
    elif k == "ctor1":
        yield from walk(s[2])


PLAIN_HEADS = ("name", "none", "struct", "pep585", "typing", "bare", "optional", "union")


def defect_tags(s):
    """Syntactic features of a spelling that fall under a known typedpy defect."""
    tags = set()
    for n in walk(s):
        if n[0] == "or" and leftmost(n)[0] in PLAIN_HEADS:
            tags.add("pep604-plain")
        if n[0] in ("pep585", "typing") and n[1] in ("tuple", "Tuple") and len(n[2]) == 1 \
                and n[2][0][0] == "name":
            tags.add("tuple-single-class")
        if n[0] == "ctor1" and n[1] == "Tuple" and n[2][0] == "fcls":
            tags.add("tuple-single-class")
    return tags


def leftmost(n):
    while n[0] == "or":
        n = n[1]
    return n


# ------------------------------------------------------------------ Gallina

def emit(s):
    k = s[0]
    L = lambda xs: E.lst([emit(a) for a in xs])
    if k == "name":
        return "(TName %s)" % E.pstr(s[1])
    if k == "none":
        return "TNone"
    if k == "bare":
        return "(TBare %s)" % E.pstr(s[1])
    if k == "typing":
        return "(TTyping %s %s)" % (E.pstr(s[1]), L(s[2]))
    if k == "pep585":
        return "(TPep585 %s %s)" % (E.pstr(s[1]), L(s[2]))
    if k == "optional":
        return "(TOptional %s)" % emit(s[1])
    if k == "union":
        return "(TUnion %s)" % L(s[1])
    if k == "or":
        return "(TOr %s %s)" % (emit(s[1]), emit(s[2]))
    if k == "fcls":
        return "(TFieldCls %s)" % E.pstr(s[1])
    if k == "inst":
        return "(TInst %s)" % G.emit_field(s[1])
    if k == "func":
        return "(TFunc %s %s)" % (G.emit_field(s[1]), E.blit(bool(s[2]) or FUTURE_MODULE[0]))
    if k == "struct":
        return "(TStruct %s)" % E.pstr(s[1])
    if k == "sub":
        return "(TSub %s %s)" % (E.pstr(s[1]), L(s[2]))
    if k == "ctor1":
        return "(TCtor1 %s %s %s %s)" % (E.pstr(s[1]), emit(s[2]), G.emit_sz(s[3]), E.blit(s[4]))
    if k == "ctorN":
        return "(TCtorN %s %s %s %s %s)" % (E.pstr(s[1]), L(s[2]), G.emit_sz(s[3]), E.blit(s[4]), E.opt(s[5], E.blit))
    raise ValueError(s)


FUTURE_MODULE = [False]      # emit(): the spelling lives in a module with `from __future__ import annotations`
                             # (every return annotation of the module is a string)


def fields_in(s, acc):
    for n in walk(s):
        if n[0] in ("inst", "func"):
            acc.append(n[1])
    return acc


# ------------------------------------------------------------------ reification of real Field objects

class Defective(Exception):
    pass


class Unreifiable(Exception):
    pass


_SIGN_OF_CLASS = {v: k for k, v in G.SIGN_CLASS.items()}


def reify_field(fo):
    """real typedpy Field object -> field AST (raises Defective / Unreifiable)."""
    import typedpy
    from typedpy.structures import ClassReference, NoneField
    from typedpy import fields as TF  # noqa
    if isinstance(fo, type):
        raise Defective("class object where a Field instance is expected: %r" % (fo,))
    cn = type(fo).__name__
    if isinstance(fo, NoneField):
        return {"t": "none"}
    if isinstance(fo, ClassReference):
        return {"t": "ref", "cls": fo._ty.__name__}
    if cn in _SIGN_OF_CLASS:
        k, s = _SIGN_OF_CLASS[cn]
        f = {"t": "num", "k": k, "s": s}
        if getattr(fo, "multiplesOf", None) is not None:
            f["mult"] = fo.multiplesOf
        if getattr(fo, "minimum", None) is not None:
            f["min"] = E.reify(fo.minimum)
        if getattr(fo, "maximum", None) is not None:
            f["max"] = E.reify(fo.maximum)
        if getattr(fo, "exclusiveMaximum", None):
            f["xmax"] = True
        return f
    if cn == "String":
        f = {"t": "str"}
        if fo.minLength is not None:
            f["min"] = fo.minLength
        if fo.maxLength is not None:
            f["max"] = fo.maxLength
        if fo.pattern is not None:
            if fo.pattern not in G.PATTERNS:
                raise Unreifiable("pattern")
            f["pat"] = G.PATTERNS.index(fo.pattern)
        return f
    if cn == "Boolean":
        return {"t": "bool"}
    if cn == "Anything":
        return {"t": "any"}
    if cn == "Enum":
        if getattr(fo, "_is_enum", False):
            ec = fo._enum_class
            if ec.__name__ not in G.ENUMS:
                raise Unreifiable("enum class")
            vals = list(fo._valid_enum_values)
            return {"t": "enumcls", "cls": ec.__name__, "members": [m.name for m in vals]}
        return {"t": "enumlit", "values": [E.reify(v) for v in fo.values]}
    sz = lambda: [getattr(fo, "minItems", None), getattr(fo, "maxItems", None)]
    if cn in ("Array", "Deque"):
        k = "list" if cn == "Array" else "deque"
        items = fo.items
        uniq = bool(fo.uniqueItems)
        if items is None:
            return {"t": "seqany", "k": k, "sz": sz(), "uniq": uniq}
        if isinstance(items, list):
            return {"t": "seqpos", "k": k, "items": [reify_field(g) for g in items], "sz": sz(), "uniq": uniq,
                    "additional": fo.additionalItems}
        return {"t": "seqeach", "k": k, "item": reify_field(items), "sz": sz(), "uniq": uniq}
    if cn in ("Set", "ImmutableSet"):
        return {"t": "set", "imm": cn == "ImmutableSet", "item": None if fo.items is None else reify_field(fo.items),
                "sz": sz()}
    if cn == "Tuple":
        return {"t": "tuple", "items": [reify_field(g) for g in fo.items], "uniq": bool(fo.uniqueItems)}
    if cn == "Map":
        if fo.items is None:
            return {"t": "mapany", "sz": sz()}
        return {"t": "mapkv", "kf": reify_field(fo.items[0]), "vf": reify_field(fo.items[1]), "sz": sz()}
    if cn in ("AllOf", "AnyOf", "OneOf", "NotField"):
        t = {"AllOf": "allof", "AnyOf": "anyof", "OneOf": "oneof", "NotField": "not"}[cn]
        return {"t": t, "fs": [reify_field(g) for g in fo.get_fields()]}
    raise Unreifiable(cn)


def norm_field(f):
    """Canonical form of a field AST for Python-side comparison (absent keys = None/False)."""
    t = f["t"]
    if t == "num":
        return ("num", f["k"], f["s"], f.get("mult"), _n(f.get("min")), _n(f.get("max")), bool(f.get("xmax")))
    if t == "str":
        return ("str", f.get("min"), f.get("max"), f.get("pat"))
    if t in ("bool", "none", "any"):
        return (t,)
    if t == "enumlit":
        return (t, tuple(repr(v) for v in f["values"]))
    if t == "enumcls":
        return (t, f["cls"], tuple(f["members"]))
    if t == "seqany":
        return (t, f["k"], tuple(f["sz"]), bool(f.get("uniq")))
    if t == "seqeach":
        return (t, f["k"], norm_field(f["item"]), tuple(f["sz"]), bool(f.get("uniq")))
    if t == "seqpos":
        return (t, f["k"], tuple(norm_field(g) for g in f["items"]), tuple(f["sz"]), bool(f.get("uniq")),
                f.get("additional"))
    if t == "set":
        return (t, bool(f["imm"]), None if f.get("item") is None else norm_field(f["item"]), tuple(f["sz"]))
    if t == "tuple":
        return (t, tuple(norm_field(g) for g in f["items"]), bool(f.get("uniq")))
    if t == "mapany":
        return (t, tuple(f["sz"]))
    if t == "mapkv":
        return (t, norm_field(f["kf"]), norm_field(f["vf"]), tuple(f["sz"]))
    if t in ("allof", "anyof", "oneof", "not"):
        return (t, tuple(norm_field(g) for g in f["fs"]))
    if t == "ref":
        return (t, f["cls"])
    raise ValueError(f)


def _n(r):
    return None if r is None else tuple(r)
