"""Structure class definitions in the model's AST: rendering as Python source, realisation by
exec (so that the metaclass, annotation handling and frame inspection run as for a user),
emission as Gallina `classdef` terms, reification of instances.

Class AST: {"name", "base": None|name, "immutable": bool, "fields": [{"name","field","immutable","default"}],
            "required": None|[names], "additional": None|bool, "ignore_none": bool, "hook": None|["le",a,b]|["set",a]}
"""
from harness import coqemit as E
from harness import fieldgen as G

INTERNAL = ("_instantiated", "_none_fields", "_trust_supplied_values", "_skip_validation")


def struct_attrs(v):
    """Public state of a Structure instance as [(name, value)] sorted by name, else None."""
    try:
        from typedpy import Structure
    except Exception:  # noqa
        return None
    if not isinstance(v, Structure):
        return None
    out = []
    for k in sorted(v.__dict__):
        if k in INTERNAL:
            continue
        out.append((k, v.__dict__[k]))
    return out


def class_src(c):
    base = c.get("base") or ("ImmutableStructure" if c.get("immutable") else "Structure")
    lines = ["class %s(%s):" % (c["name"], base)]
    for fd in c["fields"]:
        src = G.field_src(fd["field"])
        extra = []
        if fd.get("immutable"):
            extra.append("immutable=True")
        if fd.get("default") is not None:
            extra.append("default=%s" % G.py_src(fd["default"]))
        if extra:
            if fd["field"]["t"] == "ref":
                raise ValueError("class reference with options")
            src = src[:-1] + (", " if not src.endswith("(") else "") + ", ".join(extra) + ")"
        lines.append("    %s = %s" % (fd["name"], src))
    if c.get("required") is not None:
        lines.append("    _required = %r" % list(c["required"]))
    if c.get("additional") is not None:
        lines.append("    _additional_properties = %r" % c["additional"])
    if c.get("ignore_none"):
        lines.append("    _ignore_none = True")
    h = c.get("hook")
    if h:
        lines.append("    def __validate__(self):")
        if h[0] == "le":
            lines.append("        a = self.__dict__.get(%r); b = self.__dict__.get(%r)" % (h[1], h[2]))
            lines.append("        if type(a) is int and type(b) is int and not a <= b:")
            lines.append("            raise ValueError('%s must not exceed %s')" % (h[1], h[2]))
        else:
            lines.append("        if %r not in self.__dict__:" % h[1])
            lines.append("            raise ValueError('%s must be set')" % h[1])
    if len(lines) == 1:
        lines.append("    pass")
    return "\n".join(lines) + "\n"


class Context:
    """A class environment: realised classes, their ASTs, sample instances."""

    BASE = [
        {"name": "Inner", "fields": [{"name": "a", "field": {"t": "num", "k": "Integer", "s": "Any"}},
                                     {"name": "b", "field": {"t": "str"}}], "required": ["a"], "additional": False},
        {"name": "Sub", "base": "Inner", "fields": [{"name": "c", "field": {"t": "num", "k": "Integer", "s": "Any"}}],
         "required": [], "additional": False},
        {"name": "Other", "fields": [{"name": "a", "field": {"t": "num", "k": "Integer", "s": "Any"}}],
         "additional": False},
    ]

    def __init__(self, extra=()):
        self.asts = [dict(c) for c in self.BASE] + list(extra)
        self.ns = {}
        exec(G.IMPORTS, self.ns)
        for c in self.asts:
            exec(class_src(c), self.ns)
        self.classes = {c["name"]: self.ns[c["name"]] for c in self.asts}
        self.instances = {
            "Inner": [("struct", "Inner", [("a", ("int", 1))]),
                      ("struct", "Inner", [("a", ("int", 2)), ("b", ("str", "x"))]),
                      ("struct", "Sub", [("a", ("int", 3))])],
            "Sub": [("struct", "Sub", [("a", ("int", 3))]), ("struct", "Sub", [("a", ("int", 4)), ("c", ("int", 5))])],
            "Other": [("struct", "Other", [("a", ("int", 1))])],
        }

    def class_names(self):
        return [c["name"] for c in self.asts]

    def source(self):
        return "".join(class_src(c) + "\n" for c in self.asts)

    def ast(self, name):
        for c in self.asts:
            if c["name"] == name:
                return c
        raise KeyError(name)

    def ancestors(self, name):
        out = []
        c = self.ast(name)
        while c.get("base"):
            out.append(c["base"])
            c = self.ast(c["base"])
        return out

    def all_fields(self, name):
        """get_all_fields_by_name() order: base classes first, redeclared names keep their slot."""
        chain = [name] + self.ancestors(name)
        out = []
        for cn in reversed(chain):
            for fd in self.ast(cn)["fields"]:
                for i, old in enumerate(out):
                    if old["name"] == fd["name"]:
                        out[i] = fd
                        break
                else:
                    out.append(fd)
        return out

    def resolved(self, name):
        """Instance-level facts of a class, read from the REAL class (definition semantics are the
        subject of C12-C14, not of the instance-level properties)."""
        cls = self.classes[name]
        from typedpy.structures import TypedPyDefaults
        return {
            "required": sorted(getattr(cls, "_required", [])),
            "additional": bool(cls.__dict__.get("_additional_properties",
                                                cls.__dict__.get("_additionalProperties",
                                                                 TypedPyDefaults.additional_properties_default))),
            "ignore_none": bool(getattr(cls, "_ignore_none", TypedPyDefaults.allow_none_for_optionals)),
            "immutable": bool(getattr(cls, "_immutable", False)),
            "field_names": list(cls.get_all_fields_by_name().keys()),
        }

    def emit_classdef(self, name):
        c = self.ast(name)
        r = self.resolved(name)
        by_name = {fd["name"]: fd for fd in self.all_fields(name)}
        fds = []
        for n in r["field_names"]:
            fd = by_name[n]
            fds.append("{| fd_name := %s; fd_field := %s; fd_immutable := %s; fd_default := %s |}" % (
                E.pstr(n), G.emit_field(fd["field"]), E.blit(bool(fd.get("immutable"))),
                E.opt(fd.get("default"), E.pval)))
        h = self.hook_of(name)
        hook = "HookNone"
        if h:
            hook = "(HookLe %s %s)" % (E.pstr(h[1]), E.pstr(h[2])) if h[0] == "le" else "(HookNeverNone %s)" % E.pstr(h[1])
        return ("{| c_name := %s; c_ancestors := %s; c_fields := %s; c_required := %s; c_additional := %s; "
                "c_ignore_none := %s; c_immutable := %s; c_hook := %s |}") % (
            E.pstr(name), E.lst([E.pstr(a) for a in self.ancestors(name)]), E.lst(fds),
            E.lst([E.pstr(x) for x in r["required"]]), E.blit(r["additional"]), E.blit(r["ignore_none"]),
            E.blit(r["immutable"]), hook)

    def hook_of(self, name):
        for cn in [name] + self.ancestors(name):
            if self.ast(cn).get("hook"):
                return self.ast(cn)["hook"]
        return None

    def coq_env(self):
        return "Definition env0 : env := %s." % E.lst(["\n  " + self.emit_classdef(c["name"]) for c in self.asts])


_counter = [0]


def single_field_class(f, ctx):
    """class T(Structure): f = <declaration>; _required = ['f'] — realised by exec."""
    ns = dict(ctx.ns)
    src = "class T(Structure):\n    f = %s\n    _required = ['f']\n" % G.field_src(f)
    exec(src, ns)
    return ns["T"]
