"""Structure class definitions in the model's AST: rendering as Python source, realisation by
exec (so that the metaclass, annotation handling and frame inspection run as for a user),
emission as Gallina `classdef` terms, reification of instances.

Class AST: {"name", "base": None|name, "immutable": bool, "fields": [{"name","field","immutable","default","factory" (optional key: default is a callable)}],
            "required": None|[names], "spell_optional": bool (optional: write _optional instead of _required),
            "additional": None|bool, "ignore_none": bool, "hook": None|["le",a,b]|["set",a],
            "undefined": bool (optional: _enable_undefined_value)}
"""
from harness import coqemit as E
from harness import fieldgen as G

INTERNAL = ("_instantiated", "_none_fields", "_trust_supplied_values", "_skip_validation")


def struct_attrs(v):
    """Public state of a Structure instance as [(name, value)] sorted by name, else None."""
    try:
        from typedpy import Structure
    except Exception:  # noqa
        return None
    if not isinstance(v, Structure):
        return None
    out = []
    for k in sorted(v.__dict__):
        if k in INTERNAL:
            continue
        out.append((k, v.__dict__[k]))
    return out


def class_src(c):
    base = c.get("base") or ("ImmutableStructure" if c.get("immutable") else "Structure")
    lines = ["class %s(%s):" % (c["name"], base)]
    for fd in c["fields"]:
        src = G.field_src(fd["field"])
        extra = []
        if fd.get("immutable"):
            extra.append("immutable=True")
        if fd.get("factory") is not None:
            # a default FACTORY: `_fact(key)` (provided by the context's namespace) is a callable returning whatever
            # the harness has put under that key; fd["default"] is the value it returns when the class is defined
            extra.append("default=_fact(%r)" % fd["factory"])
        elif fd.get("default") is not None:
            extra.append("default=%s" % G.py_src(fd["default"]))
        if extra:
            if fd["field"]["t"] == "ref":
                raise ValueError("class reference with options")
            src = src[:-1] + (", " if not src.endswith("(") else "") + ", ".join(extra) + ")"
        lines.append("    %s = %s" % (fd["name"], src))
    if c.get("required") is not None:
        if c.get("spell_optional"):
            # the other documented spelling of the same thing: the fields of THIS class that are not required
            lines.append("    _optional = %r" % [fd["name"] for fd in c["fields"] if fd["name"] not in c["required"]])
        else:
            lines.append("    _required = %r" % list(c["required"]))
    if c.get("additional") is not None:
        lines.append("    _additional_properties = %r" % c["additional"])
    if c.get("ignore_none"):
        lines.append("    _ignore_none = True")
    if c.get("undefined"):
        lines.append("    _enable_undefined_value = True")
    h = c.get("hook")
    if h:
        lines.append("    def __validate__(self):")
        if h[0] == "le":
            lines.append("        a = self.__dict__.get(%r); b = self.__dict__.get(%r)" % (h[1], h[2]))
            lines.append("        if type(a) is int and type(b) is int and not a <= b:")
            lines.append("            raise ValueError('%s must not exceed %s')" % (h[1], h[2]))
        else:
            lines.append("        if %r not in self.__dict__:" % h[1])
            lines.append("            raise ValueError('%s must be set')" % h[1])
    if len(lines) == 1:
        lines.append("    pass")
    return "\n".join(lines) + "\n"


class Context:
    """A class environment: realised classes, their ASTs, sample instances."""

    BASE = [
        {"name": "Inner", "fields": [{"name": "a", "field": {"t": "num", "k": "Integer", "s": "Any"}},
                                     {"name": "b", "field": {"t": "str"}}], "required": ["a"], "additional": False},
        {"name": "Sub", "base": "Inner", "fields": [{"name": "c", "field": {"t": "num", "k": "Integer", "s": "Any"}}],
         "required": [], "additional": False},
        {"name": "Other", "fields": [{"name": "a", "field": {"t": "num", "k": "Integer", "s": "Any"}}],
         "additional": False},
    ]

    def __init__(self, extra=()):
        self.asts = [dict(c) for c in self.BASE] + list(extra)
        self.ns = {}
        exec(G.IMPORTS, self.ns)
        for c in self.asts:
            exec(class_src(c), self.ns)
        self.classes = {c["name"]: self.ns[c["name"]] for c in self.asts}
        self.instances = {
            "Inner": [("struct", "Inner", [("a", ("int", 1))]),
                      ("struct", "Inner", [("a", ("int", 2)), ("b", ("str", "x"))]),
                      ("struct", "Sub", [("a", ("int", 3))])],
            "Sub": [("struct", "Sub", [("a", ("int", 3))]), ("struct", "Sub", [("a", ("int", 4)), ("c", ("int", 5))])],
            "Other": [("struct", "Other", [("a", ("int", 1))])],
        }

    def class_names(self):
        return [c["name"] for c in self.asts]

    def source(self):
        return "".join(class_src(c) + "\n" for c in self.asts)

    def ast(self, name):
        for c in self.asts:
            if c["name"] == name:
                return c
        raise KeyError(name)

    def ancestors(self, name):
        out = []
        c = self.ast(name)
        while c.get("base"):
            out.append(c["base"])
            c = self.ast(c["base"])
        return out

    def all_fields(self, name):
        """get_all_fields_by_name() order: base classes first, redeclared names keep their slot."""
        chain = [name] + self.ancestors(name)
        out = []
        for cn in reversed(chain):
            for fd in self.ast(cn)["fields"]:
                for i, old in enumerate(out):
                    if old["name"] == fd["name"]:
                        out[i] = fd
                        break
                else:
                    out.append(fd)
        return out

    def resolved(self, name):
        """Instance-level facts of a class, read from the REAL class (definition semantics are the
        subject of C12-C14, not of the instance-level properties)."""
        cls = self.classes[name]
        from typedpy.structures import TypedPyDefaults
        return {
            "required": sorted(getattr(cls, "_required", [])),
            "additional": bool(cls.__dict__.get("_additional_properties",
                                                cls.__dict__.get("_additionalProperties",
                                                                 TypedPyDefaults.additional_properties_default))),
            "ignore_none": bool(getattr(cls, "_ignore_none", TypedPyDefaults.allow_none_for_optionals)),
            "immutable": bool(getattr(cls, "_immutable", False)),
            "field_names": list(cls.get_all_fields_by_name().keys()),
        }

    def emit_classdef(self, name):
        c = self.ast(name)
        r = self.resolved(name)
        by_name = {fd["name"]: fd for fd in self.all_fields(name)}
        fds = []
        for n in r["field_names"]:
            fd = by_name[n]
            fds.append("{| fd_name := %s; fd_field := %s; fd_immutable := %s; fd_default := %s |}" % (
                E.pstr(n), G.emit_field(fd["field"]), E.blit(bool(fd.get("immutable"))),
                E.opt(fd.get("default"), E.pval)))
        h = self.hook_of(name)
        hook = "HookNone"
        if h:
            hook = "(HookLe %s %s)" % (E.pstr(h[1]), E.pstr(h[2])) if h[0] == "le" else "(HookNeverNone %s)" % E.pstr(h[1])
        return ("{| c_name := %s; c_ancestors := %s; c_fields := %s; c_required := %s; c_additional := %s; "
                "c_ignore_none := %s; c_immutable := %s; c_hook := %s |}") % (
            E.pstr(name), E.lst([E.pstr(a) for a in self.ancestors(name)]), E.lst(fds),
            E.lst([E.pstr(x) for x in r["required"]]), E.blit(r["additional"]), E.blit(r["ignore_none"]),
            E.blit(r["immutable"]), hook)

    def hook_of(self, name):
        for cn in [name] + self.ancestors(name):
            if self.ast(cn).get("hook"):
                return self.ast(cn)["hook"]
        return None

    def coq_env(self):
        return "Definition env0 : env := %s." % E.lst(["\n  " + self.emit_classdef(c["name"]) for c in self.asts])


_counter = [0]


def single_field_class(f, ctx):
    """class T(Structure): f = <declaration>; _required = ['f'] — realised by exec."""
    ns = dict(ctx.ns)
    src = "class T(Structure):\n    f = %s\n    _required = ['f']\n" % G.field_src(f)
    exec(src, ns)
    return ns["T"]


# ------------------------------------------------------------------ generation of classes

NAMES = ["a", "b", "c", "d", "e1", "f_2", "g"]


def gen_class(rnd, name, ctx_names=(), n_fields=None, container_bias=0.0, immutable=False, max_depth=2,
              allow_defaults=True, allow_hook=True):
    """A class AST with 1..5 fields.  container_bias: probability that a field is a typed container."""
    n = n_fields or rnd.randint(1, 5)
    fields = []
    for fname in NAMES[:n]:
        if rnd.random() < container_bias:
            f = gen_container(rnd, ctx_names, max_depth)
        else:
            f = G.gen_field(rnd, 0 if max_depth > 1 else 1, classes=ctx_names, max_depth=max_depth)
        fd = {"name": fname, "field": f}
        fields.append(fd)
    names = [fd["name"] for fd in fields]
    c = {"name": name, "fields": fields, "immutable": immutable}
    r = rnd.random()
    if r < 0.5:
        c["required"] = sorted(rnd.sample(names, rnd.randint(0, len(names))))
    c["additional"] = rnd.choice([False, False, True, None])
    if rnd.random() < 0.3:
        c["ignore_none"] = True
    ints = [fd["name"] for fd in fields if fd["field"]["t"] == "num" and fd["field"]["k"] == "Integer"]
    if allow_hook and rnd.random() < 0.35:
        if len(ints) >= 2 and rnd.random() < 0.7:
            a, b = rnd.sample(ints, 2)
            c["hook"] = ["le", a, b]
        else:
            opt = [x for x in names if c.get("required") is not None and x not in c["required"]]
            if opt:
                c["hook"] = ["set", rnd.choice(opt)]
    return c


def gen_container(rnd, ctx_names=(), max_depth=2):
    """A typed Array/Deque/Map declaration (the values of which are wrapper objects)."""
    sub = lambda d=1: G.gen_field(rnd, d, classes=ctx_names, max_depth=max_depth)
    scalar = lambda: G.gen_field(rnd, 9, classes=(), max_depth=0)
    r = rnd.random()
    if r < 0.40:
        return {"t": "seqeach", "k": rnd.choice(["list", "list", "deque"]),
                "item": scalar() if rnd.random() < 0.7 else sub(), "sz": G.gen_sz(rnd), "uniq": rnd.random() < 0.25}
    if r < 0.55:
        n = rnd.randint(1, 3)
        return {"t": "seqpos", "k": rnd.choice(["list", "list", "deque"]), "items": [scalar() for _ in range(n)],
                "sz": [None, None], "uniq": False, "additional": rnd.choice([None, False, True])}
    if r < 0.62:
        return {"t": "seqany", "k": rnd.choice(["list", "deque"]), "sz": G.gen_sz(rnd), "uniq": rnd.random() < 0.3}
    if r < 0.85:
        return {"t": "mapkv", "kf": G.gen_field(rnd, 9, max_depth=0, hashable=True),
                "vf": scalar() if rnd.random() < 0.7 else sub(), "sz": G.gen_sz(rnd)}
    if r < 0.90:
        return {"t": "mapany", "sz": G.gen_sz(rnd)}
    # nested typed containers (depth 2)
    inner = {"t": "seqeach", "k": "list", "item": scalar(), "sz": G.gen_sz(rnd), "uniq": False}
    if rnd.random() < 0.5:
        return {"t": "seqeach", "k": rnd.choice(["list", "deque"]), "item": inner, "sz": [None, None], "uniq": False}
    return {"t": "mapkv", "kf": {"t": "str"}, "vf": inner, "sz": [None, None]}


def gen_kwargs(rnd, c, ctx, p_valid=1.0):
    """Keyword arguments for class AST c: valid values for all required and some optional fields."""
    kw = []
    req = c.get("required")
    for fd in c["fields"]:
        needed = req is None or fd["name"] in req
        if needed or rnd.random() < 0.6:
            v = G.gen_valid(rnd, fd["field"], ctx.instances)
            if rnd.random() > p_valid:
                v = G.corrupt(rnd, fd["field"], v, ctx.instances)
            kw.append((fd["name"], v))
    return kw


def realize_kwargs(kw, ctx):
    return {k: G.unreify(v, ctx.classes) for k, v in kw}


def make_valid_instance(rnd, c, ctx, tries=12):
    """(kwargs, instance) with a real instance of the realised class, or None."""
    cls = ctx.classes[c["name"]]
    for _ in range(tries):
        kw = gen_kwargs(rnd, c, ctx)
        if c.get("hook") and c["hook"][0] == "set" and not any(k == c["hook"][1] for k, _ in kw):
            fd = [f for f in c["fields"] if f["name"] == c["hook"][1]][0]
            kw.append((fd["name"], G.gen_valid(rnd, fd["field"], ctx.instances)))
        try:
            return kw, cls(**realize_kwargs(kw, ctx))
        except Exception:  # noqa
            continue
    return None
