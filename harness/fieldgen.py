"""Field declarations and values in the model's AST: seeded generation, rendering as Python
source, realisation as real typedpy objects, emission as Gallina terms.

Field AST (JSON-able dicts), mirroring coq/theories/Fields/FieldAst.v:
  {"t":"num","k":"Number|Integer|Float","s":"Any|Positive|Negative|NonPositive|NonNegative",
   "mult":int|None,"min":num|None,"max":num|None,"xmax":bool}
  {"t":"str","min":int|None,"max":int|None,"pat":int|None}
  {"t":"bool"} {"t":"none"} {"t":"any"}
  {"t":"enumlit","values":[reified...]}  {"t":"enumcls","cls":name,"members":[names]}
  {"t":"seqany","k":"list|deque","sz":[min,max],"uniq":bool}
  {"t":"seqeach","k":..,"item":f,"sz":..,"uniq":..}
  {"t":"seqpos","k":..,"items":[f],"sz":..,"uniq":..,"additional":None|bool}
  {"t":"set","imm":bool,"item":f|None,"sz":..}  {"t":"tuple","items":[f],"uniq":bool}
  {"t":"mapany","sz":..} {"t":"mapkv","kf":f,"vf":f,"sz":..}
  {"t":"allof|anyof|oneof|not","fs":[f]}  {"t":"ref","cls":name}
Values are reified tagged lists (see coqemit.reify).  Numbers inside the AST are reified too.
"""
import collections
import decimal
import enum
import math
import re

from harness import coqemit as E


# ------------------------------------------------------------------ fixed vocabularies

class Color(enum.Enum):
    RED = 1
    GREEN = 2
    BLUE = "b"


class Size(enum.Enum):
    S = "small"
    M = "medium"
    L = "large"


ENUMS = {"Color": Color, "Size": Size}
BY_VALUE = set()      # names of enum classes whose Enum fields are declared with serialization_by_value=True (C08 only)

PATTERNS = ["^[a-z]+$", "[0-9][0-9]", "a.c", "^(x|yy)$", "b+", "^$", ".*z"]
STRINGS = ["", "a", "abc", "abcd", "x", "yy", "42", "a1c", "zzz", "hello world", "True", "False", "RED", "S",
           "bbb", "é", "日本", "a\nb", "12ab", "Z"]

SIGN_CLASS = {
    ("Number", "Any"): "Number", ("Number", "Positive"): "Positive", ("Number", "Negative"): "Negative",
    ("Number", "NonPositive"): "NonPositive", ("Number", "NonNegative"): "NonNegative",
    ("Integer", "Any"): "Integer", ("Integer", "Positive"): "PositiveInt", ("Integer", "Negative"): "NegativeInt",
    ("Integer", "NonPositive"): "NonPositiveInt", ("Integer", "NonNegative"): "NonNegativeInt",
    ("Float", "Any"): "Float", ("Float", "Positive"): "PositiveFloat", ("Float", "Negative"): "NegativeFloat",
    ("Float", "NonPositive"): "NonPositiveFloat", ("Float", "NonNegative"): "NonNegativeFloat",
}

IMPORTS = ("from typedpy import (Structure, ImmutableStructure, Number, Integer, Float, Positive, Negative, NonPositive, "
           "NonNegative, PositiveInt, NegativeInt, NonPositiveInt, NonNegativeInt, PositiveFloat, NegativeFloat, "
           "NonPositiveFloat, NonNegativeFloat, String, Boolean, NoneField, Anything, Enum, Array, Deque, Set, "
           "ImmutableSet, Tuple, Map, AllOf, AnyOf, OneOf, NotField)\n"
           "from harness.fieldgen import Color, Size\n"
           "from collections import deque\nfrom decimal import Decimal\n")


# ------------------------------------------------------------------ reified <-> python

_THE_OBJECT = object()

# Further declaration kinds registered by a check (t -> {"field_src": f -> str, "gen_valid": (rnd, f, classes, depth) ->
# reified, optional "emit_field": f -> Gallina, optional "falsy": f -> [reified]}); the kinds above are untouched.
EXT = {}


def unreify(r, ctx=None):
    """reified value -> Python object.  ctx: dict class name -> class (for structs)."""
    t = r[0]
    if t == "none":
        return None
    if t == "bool":
        return bool(r[1])
    if t == "int":
        return int(r[1])
    if t == "flt":
        return math.ldexp(float(r[1]), r[2])
    if t == "dec":
        return decimal.Decimal(r[1]).scaleb(r[2])
    if t == "str":
        return r[1]
    if t == "list":
        return [unreify(x, ctx) for x in r[1]]
    if t == "tuple":
        return tuple(unreify(x, ctx) for x in r[1])
    if t == "deque":
        return collections.deque(unreify(x, ctx) for x in r[1])
    if t == "set":
        items = [unreify(x, ctx) for x in r[2]]
        return frozenset(items) if r[1] else set(items)
    if t == "dict":
        return {unreify(k, ctx): unreify(v, ctx) for k, v in r[1]}
    if t == "enum":
        return ENUMS[r[1]][r[2]]
    if t == "struct":
        cls = ctx[r[1]]
        return cls(**{k: unreify(v, ctx) for k, v in r[2]})
    if t == "other":
        if r[1] == "float":
            return float(r[2])
        if r[1] == "complex":
            return complex(1, 2)
        if r[1] == "bytes":
            return b"xy"
        if r[1] == "object":
            return _THE_OBJECT      # one object: equal reified values must be equal (identical) Python values
        if r[1] in ("date", "time", "datetime"):
            import datetime
            return getattr(datetime, r[1]).fromisoformat(r[2])
        raise ValueError(r)
    raise ValueError(r)


def py_src(r):
    """reified value -> Python source text (for replay files)."""
    t = r[0]
    if t in ("none", "bool", "int", "str"):
        return repr(unreify(r))
    if t == "flt":
        return repr(unreify(r))
    if t == "dec":
        return "Decimal(%r)" % str(unreify(r))
    if t == "list":
        return "[" + ", ".join(py_src(x) for x in r[1]) + "]"
    if t == "tuple":
        return "(" + "".join(py_src(x) + ", " for x in r[1]) + ")"
    if t == "deque":
        return "deque([" + ", ".join(py_src(x) for x in r[1]) + "])"
    if t == "set":
        inner = ", ".join(py_src(x) for x in r[2])
        return ("frozenset([%s])" if r[1] else "set([%s])") % inner
    if t == "dict":
        return "{" + ", ".join(py_src(k) + ": " + py_src(v) for k, v in r[1]) + "}"
    if t == "enum":
        return "%s.%s" % (r[1], r[2])
    if t == "struct":
        return "%s(%s)" % (r[1], ", ".join("%s=%s" % (k, py_src(v)) for k, v in r[2]))
    if t == "other":
        if r[1] in ("date", "time", "datetime"):
            return "datetime.%s.fromisoformat(%r)" % (r[1], r[2])
        return {"float": "float(%r)" % r[2], "complex": "complex(1, 2)", "bytes": "b'xy'",
                "object": "object()"}.get(r[1], "object()")
    raise ValueError(r)


def rnum(x):
    return E.reify(x)


# ------------------------------------------------------------------ field -> python source

def num_src(r):
    return py_src(r)


def field_src(f):
    t = f["t"]
    if t == "num":
        args = []
        if f.get("mult") is not None:
            args.append("multiplesOf=%d" % f["mult"])
        if f.get("min") is not None:
            args.append("minimum=%s" % num_src(f["min"]))
        if f.get("max") is not None:
            args.append("maximum=%s" % num_src(f["max"]))
        if f.get("xmax"):
            args.append("exclusiveMaximum=True")
        return "%s(%s)" % (SIGN_CLASS[(f["k"], f["s"])], ", ".join(args))
    if t == "str":
        args = []
        if f.get("min") is not None:
            args.append("minLength=%d" % f["min"])
        if f.get("max") is not None:
            args.append("maxLength=%d" % f["max"])
        if f.get("pat") is not None:
            args.append("pattern=%r" % PATTERNS[f["pat"]])
        return "String(%s)" % ", ".join(args)
    if t == "bool":
        return "Boolean()"
    if t == "none":
        return "NoneField()"
    if t == "any":
        return "Anything()"
    if t == "enumlit":
        return "Enum(values=[%s])" % ", ".join(py_src(v) for v in f["values"])
    if t == "enumcls":
        cls = ENUMS[f["cls"]]
        byv = ", serialization_by_value=True" if f["cls"] in BY_VALUE else ""
        if list(f["members"]) == [m.name for m in cls]:
            return "Enum(values=%s%s)" % (f["cls"], byv)
        return "Enum(values=[%s]%s)" % (", ".join("%s.%s" % (f["cls"], m) for m in f["members"]), byv)
    if t in ("seqany", "seqeach", "seqpos"):
        cls = "Array" if f["k"] == "list" else "Deque"
        args = []
        if t == "seqeach":
            args.append("items=%s" % field_src(f["item"]))
        if t == "seqpos":
            args.append("items=[%s]" % ", ".join(field_src(g) for g in f["items"]))
            if f.get("additional") is not None:
                args.append("additionalItems=%r" % f["additional"])
        args += sz_args(f["sz"])
        if f.get("uniq"):
            args.append("uniqueItems=True")
        return "%s(%s)" % (cls, ", ".join(args))
    if t == "set":
        args = []
        if f.get("item") is not None:
            args.append("items=%s" % field_src(f["item"]))
        args += sz_args(f["sz"])
        return "%s(%s)" % ("ImmutableSet" if f["imm"] else "Set", ", ".join(args))
    if t == "tuple":
        args = ["items=[%s]" % ", ".join(field_src(g) for g in f["items"])]
        if f.get("uniq"):
            args.append("uniqueItems=True")
        return "Tuple(%s)" % ", ".join(args)
    if t == "mapany":
        return "Map(%s)" % ", ".join(sz_args(f["sz"]))
    if t == "mapkv":
        return "Map(%s)" % ", ".join(["items=[%s, %s]" % (field_src(f["kf"]), field_src(f["vf"]))] + sz_args(f["sz"]))
    if t in ("allof", "anyof", "oneof", "not"):
        cls = {"allof": "AllOf", "anyof": "AnyOf", "oneof": "OneOf", "not": "NotField"}[t]
        return "%s([%s])" % (cls, ", ".join(field_src(g) for g in f["fs"]))
    if t == "ref":
        return f["cls"]
    if t == "raw":          # declaration given as source text (not emitted to Coq), e.g. "Tuple[Inner]"
        return f["src"]
    if t in EXT:
        return EXT[t]["field_src"](f)
    raise ValueError(f)


def sz_args(sz):
    out = []
    if sz[0] is not None:
        out.append("minItems=%d" % sz[0])
    if sz[1] is not None:
        out.append("maxItems=%d" % sz[1])
    return out


# ------------------------------------------------------------------ field -> Gallina

def emit_numc(f):
    return "{| multiplesOf := %s; minimum := %s; maximum := %s; exclusiveMaximum := %s |}" % (
        E.opt(f.get("mult"), E.zlit), E.opt(f.get("min"), emit_num), E.opt(f.get("max"), emit_num),
        E.blit(bool(f.get("xmax"))))


def emit_num(r):
    if r[0] == "int":
        return "(NInt %s)" % E.zlit(r[1])
    if r[0] == "flt":
        return "(NFlt %s %s)" % (E.zlit(r[1]), E.zlit(r[2]))
    if r[0] == "dec":
        return "(NDec %s %s)" % (E.zlit(r[1]), E.zlit(r[2]))
    raise ValueError(r)


def emit_sz(sz):
    return "{| minItems := %s; maxItems := %s |}" % (E.opt(sz[0], E.zlit), E.opt(sz[1], E.zlit))


def emit_field(f):
    t = f["t"]
    if t == "num":
        return "(FNumber K%s S%s %s)" % (f["k"], f["s"], emit_numc(f))
    if t == "str":
        return "(FString {| minLength := %s; maxLength := %s; pattern := %s |})" % (
            E.opt(f.get("min"), E.zlit), E.opt(f.get("max"), E.zlit), E.opt(f.get("pat"), E.nlit))
    if t == "bool":
        return "FBoolean"
    if t == "none":
        return "FNone"
    if t == "any":
        return "FAnything"
    if t == "enumlit":
        return "(FEnumLit %s)" % E.lst([E.pval(v) for v in f["values"]])
    if t == "enumcls":
        cls = ENUMS[f["cls"]]
        return "(FEnumCls %s %s)" % (E.pstr(f["cls"]), E.lst(
            ["(%s, %s)" % (E.pstr(m), E.pval(E.reify(cls[m].value))) for m in f["members"]]))
    k = "SeqList" if f.get("k") == "list" else "SeqDeque"
    if t == "seqany":
        return "(FSeqAny %s %s %s)" % (k, emit_sz(f["sz"]), E.blit(bool(f.get("uniq"))))
    if t == "seqeach":
        return "(FSeqEach %s %s %s %s)" % (k, emit_field(f["item"]), emit_sz(f["sz"]), E.blit(bool(f.get("uniq"))))
    if t == "seqpos":
        return "(FSeqPos %s %s %s %s %s)" % (k, E.lst([emit_field(g) for g in f["items"]]), emit_sz(f["sz"]),
                                             E.blit(bool(f.get("uniq"))), E.opt(f.get("additional"), E.blit))
    if t == "set":
        return "(FSet %s %s %s)" % (E.blit(f["imm"]), E.opt(f.get("item"), emit_field), emit_sz(f["sz"]))
    if t == "tuple":
        return "(FTuple %s %s)" % (E.lst([emit_field(g) for g in f["items"]]), E.blit(bool(f.get("uniq"))))
    if t == "mapany":
        return "(FMapAny %s)" % emit_sz(f["sz"])
    if t == "mapkv":
        return "(FMapKV %s %s %s)" % (emit_field(f["kf"]), emit_field(f["vf"]), emit_sz(f["sz"]))
    if t in ("allof", "anyof", "oneof", "not"):
        c = {"allof": "FAllOf", "anyof": "FAnyOf", "oneof": "FOneOf", "not": "FNot"}[t]
        return "(%s %s)" % (c, E.lst([emit_field(g) for g in f["fs"]]))
    if t == "ref":
        return "(FClassRef %s)" % E.pstr(f["cls"])
    if t in EXT and "emit_field" in EXT[t]:
        return EXT[t]["emit_field"](f)
    raise ValueError(f)


# ------------------------------------------------------------------ oracle tables

def strings_in(r, acc):
    t = r[0]
    if t == "str":
        acc.add(r[1])
    elif t in ("list", "tuple", "deque"):
        for x in r[1]:
            strings_in(x, acc)
    elif t == "set":
        for x in r[2]:
            strings_in(x, acc)
    elif t == "dict":
        for k, v in r[1]:
            strings_in(k, acc)
            strings_in(v, acc)
    elif t == "struct":
        for _, v in r[2]:
            strings_in(v, acc)
    elif t == "enum":
        strings_in(r[3], acc)
    return acc


def patterns_in(f, acc):
    t = f["t"]
    if t == "str" and f.get("pat") is not None:
        acc.add(f["pat"])
    for key in ("item", "kf", "vf"):
        if isinstance(f.get(key), dict):
            patterns_in(f[key], acc)
    for key in ("items", "fs"):
        for g in f.get(key) or []:
            patterns_in(g, acc)
    return acc


def match_table(fields, values):
    """[(pattern id, [matching strings])] over all strings occurring in the values."""
    pats = set()
    for f in fields:
        patterns_in(f, pats)
    strs = set()
    for v in values:
        strings_in(v, strs)
    out = []
    for p in sorted(pats):
        rx = re.compile(PATTERNS[p])
        out.append((p, sorted(s for s in strs if rx.match(s))))
    return out


def emit_table(tbl):
    return E.lst(["(%s, %s)" % (E.nlit(p), E.lst([E.pstr(s) for s in ss])) for p, ss in tbl])


# ------------------------------------------------------------------ generation of declarations

def gen_numc(rnd, kind):
    f = {}
    pick = lambda: rnd.choice([-7, -3, -1, 0, 1, 2, 3, 5, 10, 100])
    if rnd.random() < 0.3:
        f["mult"] = rnd.choice([1, 2, 3, 5, 10, -2])
    if rnd.random() < 0.45:
        f["min"] = gen_bound(rnd, pick())
    if rnd.random() < 0.45:
        base = pick()
        if f.get("min") is not None and rnd.random() < 0.8:
            base = max(base, int(math.floor(E_float(f["min"]))) + rnd.choice([0, 1, 3, 10]))
        f["max"] = gen_bound(rnd, base)
        if rnd.random() < 0.35:
            f["xmax"] = True
    elif rnd.random() < 0.05:
        f["xmax"] = True      # exclusiveMaximum without maximum: ignored by the code
    return f


def E_float(r):
    return float(unreify(r))


def gen_bound(rnd, z):
    r = rnd.random()
    if r < 0.6:
        return rnum(z)
    if r < 0.9:
        return rnum(z + rnd.choice([0.5, 0.25, -0.5, 0.0, 0.1]))
    return rnum(decimal.Decimal(z) + decimal.Decimal(rnd.choice(["0.1", "0", "-0.5"])))


SCALAR_WEIGHTS = [("num", 30), ("str", 18), ("bool", 6), ("none", 3), ("any", 4), ("enumlit", 7), ("enumcls", 7)]
COMPOSITE_WEIGHTS = [("seqany", 3), ("seqeach", 12), ("seqpos", 8), ("set", 7), ("tuple", 8), ("mapany", 2),
                     ("mapkv", 8), ("allof", 4), ("anyof", 8), ("oneof", 5), ("not", 4), ("ref", 5)]


def weighted(rnd, table):
    tot = sum(w for _, w in table)
    x = rnd.random() * tot
    for k, w in table:
        x -= w
        if x <= 0:
            return k
    return table[-1][0]


def gen_sz(rnd):
    lo = rnd.choice([None, None, 0, 1, 2])
    hi = rnd.choice([None, None, 1, 2, 3, 4])
    if lo is not None and hi is not None and hi < lo and rnd.random() < 0.8:
        hi = lo + rnd.choice([0, 1, 2])
    return [lo, hi]


def gen_field(rnd, depth=0, classes=(), hashable=False, max_depth=3):
    """classes: names of Structure classes available for references."""
    table = list(SCALAR_WEIGHTS)
    if depth < max_depth:
        comp = [(k, w) for k, w in COMPOSITE_WEIGHTS if (k != "ref" or classes)]
        if hashable:
            comp = [(k, w) for k, w in comp if k in ("tuple", "anyof", "allof", "oneof", "ref")]
        scale = 1.6 if depth == 0 else 0.8
        table += [(k, w * scale) for k, w in comp]
    t = weighted(rnd, table)
    sub = lambda **kw: gen_field(rnd, depth + 1, classes, max_depth=max_depth, **kw)
    if t == "num":
        k = rnd.choice(["Number", "Integer", "Integer", "Float", "Float"])
        s = rnd.choice(["Any", "Any", "Any", "Positive", "Negative", "NonPositive", "NonNegative"])
        f = {"t": "num", "k": k, "s": s}
        f.update(gen_numc(rnd, k))
        return f
    if t == "str":
        f = {"t": "str"}
        if rnd.random() < 0.4:
            f["min"] = rnd.choice([0, 1, 2, 3, 4])
        if rnd.random() < 0.4:
            f["max"] = rnd.choice([0, 1, 3, 4, 5, 11])
        if rnd.random() < 0.3:
            f["pat"] = rnd.randrange(len(PATTERNS))
        return f
    if t in ("bool", "none", "any"):
        return {"t": t}
    if t == "enumlit":
        pool = [1, 2, 3, "a", "abc", "x", 2.5, True, None, 0, "RED", (1, 2)]
        vals = rnd.sample(pool, rnd.randint(1, 4))
        return {"t": "enumlit", "values": [E.reify(v) for v in vals]}
    if t == "enumcls":
        cname = rnd.choice(sorted(ENUMS))
        names = [m.name for m in ENUMS[cname]]
        if rnd.random() < 0.35:
            names = sorted(rnd.sample(names, rnd.randint(1, len(names) - 1)), key=names.index)
        return {"t": "enumcls", "cls": cname, "members": names}
    if t == "seqany":
        return {"t": t, "k": rnd.choice(["list", "deque"]), "sz": gen_sz(rnd), "uniq": rnd.random() < 0.3}
    if t == "seqeach":
        return {"t": t, "k": rnd.choice(["list", "list", "deque"]), "item": sub(), "sz": gen_sz(rnd),
                "uniq": rnd.random() < 0.25}
    if t == "seqpos":
        n = rnd.randint(1, 3)
        return {"t": t, "k": rnd.choice(["list", "list", "deque"]), "items": [sub() for _ in range(n)],
                "sz": gen_sz(rnd) if rnd.random() < 0.3 else [None, None], "uniq": rnd.random() < 0.15,
                "additional": rnd.choice([None, None, False, False, True])}
    if t == "set":
        return {"t": t, "imm": rnd.random() < 0.4, "item": sub(hashable=True) if rnd.random() < 0.8 else None,
                "sz": gen_sz(rnd)}
    if t == "tuple":
        n = rnd.choice([1, 1, 2, 2, 3])
        return {"t": t, "items": [sub(hashable=hashable) for _ in range(n)], "uniq": rnd.random() < 0.2}
    if t == "mapany":
        return {"t": t, "sz": gen_sz(rnd)}
    if t == "mapkv":
        return {"t": t, "kf": sub(hashable=True), "vf": sub(), "sz": gen_sz(rnd)}
    if t in ("allof", "anyof", "oneof", "not"):
        n = rnd.randint(1, 3)
        return {"t": t, "fs": [sub(hashable=hashable) for _ in range(n)]}
    if t == "ref":
        return {"t": "ref", "cls": rnd.choice(list(classes))}
    raise ValueError(t)


# ------------------------------------------------------------------ generation of values

def gen_number_for(rnd, f, want_valid=True):
    """A number near the constraint lattice of a numeric declaration (reified)."""
    cands = [0, 1, -1, 2, 3, 5, 7, 10, -2, -10, 100]
    for key in ("min", "max"):
        b = f.get(key)
        if b is not None:
            x = unreify(b)
            fx = float(x)
            cands += [x, fx, math.nextafter(fx, math.inf), math.nextafter(fx, -math.inf)]
            iz = int(math.floor(fx))
            cands += [iz - 1, iz, iz + 1, fx + 0.5, fx - 0.5]
    m = f.get("mult")
    if m:
        cands += [m, 2 * m, -m, 0, m + 1, 3 * m, m * 0.5]
    x = rnd.choice(cands)
    if f["k"] == "Integer" and rnd.random() < 0.85:
        x = int(math.floor(float(x)))
    elif f["k"] == "Float" and rnd.random() < 0.7:
        x = float(x)
    elif rnd.random() < 0.1:
        x = decimal.Decimal(str(float(x)))
    if m and want_valid and rnd.random() < 0.7:
        x = int(math.floor(float(x))) // m * m
        if f["k"] == "Float" and rnd.random() < 0.5:
            x = float(x)
    return E.reify(x)


OTHER_VALUES = [None, True, False, 0, 1, -1, 2, 0.0, 1.0, 2.5, -0.5, "", "a", "abc", "True", "False", "1", "RED",
                [], [1], [1, 2, 3], ["a", "b"], (), (1,), (1, "a"), {}, {"a": 1}, {1: "a"}, set(), {1, 2}, {"a"},
                frozenset([1]), collections.deque([1, 2]), collections.deque(), decimal.Decimal("1"),
                decimal.Decimal("2.5"), Color.RED, Size.M, 2 ** 60, 1e300, b"xy", object(), complex(1, 2),
                float("inf"), float("nan"), [[1], [2]], {"k": [1, 2]}, (1, 2, 3)]


def reify_other(v):
    r = E.reify(v)
    if r[0] == "other" and r[1] not in ("float", "complex", "bytes", "object"):
        return ("other", "object", "")
    return r


def gen_any(rnd):
    return reify_other(rnd.choice(OTHER_VALUES))


# the elements of a valid Array/Deque(items=[...]) value PAST the declared positions: any object at all by default;
# a check whose property speaks of serializable instances only (C05) sets a generator of JSON values here
EXTRA_ITEM_GEN = None


def gen_valid(rnd, f, classes=None, depth=0):
    """A value intended to conform to f (not guaranteed: multi-field wrappers and interacting
    constraints can defeat it; the harness measures the realised accept rate)."""
    t = f["t"]
    classes = classes or {}
    sub = lambda g: gen_valid(rnd, g, classes, depth + 1)
    if t == "num":
        for _ in range(12):
            r = gen_number_for(rnd, f)
            if num_ok(f, r):
                return r
        return r
    if t == "str":
        pool = list(STRINGS)
        if f.get("pat") is not None:
            rx = re.compile(PATTERNS[f["pat"]])
            pool = [s for s in pool if rx.match(s)] or pool
        lo, hi = f.get("min"), f.get("max")
        ok = [s for s in pool if (lo is None or len(s) >= lo) and (hi is None or len(s) <= hi)]
        return ("str", rnd.choice(ok or pool))
    if t == "bool":
        return rnd.choice([("bool", True), ("bool", False), ("bool", True), ("str", "True"), ("str", "False")])
    if t == "none":
        return ("none",)
    if t == "any":
        return gen_any(rnd)
    if t == "enumlit":
        return rnd.choice(f["values"])
    if t == "enumcls":
        m = rnd.choice(f["members"])
        cls = ENUMS[f["cls"]]
        return ("str", m) if rnd.random() < 0.4 else E.reify(cls[m])
    if t in ("seqany", "seqeach", "seqpos", "set", "mapany", "mapkv"):
        lo, hi = f["sz"]
        lo = lo or 0
        n = rnd.randint(lo, max(lo, min(hi if hi is not None else lo + 3, lo + 3)))
        if t == "seqpos":
            n = max(n, len(f["items"])) if rnd.random() < 0.9 else n
            if f.get("additional") is False and rnd.random() < 0.7:
                n = len(f["items"])
        if t == "seqany":
            items = [gen_any(rnd) for _ in range(n)]
        elif t == "seqeach":
            items = [sub(f["item"]) for _ in range(n)]
        elif t == "seqpos":
            items = [sub(f["items"][i]) if i < len(f["items"]) else (EXTRA_ITEM_GEN or gen_any)(rnd) for i in range(n)]
        elif t == "set":
            items = [sub(f["item"]) if f.get("item") else gen_hashable(rnd) for _ in range(n)]
            return mk_set(rnd.random() < 0.15, items)
        elif t == "mapany":
            return mk_dict([(gen_hashable(rnd), gen_any(rnd)) for _ in range(n)])
        else:
            return mk_dict([(sub(f["kf"]), sub(f["vf"])) for _ in range(n)])
        if f.get("uniq"):
            items = dedup(items)
        return ("list" if f["k"] == "list" else "deque", items)
    if t == "tuple":
        if len(f["items"]) == 1:
            items = [sub(f["items"][0]) for _ in range(rnd.randint(0, 3))]
        else:
            items = [sub(g) for g in f["items"]]
        if f.get("uniq"):
            items = dedup(items)
        return ("tuple", items)
    if t in ("allof", "oneof"):
        return sub(rnd.choice(f["fs"]))
    if t == "anyof":
        return sub(rnd.choice(f["fs"]))
    if t == "not":
        return gen_any(rnd)
    if t == "ref":
        inst = classes.get(f["cls"])
        if inst:
            return rnd.choice(inst)
        return ("none",)
    if t in EXT:
        return EXT[t]["gen_valid"](rnd, f, classes, depth)
    raise ValueError(f)


def py_key(r):
    """Key identifying a reified value up to Python == (approximately: numerics by value)."""
    t = r[0]
    if t in ("bool", "int", "flt", "dec"):
        return ("n", float(unreify(r)))
    if t in ("list", "tuple", "deque"):
        return (t, tuple(py_key(x) for x in r[1]))
    if t == "set":
        return ("set", frozenset(py_key(x) for x in r[2]))
    if t == "dict":
        return ("dict", frozenset((py_key(k), py_key(v)) for k, v in r[1]))
    return repr(r)


def dedup(items):
    seen = set()
    out = []
    for x in items:
        k = py_key(x)
        if k not in seen:
            seen.add(k)
            out.append(x)
    return out


def mk_set(frozen, items):
    items = sorted(dedup([x for x in items if is_hashable(x)]), key=E.canon_key)
    return ("set", frozen, items)


def mk_dict(pairs):
    out = []
    seen = set()
    for k, v in pairs:
        if not is_hashable(k):
            continue
        kk = py_key(k)
        if kk in seen:
            continue
        seen.add(kk)
        out.append((k, v))
    return ("dict", out)


def is_hashable(r):
    t = r[0]
    if t in ("list", "deque", "dict"):
        return False
    if t == "set":
        return bool(r[1])
    if t == "tuple":
        return all(is_hashable(x) for x in r[1])
    return True


def gen_hashable(rnd):
    for _ in range(20):
        r = gen_any(rnd)
        if is_hashable(r) and r[0] != "other":
            return r
    return ("int", 1)


def num_ok(f, r):
    """Python-side evaluation of the documented numeric constraints (generator guidance only)."""
    if r[0] not in ("int", "flt", "dec"):
        return False
    x = unreify(r)
    if f["k"] == "Integer" and r[0] != "int":
        return False
    if f["k"] == "Float" and r[0] == "dec":
        return False
    try:
        if f.get("mult") and x % f["mult"]:
            return False
        if f.get("min") is not None and unreify(f["min"]) > x:
            return False
        if f.get("max") is not None:
            mx = unreify(f["max"])
            if mx < x or (f.get("xmax") and mx == x):
                return False
        s = f["s"]
        return {"Any": True, "Positive": x > 0, "Negative": x < 0, "NonPositive": x <= 0, "NonNegative": x >= 0}[s]
    except Exception:  # noqa
        return False


def enum_neighbours(f):
    """Near-miss candidates for an enum-class field: every member of every enum class (as object and by
    name, allowed or not), member values, wrong-case names."""
    out = []
    for cname, cls in sorted(ENUMS.items()):
        for m in cls:
            out += [E.reify(m), ("str", m.name), ("str", m.name.lower()), E.reify(m.value)]
    return out


def corrupt(rnd, f, v, classes=None, depth=0):
    """One point corruption of a (presumably valid) value for f."""
    t = f["t"]
    r = rnd.random()
    if t == "enumcls" and r < 0.8:
        return rnd.choice(enum_neighbours(f))
    if r < 0.18 or t in ("bool", "none", "any", "enumlit", "enumcls", "ref", "not"):
        return gen_any(rnd)
    if t == "num":
        return gen_number_for(rnd, f, want_valid=False)
    if t == "str":
        return ("str", rnd.choice(STRINGS))
    if t in ("seqany", "seqeach", "seqpos", "tuple"):
        tag = v[0] if v[0] in ("list", "deque", "tuple") else "list"
        items = list(v[1]) if v[0] in ("list", "deque", "tuple") else []
        r2 = rnd.random()
        if r2 < 0.2 and items:
            items.pop(rnd.randrange(len(items)))
        elif r2 < 0.4:
            items.insert(rnd.randint(0, len(items)), gen_any(rnd))
        elif r2 < 0.55 and items:
            items.append(items[rnd.randrange(len(items))])          # duplicate
        elif r2 < 0.65:
            wrong = {"list": rnd.choice(["tuple", "deque"]), "deque": "list", "tuple": "list"}[tag]
            return (wrong, items)
        elif items:
            i = rnd.randrange(len(items))
            g = None
            if t == "seqeach":
                g = f["item"]
            elif t in ("seqpos", "tuple"):
                g = f["items"][i] if i < len(f["items"]) else (f["items"][0] if len(f["items"]) == 1 else None)
            items[i] = corrupt(rnd, g, items[i], classes, depth + 1) if g else gen_any(rnd)
        else:
            items = [gen_any(rnd)]
        return (tag, items)
    if t == "set":
        items = list(v[2]) if v[0] == "set" else []
        r2 = rnd.random()
        if r2 < 0.3 and items:
            items.pop()
        elif r2 < 0.6:
            items.append(gen_hashable(rnd))
        elif items and f.get("item"):
            items[0] = corrupt(rnd, f["item"], items[0], classes, depth + 1)
        else:
            return ("list", items)
        return mk_set(v[1] if v[0] == "set" else False, items)
    if t in ("mapany", "mapkv"):
        pairs = list(v[1]) if v[0] == "dict" else []
        r2 = rnd.random()
        if r2 < 0.25 and pairs:
            pairs.pop()
        elif r2 < 0.5:
            pairs.append((gen_hashable(rnd), gen_any(rnd)))
        elif pairs and t == "mapkv":
            i = rnd.randrange(len(pairs))
            k, x = pairs[i]
            if rnd.random() < 0.5:
                pairs[i] = (corrupt(rnd, f["kf"], k, classes, depth + 1), x)
            else:
                pairs[i] = (k, corrupt(rnd, f["vf"], x, classes, depth + 1))
        else:
            return ("list", [k for k, _ in pairs])
        return mk_dict(pairs)
    if t in ("allof", "anyof", "oneof"):
        g = rnd.choice(f["fs"])
        return corrupt(rnd, g, v, classes, depth + 1)
    return gen_any(rnd)


def shape(f, depth=0):
    """Coarse declaration shape, used to count distinct cases."""
    t = f["t"]
    if t == "num":
        return "%s%s%s" % (f["k"][0], f["s"][:4], "".join(k[0] for k in ("mult", "min", "max", "xmax") if f.get(k)))
    if t == "str":
        return "S" + "".join(k[0] for k in ("min", "max", "pat") if f.get(k) is not None)
    if depth >= 2:
        return t
    subs = []
    for key in ("item", "kf", "vf"):
        if isinstance(f.get(key), dict):
            subs.append(shape(f[key], depth + 1))
    for key in ("items", "fs"):
        subs += [shape(g, depth + 1) for g in f.get(key) or []]
    return t + "(" + ",".join(subs) + ")"
