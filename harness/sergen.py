"""Generators shared by the C05/C06 checks: classes of the *serializable fragment* (scalars, Enum by
name and by value, Array/Deque/Set/Tuple/Map, nested structures, Optional/AnyOf over distinguishable
options, with and without _ignore_none / _additional_properties, compact single-field wrappers),
valid instances with falsy values in every position, order-preserving reification, emission of
the Coq environment (classes + enum declarations)."""
import collections
import datetime
import decimal
import enum
import math
import re

from harness import coqemit as E
from harness import fieldgen as G
from harness import structgen as S


class ColorV(enum.Enum):
    RED = 1
    GREEN = 2
    BLUE = "b"


class SizeV(enum.Enum):
    S = "small"
    M = "medium"
    L = "large"


# by-value twins of fieldgen.Color / fieldgen.Size: fields over them are declared with
# serialization_by_value=True (the model keys "by value" on the enum class, see Ser/Serialize.v)
G.ENUMS.setdefault("ColorV", ColorV)
G.ENUMS.setdefault("SizeV", SizeV)
BY_VALUE = ["ColorV", "SizeV"]      # a list: a check may register further by-value enum classes (register_enum)

IMPORTS = G.IMPORTS + "from harness.sergen import ColorV, SizeV\n"


def register_enum(cls, by_value):
    """Adds an enum class to the vocabulary (fieldgen.ENUMS); by_value: fields over it are declared with
    serialization_by_value=True.  The caller's class environment must import the class (SerContext.imports)."""
    G.ENUMS.setdefault(cls.__name__, cls)
    if by_value and cls.__name__ not in BY_VALUE:
        BY_VALUE.append(cls.__name__)


def fix_src(src):
    """Python source of a declaration: add serialization_by_value=True for the by-value enum classes."""
    alt = "|".join(re.escape(n) for n in BY_VALUE)
    src = re.sub(r"Enum\(values=(%s)\)" % alt, r"Enum(values=\1, serialization_by_value=True)", src)
    src = re.sub(r"Enum\(values=\[((?:%s)\.[^\]]*)\]\)" % alt, r"Enum(values=[\1], serialization_by_value=True)", src)
    return src


def field_src(f):
    return fix_src(G.field_src(f))


def class_src(c):
    return fix_src(S.class_src(c))


# ------------------------------------------------------------------ reification that keeps orders

def reify_o(v, depth=0):
    """Like coqemit.reify, but instance.__dict__ order, dict order and set iteration order are kept
    (serialization iterates these very objects)."""
    from typedpy import Structure
    if depth > 40:
        return ("other", "deep", "")
    rec = lambda x: reify_o(x, depth + 1)
    if v is None:
        return ("none",)
    if isinstance(v, bool):
        return ("bool", v)
    if isinstance(v, enum.Enum):
        return ("enum", type(v).__name__, v.name, rec(v.value))
    if isinstance(v, int):
        return ("int", int(v))
    if isinstance(v, float):
        if math.isfinite(v):
            return ("flt",) + E.float_me(v)
        return ("other", "float", repr(v))
    if isinstance(v, decimal.Decimal):
        if v.is_finite():
            return ("dec",) + E.dec_me(v)
        return ("other", "Decimal", str(v))
    if isinstance(v, str):
        return ("str", v)
    if isinstance(v, Structure):
        return ("struct", type(v).__name__,
                [(k, rec(x)) for k, x in v.__dict__.items() if k not in S.INTERNAL])
    if isinstance(v, collections.deque):
        return ("deque", [rec(x) for x in v])
    if isinstance(v, list):
        return ("list", [rec(x) for x in v])
    if isinstance(v, tuple):
        return ("tuple", [rec(x) for x in v])
    if isinstance(v, (set, frozenset)):
        return ("set", isinstance(v, frozenset), [rec(x) for x in v])
    if isinstance(v, dict):
        return ("dict", [(rec(k), rec(x)) for k, x in v.items()])
    if isinstance(v, (datetime.datetime, datetime.date, datetime.time)):
        return ("other", type(v).__name__, v.isoformat())
    return ("other", type(v).__name__, "")


def only_json_types(j):
    """The first clause of C05, evaluated on the real output: exact types only."""
    t = type(j)
    if j is None or t in (str, int, float, bool):
        return not (t is float and not math.isfinite(j))
    if t is list:
        return all(only_json_types(x) for x in j)
    if t is dict:
        return all((k is None or type(k) in (str, int, float, bool)) and only_json_types(x) for k, x in j.items())
    return False


def unreify_json(r):
    """reified JSON-like value -> plain Python (dict/list/...)"""
    return G.unreify(r)


# ------------------------------------------------------------------ declarations of the fragment

def gen_scalar(rnd, hashable=False, allow_enum=True, simple=False):
    r = rnd.random()
    if r < 0.38:
        k = rnd.choice(["Integer", "Integer", "Float", "Number"])
        s = rnd.choice(["Any", "Any", "Any", "Positive", "NonNegative", "Negative", "NonPositive"])
        f = {"t": "num", "k": k, "s": s}
        if not simple and rnd.random() < 0.5:
            f.update(G.gen_numc(rnd, k))
        return f
    if r < 0.62:
        f = {"t": "str"}
        if not simple:
            if rnd.random() < 0.3:
                f["min"] = rnd.choice([0, 1, 2])
            if rnd.random() < 0.3:
                f["max"] = rnd.choice([3, 4, 5, 11])
            if rnd.random() < 0.2:
                f["pat"] = rnd.randrange(len(G.PATTERNS))
        return f
    if r < 0.72:
        return {"t": "bool"}
    if r < 0.80 or not allow_enum:
        pool = [1, 2, 3, "a", "abc", "x", 2.5, 0, "", "RED"]
        vals = rnd.sample(pool, rnd.randint(1, 4))
        return {"t": "enumlit", "values": [E.reify(v) for v in vals]}
    cname = rnd.choice(["Color", "Size", "ColorV", "SizeV"])
    names = [m.name for m in G.ENUMS[cname]]
    if rnd.random() < 0.3:
        names = sorted(rnd.sample(names, rnd.randint(1, len(names) - 1)), key=names.index)
    return {"t": "enumcls", "cls": cname, "members": names}


def gen_sfield(rnd, depth=0, classes=(), max_depth=2, hashable=False):
    """A declaration of the serializable fragment (the property's quantifier)."""
    if depth >= max_depth or rnd.random() < (0.45 if depth == 0 else 0.6):
        return gen_scalar(rnd)
    sub = lambda: gen_sfield(rnd, depth + 1, classes, max_depth)
    kinds = [("seqeach", 22), ("seqpos", 7), ("set", 10), ("tuple", 12), ("mapkv", 16), ("anyof", 12),
             ("ref", 16 if classes else 0)]
    t = G.weighted(rnd, kinds)
    if t == "seqeach":
        return {"t": t, "k": rnd.choice(["list", "list", "deque"]), "item": sub(), "sz": G.gen_sz(rnd) if rnd.random() < 0.3 else [None, None],
                "uniq": rnd.random() < 0.1}
    if t == "seqpos":
        n = rnd.randint(1, 3)
        return {"t": t, "k": rnd.choice(["list", "list", "deque"]), "items": [sub() for _ in range(n)],
                "sz": [None, None], "uniq": False, "additional": rnd.choice([None, False, False, True])}
    if t == "set":
        return {"t": t, "imm": rnd.random() < 0.3, "item": gen_scalar(rnd), "sz": G.gen_sz(rnd) if rnd.random() < 0.3 else [None, None]}
    if t == "tuple":
        n = rnd.choice([1, 2, 2, 3])
        return {"t": t, "items": [sub() if rnd.random() < 0.35 else gen_scalar(rnd, allow_enum=rnd.random() < 0.3) for _ in range(n)],
                "uniq": False}
    if t == "mapkv":
        kf = rnd.choice([{"t": "str"}, {"t": "str"}, {"t": "num", "k": "Integer", "s": "Any"},
                         {"t": "enumcls", "cls": rnd.choice(["ColorV", "SizeV"]),
                          "members": [m.name for m in G.ENUMS["ColorV"]]} if False else
                         {"t": "enumcls", "cls": "SizeV", "members": [m.name for m in G.ENUMS["SizeV"]]},
                         gen_scalar(rnd)])
        return {"t": t, "kf": kf, "vf": sub(), "sz": G.gen_sz(rnd) if rnd.random() < 0.3 else [None, None]}
    if t == "anyof":
        r = rnd.random()
        if r < 0.5:      # Optional[T]
            return {"t": "anyof", "fs": [sub(), {"t": "none"}]}
        # distinguishable options: disjoint JSON types
        opts = [{"t": "num", "k": "Integer", "s": "Any"}, {"t": "str"}, {"t": "bool"},
                {"t": "seqeach", "k": "list", "item": {"t": "num", "k": "Integer", "s": "Any"}, "sz": [None, None], "uniq": False}]
        if classes:
            opts.append({"t": "ref", "cls": rnd.choice(list(classes))})
        return {"t": "anyof", "fs": rnd.sample(opts, 2)}
    return {"t": "ref", "cls": rnd.choice(list(classes))}


FIELD_NAMES = ["a", "b", "c", "d", "e1"]


def gen_sclass(rnd, name, classes=(), wrapper=False, max_depth=2, field_gen=None):
    n = 1 if wrapper else rnd.randint(1, 4)
    fields = []
    for fname in FIELD_NAMES[:n]:
        fd = {"name": fname, "field": (field_gen or gen_sfield)(rnd, 0, classes, max_depth)}
        fields.append(fd)
    names = [fd["name"] for fd in fields]
    c = {"name": name, "fields": fields}
    if wrapper:
        c["required"] = list(names)
        c["additional"] = False
        return c
    if rnd.random() < 0.6:
        c["required"] = sorted(rnd.sample(names, rnd.randint(0, len(names))))
    c["additional"] = rnd.choice([False, False, True, None])
    if rnd.random() < 0.4:
        c["ignore_none"] = True
    return c


class SerContext(S.Context):
    """Class environment made of generated fragment classes only."""

    imports = None      # a subclass may extend the import block (more enum classes, more field classes)

    def __init__(self, asts):
        self.asts = list(asts)
        self.ns = {}
        exec(self.imports or IMPORTS, self.ns)
        self.classes = {}
        self.instances = {}
        for c in self.asts:
            exec(class_src(c), self.ns)
            self.classes[c["name"]] = self.ns[c["name"]]
            self.instances[c["name"]] = []

    def add(self, c):
        exec(class_src(c), self.ns)
        self.asts.append(c)
        self.classes[c["name"]] = self.ns[c["name"]]
        self.instances[c["name"]] = []

    def source(self):
        return "".join(class_src(c) + "\n" for c in self.asts)

    def coq_enums(self):
        out = []
        for n in sorted(G.ENUMS):
            cls = G.ENUMS[n]
            out.append("{| en_name := %s; en_by_value := %s; en_members := %s |}" % (
                E.pstr(n), E.blit(n in BY_VALUE),
                E.lst(["(%s, %s)" % (E.pstr(m.name), E.pval(E.reify(m.value))) for m in cls])))
        return "Definition ens0 : enums := %s." % E.lst(["\n  " + x for x in out])


FALSY = {"num": [("int", 0), ("flt", 0, 0)], "str": [("str", "")], "bool": [("bool", False)],
         "seqeach": None, "seqany": None, "mapkv": [("dict", [])], "set": None, "tuple": [("tuple", [])]}


def falsy_for(f):
    t = f["t"]
    if t == "num":
        return [("int", 0)] if f["k"] != "Float" else [("flt", 0, 0), ("int", 0)]
    if t == "str":
        return [("str", "")]
    if t == "bool":
        return [("bool", False)]
    if t in ("seqeach", "seqpos", "seqany"):
        return [("list" if f["k"] == "list" else "deque", [])]
    if t == "set":
        return [("set", bool(f.get("imm")), [])]
    if t == "tuple":
        return [("tuple", [])]
    if t in ("mapkv", "mapany"):
        return [("dict", [])]
    if t == "enumlit":
        return [v for v in f["values"] if v in (("int", 0), ("str", ""), ("bool", False))]
    if t == "enumcls":
        cls = G.ENUMS[f["cls"]]
        return [E.reify(cls[m]) for m in f["members"] if not cls[m].value]     # members whose VALUE is falsy
    if t in G.EXT and "falsy" in G.EXT[t]:
        return G.EXT[t]["falsy"](f)
    if t == "anyof":
        out = []
        for g in f["fs"]:
            out += falsy_for(g)
        return out
    return []


EXTRA_INJECT = False     # also inject inside Set items and homogeneous Tuple items (switched on by the C05 check)


def inject_falsy(rnd, f, v, p=0.35):
    """Replace sub-values by the falsy value of their position (validity is re-checked by construction)."""
    t = f["t"]
    if rnd.random() < p:
        c = falsy_for(f)
        if c:
            return rnd.choice(c)
    if t == "seqeach" and v[0] in ("list", "deque"):
        return (v[0], [inject_falsy(rnd, f["item"], x, p) for x in v[1]])
    if t in ("seqpos", "tuple") and v[0] in ("list", "deque", "tuple") and len(f["items"]) > 1:
        return (v[0], [inject_falsy(rnd, f["items"][i], x, p) if i < len(f["items"]) else x for i, x in enumerate(v[1])])
    if t == "mapkv" and v[0] == "dict":
        return G.mk_dict([(inject_falsy(rnd, f["kf"], k, p), inject_falsy(rnd, f["vf"], x, p)) for k, x in v[1]])
    if not EXTRA_INJECT:
        return v
    if t == "set" and f.get("item") and v[0] == "set" and falsy_for(f["item"]):
        return G.mk_set(v[1], [inject_falsy(rnd, f["item"], x, p) for x in v[2]])
    if t == "tuple" and v[0] == "tuple" and len(f["items"]) == 1 and falsy_for(f["items"][0]):
        return (v[0], [inject_falsy(rnd, f["items"][0], x, p) for x in v[1]])
    return v


# names (and frequency) of the additional properties given to instances of classes that allow them; a check may widen the
# pool (the defaults keep the generated stream of the other checks unchanged)
EXTRA_NAMES = ["x1", "x2", "zz"]
EXTRA_P = 0.15


def gen_instance(rnd, c, ctx, tries=10):
    """A valid instance of the realised class: (kwargs as reified list, real instance) or None."""
    cls = ctx.classes[c["name"]]
    req = c.get("required")
    for attempt in range(tries):
        kw = []
        for fd in c["fields"]:
            needed = req is None or fd["name"] in req
            if needed or rnd.random() < 0.65:
                f = fd["field"]
                v = G.gen_valid(rnd, f, ctx.instances)
                if attempt < tries // 2:
                    v = inject_falsy(rnd, f, v)
                kw.append((fd["name"], v))
            elif c.get("ignore_none") and rnd.random() < 0.5:
                kw.append((fd["name"], ("none",)))
        if c.get("additional") in (None, True) and rnd.random() < EXTRA_P:
            for xn in rnd.sample(EXTRA_NAMES, rnd.randint(1, 2)):
                kw.append((xn, rnd.choice([("int", 0), ("int", 7), ("str", ""), ("str", "extra"), ("bool", False),
                                           ("flt", 1, -1), ("list", [("int", 1), ("str", "a")]), ("list", []),
                                           ("dict", [(("str", "k"), ("int", 1))])])))
        try:
            x = cls(**{k: G.unreify(v, ctx.classes) for k, v in kw})
            # "valid instance": the stored state is itself accepted by the constructor (this excludes states
            # whose normalisation collapsed elements below minItems, a C01 matter, not a C05 one)
            again = cls(**{k: v for k, v in x.__dict__.items() if k not in S.INTERNAL})
            if again != x:
                continue
            return kw, x
        except Exception:  # noqa
            continue
    return None


def build_world(rnd, n_classes, max_depth=2, prefix="K", field_gen=None, ctx_cls=None, per_class=6):
    """Classes in layers (later ones may refer to earlier ones) with a pool of valid instances each."""
    ctx = (ctx_cls or SerContext)([])
    pools = {}
    i = 0
    guard = 0
    while i < n_classes and guard < n_classes * 4:
        guard += 1
        name = "%s%d" % (prefix, i)
        avail = [n for n in ctx.class_names() if ctx.instances.get(n)]
        wrapper = rnd.random() < 0.18
        c = gen_sclass(rnd, name, classes=avail if rnd.random() < 0.7 else (), wrapper=wrapper, max_depth=max_depth,
                       field_gen=field_gen)
        try:
            ctx.add(c)
        except Exception:  # noqa   declaration rejected by typedpy
            ctx.ns.pop(name, None)
            continue
        insts = []
        for _ in range(per_class):
            r = gen_instance(rnd, c, ctx)
            if r is not None:
                insts.append(r)
        if not insts:
            # keep the class in the environment (harmless), but it yields no cases
            i += 1
            continue
        pools[name] = insts
        ctx.instances[name] = [reify_o(x) for _, x in insts[:4]]
        i += 1
    return ctx, pools


# ------------------------------------------------------------------ localisation / classification

def subcases(f, v):
    from harness.props.c02 import subcases as sc
    return sc(f, v)


def field_kinds(f, acc=None):
    acc = acc if acc is not None else set()
    acc.add(f["t"])
    for key in ("item", "kf", "vf"):
        if isinstance(f.get(key), dict):
            field_kinds(f[key], acc)
    for key in ("items", "fs"):
        for g in f.get(key) or []:
            field_kinds(g, acc)
    return acc
