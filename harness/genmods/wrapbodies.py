"""wrapbodies: statement-by-statement transliteration of the wrapper methods of
typedpy/fields/collections_impl.py (_ListStruct / _DequeStruct / _DictStruct overrides of every mutator the
base types expose) into the statement language of coq/theories/Struct/WrapBody.v, rewritten on every run from
/repo's working tree into coq/theories/Gen/WrapBodies.v.

One constructor per source statement; the translator decides NOTHING about safety -- `classify` (Coq) does, on the
translated body, and the Python mirror below (`classify`) must agree with it (checked by the C03 harness on every
run).  Fail closed: a statement that is not literally one of the recognised forms becomes `SOther`, which no
classification accepts; an `if` is recognised only as the "wrapper belongs to an instance" test around the
re-assignment; a copy is recognised only as `self[:]`, `deque(self)` or `self.copy()` (the latter only when the
class's own `copy` has the recognised form)."""
import ast
import os

from harness import core
from harness import coqemit as E
from harness import gen as GEN

KIND_ID = {"list": 0, "deque": 1, "dict": 2}
AUG = {ast.Mult: "__imul__", ast.Add: "__iadd__", ast.BitOr: "__ior__", ast.Sub: "__isub__", ast.BitAnd: "__iand__",
       ast.BitXor: "__ixor__"}


def _is_self(e, selfname):
    return isinstance(e, ast.Name) and e.id == selfname


def _is_self_attr(e, selfname, attr):
    return isinstance(e, ast.Attribute) and e.attr == attr and _is_self(e.value, selfname)


def _is_super_call(e):
    return isinstance(e, ast.Call) and isinstance(e.func, ast.Name) and e.func.id == "super" and not e.args and not e.keywords


def _is_fieldname(e, selfname):
    """getattr(self._field_definition, "_name", None)"""
    return (isinstance(e, ast.Call) and isinstance(e.func, ast.Name) and e.func.id == "getattr" and len(e.args) == 3
            and not e.keywords and _is_self_attr(e.args[0], selfname, "_field_definition")
            and isinstance(e.args[1], ast.Constant) and e.args[1].value == "_name"
            and isinstance(e.args[2], ast.Constant) and e.args[2].value is None)


def _mentions(e, names):
    return any(isinstance(n, ast.Name) and n.id in names for n in ast.walk(e))


class BodyTr:
    def __init__(self, fn, copy_ok):
        self.fn = fn
        self.selfname = fn.args.args[0].arg if fn.args.args else "self"
        self.copy_ok = copy_ok          # is `self.copy()` a recognised copy for this class?
        self.copyvar = None

    def is_copy_expr(self, e):
        s = self.selfname
        if isinstance(e, ast.Subscript) and _is_self(e.value, s) and isinstance(e.slice, ast.Slice) \
                and e.slice.lower is None and e.slice.upper is None and e.slice.step is None:
            return True
        if isinstance(e, ast.Call) and isinstance(e.func, ast.Name) and e.func.id in ("deque", "list", "dict") \
                and len(e.args) == 1 and not e.keywords and _is_self(e.args[0], s):
            return True
        if isinstance(e, ast.Call) and isinstance(e.func, ast.Attribute) and e.func.attr == "copy" \
                and _is_self(e.func.value, s) and not e.args and not e.keywords:
            return self.copy_ok
        return False

    def args_clean(self, call):
        """Arguments of a call on the copy must not mention the copy or the wrapper itself."""
        bad = {self.copyvar, self.selfname}
        return not any(_mentions(a, bad) for a in list(call.args) + [k.value for k in call.keywords])

    def reassign_of(self, st):
        """setattr(self._instance, <field name>, X) as a statement -> ("copy" | kind name) or None"""
        if not (isinstance(st, ast.Expr) and isinstance(st.value, ast.Call)):
            return None
        c = st.value
        if not (isinstance(c.func, ast.Name) and c.func.id == "setattr" and len(c.args) == 3 and not c.keywords):
            return None
        if not (_is_self_attr(c.args[0], self.selfname, "_instance") and _is_fieldname(c.args[1], self.selfname)):
            return None
        v = c.args[2]
        if isinstance(v, ast.Name) and v.id == self.copyvar:
            return "copy"
        if isinstance(v, ast.List) and not v.elts:
            return "list"
        if isinstance(v, ast.Dict) and not v.keys:
            return "dict"
        if isinstance(v, ast.Call) and isinstance(v.func, ast.Name) and v.func.id == "deque" and not v.args and not v.keywords:
            return "deque"
        return None

    def bound_test(self, e):
        s = self.selfname
        if isinstance(e, ast.Call) and isinstance(e.func, ast.Name) and e.func.id == "getattr" and len(e.args) == 3 \
                and _is_self(e.args[0], s) and isinstance(e.args[1], ast.Constant) and e.args[1].value == "_instance" \
                and isinstance(e.args[2], ast.Constant) and e.args[2].value is None:
            return True
        return _is_self_attr(e, s, "_field_definition") or _is_self_attr(e, s, "_instance")

    def stmt(self, st):
        s = self.selfname
        if isinstance(st, ast.Expr) and isinstance(st.value, ast.Constant):
            return None                                    # docstring
        # guard
        if isinstance(st, ast.Expr) and isinstance(st.value, ast.Call):
            f = st.value.func
            if isinstance(f, ast.Attribute) and f.attr == "_raise_if_immutable" and not st.value.args \
                    and (_is_self(f.value, s) or _is_super_call(f.value)):
                return "SGuard"
        # copy
        if isinstance(st, ast.Assign) and len(st.targets) == 1 and isinstance(st.targets[0], ast.Name) \
                and self.is_copy_expr(st.value) and self.copyvar is None:
            self.copyvar = st.targets[0].id
            return "SCopy"
        cv = self.copyvar
        if cv is not None:
            # copied.m(...)  /  res = copied.m(...)
            call = None
            if isinstance(st, ast.Expr) and isinstance(st.value, ast.Call):
                call = st.value
            elif isinstance(st, ast.Assign) and len(st.targets) == 1 and isinstance(st.targets[0], ast.Name) \
                    and st.targets[0].id not in (cv, s) and isinstance(st.value, ast.Call):
                call = st.value
            if call is not None and isinstance(call.func, ast.Attribute) and isinstance(call.func.value, ast.Name) \
                    and call.func.value.id == cv and self.args_clean(call):
                return "(SApplyCopy %s)" % E.pstr(call.func.attr)
            if isinstance(st, ast.Assign) and len(st.targets) == 1 and isinstance(st.targets[0], ast.Subscript) \
                    and isinstance(st.targets[0].value, ast.Name) and st.targets[0].value.id == cv \
                    and not _mentions(st.value, {cv, s}) and not _mentions(st.targets[0].slice, {cv, s}):
                return "(SApplyCopy %s)" % E.pstr("__setitem__")
            if isinstance(st, ast.Delete) and len(st.targets) == 1 and isinstance(st.targets[0], ast.Subscript) \
                    and isinstance(st.targets[0].value, ast.Name) and st.targets[0].value.id == cv \
                    and not _mentions(st.targets[0].slice, {cv, s}):
                return "(SApplyCopy %s)" % E.pstr("__delitem__")
            if isinstance(st, ast.AugAssign) and isinstance(st.target, ast.Name) and st.target.id == cv \
                    and type(st.op) in AUG and not _mentions(st.value, {cv, s}):
                return "(SApplyCopy %s)" % E.pstr(AUG[type(st.op)])
        # re-assignment
        r = self.reassign_of(st)
        if r == "copy":
            return "(SReassign CAlways)"
        if r in KIND_ID:
            return "(SReassignEmpty %s)" % E.nlit(KIND_ID[r])
        if isinstance(st, ast.If) and not st.orelse and len(st.body) == 1 and self.reassign_of(st.body[0]) == "copy":
            return "(SReassign %s)" % ("CBound" if self.bound_test(st.test) else "COther")
        # super().m(...)
        if isinstance(st, ast.Expr) and isinstance(st.value, ast.Call) and isinstance(st.value.func, ast.Attribute) \
                and _is_super_call(st.value.func.value):
            return "(SApplySelf %s)" % E.pstr(st.value.func.attr)
        # return
        if isinstance(st, ast.Return):
            v = st.value
            if v is None or (isinstance(v, ast.Name) and v.id not in (s,)) or (isinstance(v, ast.Constant)):
                return "SReturn"
            if isinstance(v, ast.Call) and isinstance(v.func, ast.Name) and v.func.id == "getattr" and len(v.args) == 2 \
                    and _is_self_attr(v.args[0], s, "_instance") and _is_fieldname(v.args[1], s):
                return "SReturn"
        return "SOther"

    def body(self):
        # a decorated method, or one with defaults that are not constants, is not one of the recognised forms
        if self.fn.decorator_list:
            return ["SOther"]
        out = []
        for st in self.fn.body:
            r = self.stmt(st)
            if r is not None:
                out.append(r)
        return out


def _copy_method_ok(cls_node):
    """`copy` of the wrapper class: copied = super().copy() | deque(self); return deepcopy(copied) if
    self._is_immutable() else copied  -- i.e. it returns a new container."""
    for n in cls_node.body:
        if isinstance(n, ast.FunctionDef) and n.name == "copy":
            body = [s for s in n.body if not (isinstance(s, ast.Expr) and isinstance(s.value, ast.Constant))]
            if len(body) != 2 or not isinstance(body[0], ast.Assign) or not isinstance(body[1], ast.Return):
                return False
            a, r = body
            if not (len(a.targets) == 1 and isinstance(a.targets[0], ast.Name)):
                return False
            v = a.value
            fresh = (isinstance(v, ast.Call) and isinstance(v.func, ast.Attribute) and v.func.attr == "copy"
                     and _is_super_call(v.func.value) and not v.args) or \
                    (isinstance(v, ast.Call) and isinstance(v.func, ast.Name) and v.func.id in ("deque", "list", "dict")
                     and len(v.args) == 1 and isinstance(v.args[0], ast.Name))
            if not fresh:
                return False
            name = a.targets[0].id
            rv = r.value
            if isinstance(rv, ast.Name) and rv.id == name:
                return True
            if isinstance(rv, ast.IfExp):
                def ok(x):
                    return (isinstance(x, ast.Name) and x.id == name) or \
                        (isinstance(x, ast.Call) and isinstance(x.func, ast.Name) and x.func.id == "deepcopy"
                         and len(x.args) == 1 and isinstance(x.args[0], ast.Name) and x.args[0].id == name)
                return ok(rv.body) and ok(rv.orelse)
            return False
    return False            # inherited dict.copy / list.copy would do, but the wrappers define their own: fail closed


def bodies():
    """{kind: [(method, [stmt terms])]} for every mutator of the base type the wrapper class overrides."""
    path = os.path.join(core.REPO, "typedpy", "fields", "collections_impl.py")
    tree = ast.parse(open(path).read())
    out = {}
    for kind, base, wname in GEN.WRAPPERS:
        cls = GEN._class_node(tree, wname)
        if cls is None:
            raise RuntimeError("wrapper class %s not found in collections_impl.py" % wname)
        methods = {n.name: n for n in cls.body if isinstance(n, ast.FunctionDef)}
        copy_ok = _copy_method_ok(cls)
        rows = []
        for m in GEN.mutators_of(base):
            if m in methods:
                rows.append((m, BodyTr(methods[m], copy_ok).body()))
        out[kind] = rows
    return out


# ------------------------------------------------------------------ Python mirror of WrapBody.classify

def classify(kind, m, body):
    g = bool(body) and body[0] == "SGuard"
    b = body[1:] if g else list(body)
    tail_ok = lambda rest: all(x == "SReturn" or x.startswith("(SApplySelf ") for x in rest)
    if b and b[0] == "SCopy":
        t = b[1:]
        while t and t[0].startswith("(SApplyCopy "):
            t = t[1:]
        if t and t[0] in ("(SReassign CAlways)", "(SReassign CBound)") and tail_ok(t[1:]):
            return "(CopyMutateReassign %s)" % E.blit(g)
        return "Unrecognised"
    if b and b[0] == "(SReassignEmpty %s)" % E.nlit(KIND_ID[kind]) and m == "clear" and tail_ok(b[1:]):
        return "(CopyMutateReassign %s)" % E.blit(g)
    if g and len(b) == 1 and b[0] == "(SApplySelf %s)" % E.pstr(m):
        return "GuardThenInPlace"
    return "Unrecognised"


def _safe(s):
    return s.startswith("(CopyMutateReassign")


def strict_tables(t=None, bd=None):
    """GEN.tables() refined by the classification of the translated bodies (mirror of WrapBody.refine)."""
    t = t or GEN.tables()
    bd = bd or bodies()
    out = dict(t)
    for kind in ("list", "deque", "dict"):
        by = dict(bd[kind])
        rows = []
        for m, s in t[kind]:
            if m in by:
                s2 = classify(kind, m, by[m])
                s = s if (_safe(s) and _safe(s2)) or not _safe(s) else s2
            rows.append((m, s))
        out[kind] = rows
    return out


def render(bd):
    lines = ["(* GENERATED by harness/genmods/wrapbodies.py from /repo/typedpy/fields/collections_impl.py. Do not edit.",
             "   One term per source statement of every wrapper method that overrides a mutator of its base type. *)",
             "From Coq Require Import List String NArith. Import ListNotations.",
             "From TP Require Import Base.PyVal Struct.WrapBody.", "Local Open Scope string_scope.", ""]
    for kind in ("list", "deque", "dict"):
        rows = ["(%s,\n     [%s])" % (E.pstr(m), "; ".join(b)) for m, b in bd[kind]]
        lines.append("Definition %s_bodies : body_table :=\n  [ %s ]." % (kind, ";\n    ".join(rows)))
        lines.append("")
    return "\n".join(lines) + "\n"


def regenerate():
    core.write_if_changed(os.path.join(core.COQDIR, "theories", "Gen", "WrapBodies.v"), render(bodies()))
