"""Gen/GuardProgs.v (property C18): the validation chain of every concrete scalar field class of typedpy,
translated into the guard language of coq/theories/Errors/Guard.v.

For a concrete class K (e.g. PositiveInt) the chain is what `K().__set__(instance, value)` executes up to
Field.__set__: the translator follows K's REAL method resolution order (introspection of the imported
classes), reads each `__set__` / `_validate` / `_validate_static` from the working tree's source, and inlines
`self._validate(v)`, `super()._validate(v)`, `super().__set__(instance, v)` and `Cls._validate_static(self, v)`
by resolving them as Python does.  Each `raise` statement becomes `PRaise <id of its template in
Gen/Templates.v>`; each guard expression is translated operator by operator (isinstance, comparison,
`in` on a display / on a run-time container, len, float(), %, `is`, truthiness, the compiled-pattern
match).  `try: <guards> except X: <... raise>` becomes `PCatch X <handler> <guards and what follows>`.
`getattr(instance, "_skip_validation" | "_trust_supplied_values", False)` is the constant False of
an instance under ordinary construction and is folded.

Fails closed: a statement or expression outside the fragment becomes `PUnknown`, which no analysis accepts
and whose evaluation is `Bare Unmodelled`."""
import ast
import inspect
import os
import sys

from harness import core
from harness import coqemit as E
from harness.genmods import templates as T
from harness.genmods.py2v import Tr as _Py2vTr, _is_enum_base

KNOWN_CLASSES = {"int": "K_int", "float": "K_float", "Decimal": "K_Decimal", "str": "K_str", "bool": "K_bool",
                 "list": "K_list", "deque": "K_deque", "tuple": "K_tuple", "set": "K_set",
                 "frozenset": "K_frozenset", "dict": "K_dict"}
EXNS = {"TypeError", "ValueError", "IndexError", "KeyError", "AttributeError", "OverflowError",
        "ZeroDivisionError", "NotImplementedError", "RuntimeError"}
INSTANCE_FLAGS = {"_skip_validation", "_trust_supplied_values"}

CHAIN_CLASSES = ["Number", "Positive", "Negative", "NonPositive", "NonNegative",
                 "Integer", "PositiveInt", "NegativeInt", "NonPositiveInt", "NonNegativeInt",
                 "Float", "PositiveFloat", "NegativeFloat", "NonPositiveFloat", "NonNegativeFloat",
                 "String", "Boolean"]


class Unsupported(Exception):
    pass


_trees = {}


def _tree(path):
    if path not in _trees:
        _trees[path] = ast.parse(open(path).read())
    return _trees[path]


def _rel(path):
    return os.path.relpath(path, os.path.join(core.REPO, "typedpy"))


def _class_file(cls):
    path = inspect.getsourcefile(cls)
    if path is None or not os.path.abspath(path).startswith(os.path.abspath(core.REPO) + os.sep):
        raise Unsupported("class %s is not defined in the working tree" % cls.__name__)
    return path


def _fn_node(owner, name):
    """(path, FunctionDef) of method `name` defined in class `owner` itself."""
    path = _class_file(owner)
    for n in _tree(path).body:
        if isinstance(n, ast.ClassDef) and n.name == owner.__name__:
            for m in n.body:
                if isinstance(m, ast.FunctionDef) and m.name == name:
                    return path, m
    raise Unsupported("%s.%s not found in %s" % (owner.__name__, name, path))


def _module_fn(path, name):
    for n in _tree(path).body:
        if isinstance(n, ast.FunctionDef) and n.name == name:
            return n
    raise Unsupported("function %s not found in %s" % (name, path))


def _resolve(cls, name, after=None):
    """The class of cls.__mro__ (strictly after `after`, if given) that defines `name` itself."""
    mro = list(cls.__mro__)
    if after is not None:
        mro = mro[mro.index(after) + 1:]
    for c in mro:
        if name in c.__dict__:
            return c
    raise Unsupported("no %s after %s in the MRO of %s" % (name, after, cls.__name__))


class Scope:
    """One function activation: names -> gval terms, local helpers, dict displays."""

    def __init__(self, owner, path, names, on_return=None):
        self.owner = owner          # class that defines the function (None for a module function)
        self.path = path
        self.names = dict(names)
        self.helpers = {}
        self.dicts = {}
        self.on_return = on_return  # (nvars, gval term) -> program, for a method called for its value


class Chain:
    def __init__(self, cls, tids, class_params=None):
        self.cls = cls
        self.tids = tids            # (rel file, line) -> template id
        self.class_params = class_params or {}    # parameter name -> Gallina pyclass (specialisation)
        self.attrs = set()
        self.depth = 0

    # ------------------------------------------------------------- constants
    @staticmethod
    def const(c):
        if c is None or isinstance(c, (bool, int, str)):
            return "(GConst %s)" % E.pval(E.reify(c))
        raise Unsupported("constant %r" % (c,))

    # ------------------------------------------------------------- value expressions
    def val(self, e, sc):
        if isinstance(e, ast.Name):
            if e.id in sc.names:
                return sc.names[e.id]
            raise Unsupported("free name %s" % e.id)
        if isinstance(e, ast.Attribute) and isinstance(e.value, ast.Name) and e.value.id == "self":
            self.attrs.add(e.attr)
            return "(GAttr %s)" % E.pstr(e.attr)
        if isinstance(e, ast.Constant):
            return self.const(e.value)
        if isinstance(e, ast.UnaryOp) and isinstance(e.op, ast.USub) and isinstance(e.operand, ast.Constant) \
                and isinstance(e.operand.value, int):
            return self.const(-e.operand.value)
        if isinstance(e, ast.Call) and isinstance(e.func, ast.Name) and len(e.args) == 1 and not e.keywords:
            if e.func.id == "len":
                return "(GLen %s)" % self.val(e.args[0], sc)
            if e.func.id == "float":
                return "(GToFloat %s)" % self.val(e.args[0], sc)
        if isinstance(e, (ast.SetComp, ast.ListComp)) and len(e.generators) == 1:
            g = e.generators[0]
            if (not g.ifs and not g.is_async and isinstance(g.target, ast.Name) and isinstance(e.elt, ast.Attribute)
                    and e.elt.attr == "name" and isinstance(e.elt.value, ast.Name) and e.elt.value.id == g.target.id):
                return "(GNames %s %s)" % (E.blit(isinstance(e, ast.SetComp)), self.val(g.iter, sc))
        if isinstance(e, ast.IfExp):
            # D[x] if x in D else x   with D a dict display bound to a local
            t = e.test
            if (isinstance(t, ast.Compare) and len(t.ops) == 1 and isinstance(t.ops[0], ast.In)
                    and isinstance(t.comparators[0], ast.Name) and t.comparators[0].id in sc.dicts
                    and isinstance(e.body, ast.Subscript) and isinstance(e.body.value, ast.Name)
                    and e.body.value.id == t.comparators[0].id
                    and ast.dump(e.body.slice) == ast.dump(t.left) and ast.dump(e.orelse) == ast.dump(t.left)):
                return "(GLitGetOr %s %s)" % (self.dict_display(sc.dicts[t.comparators[0].id]), self.val(t.left, sc))
        if (isinstance(e, ast.Call) and isinstance(e.func, ast.Attribute) and e.func.attr == "get"
                and isinstance(e.func.value, ast.Name) and e.func.value.id in sc.dicts and len(e.args) == 2
                and not e.keywords and ast.dump(e.args[0]) == ast.dump(e.args[1])):
            # D.get(x, x) hashes x and falls back to x: the same as  D[x] if x in D else x
            return "(GLitGetOr %s %s)" % (self.dict_display(sc.dicts[e.func.value.id]), self.val(e.args[0], sc))
        if isinstance(e, ast.Call) and isinstance(e.func, ast.Name) and e.func.id == "reduce":
            if len(e.args) == 3 and isinstance(e.args[0], ast.Lambda) and isinstance(e.args[2], ast.List) \
                    and not e.args[2].elts and _Py2vTr._is_accumulate_unique(e.args[0]):
                return "(GUnique %s)" % self.val(e.args[1], sc)
        raise Unsupported("value expression %s" % ast.dump(e)[:80])

    @staticmethod
    def dict_display(d):
        kv = []
        for k, v in zip(d.keys, d.values):
            if not (isinstance(k, ast.Constant) and isinstance(v, ast.Constant)):
                raise Unsupported("non-literal dict display")
            kv.append("(%s, %s)" % (E.pval(E.reify(k.value)), E.pval(E.reify(v.value))))
        return E.lst(kv)

    @staticmethod
    def guarded_getor(v):
        """D[x] if (C1 and ... and x in D) else x   ->   (And(C1..), the plain `D[x] if x in D else x`): when the
        other conjuncts hold the two expressions are the same, when one fails both are x."""
        t = v.test
        if (isinstance(v, ast.IfExp) and isinstance(t, ast.BoolOp) and isinstance(t.op, ast.And) and len(t.values) >= 2
                and isinstance(t.values[-1], ast.Compare) and len(t.values[-1].ops) == 1
                and isinstance(t.values[-1].ops[0], ast.In)):
            rest = t.values[:-1]
            guard = rest[0] if len(rest) == 1 else ast.BoolOp(op=ast.And(), values=rest)
            return guard, ast.IfExp(test=t.values[-1], body=v.body, orelse=v.orelse)
        return None

    @staticmethod
    def is_condition(v):
        return isinstance(v, (ast.Compare, ast.BoolOp)) or (isinstance(v, ast.UnaryOp) and isinstance(v.op, ast.Not)) \
            or (isinstance(v, ast.Call) and isinstance(v.func, ast.Name) and v.func.id == "isinstance")

    # ------------------------------------------------------------- conditions
    def classes(self, e, sc):
        if isinstance(e, ast.Name) and e.id in self.class_params:
            return [self.class_params[e.id]]
        if isinstance(e, ast.Name) and e.id in KNOWN_CLASSES:
            return [KNOWN_CLASSES[e.id]]
        if isinstance(e, ast.Tuple):
            out = []
            for x in e.elts:
                out += self.classes(x, sc)
            return out
        if isinstance(e, ast.Attribute) and isinstance(e.value, ast.Name) and e.value.id == "self":
            # a class-level constant of the concrete class (TypedField._ty)
            ty = inspect.getattr_static(self.cls, e.attr, None)
            if isinstance(ty, type) and ty.__name__ in KNOWN_CLASSES and ty.__module__ in ("builtins", "decimal", "collections"):
                return [KNOWN_CLASSES[ty.__name__]]
            raise Unsupported("isinstance against self.%s = %r" % (e.attr, ty))
        raise Unsupported("isinstance against %s" % ast.dump(e)[:60])

    def const_of(self, r):
        if isinstance(r, ast.Constant) and (r.value is None or r.value is True or r.value is False):
            return E.pval(E.reify(r.value))
        return None

    def cond(self, e, sc):
        if isinstance(e, ast.BoolOp):
            op = "CAnd" if isinstance(e.op, ast.And) else "COr"
            terms = [self.cond(v, sc) for v in e.values]
            out = terms[-1]
            for t in reversed(terms[:-1]):
                out = fold(op, t, out)
            return out
        if isinstance(e, ast.UnaryOp) and isinstance(e.op, ast.Not):
            return fold("CNot", self.cond(e.operand, sc))
        if isinstance(e, ast.Compare):
            if len(e.ops) != 1:
                raise Unsupported("chained comparison")
            op, r = e.ops[0], e.comparators[0]
            if isinstance(op, (ast.Is, ast.IsNot)):
                k = self.const_of(r)
                if k is None:
                    raise Unsupported("identity test against a non-singleton")
                t = "(CIs %s %s)" % (self.val(e.left, sc), k)
                return t if isinstance(op, ast.Is) else fold("CNot", t)
            if isinstance(op, (ast.In, ast.NotIn)):
                x = self.val(e.left, sc)
                if isinstance(r, (ast.Tuple, ast.List)):
                    k = "(KScan %s)" % E.lst([self.lit(c) for c in r.elts])
                elif isinstance(r, ast.Set):
                    k = "(KHashed false %s)" % E.lst([self.lit(c) for c in r.elts])
                elif isinstance(r, ast.Name) and r.id in sc.dicts:
                    k = "(KHashed true %s)" % E.lst([self.lit(c) for c in sc.dicts[r.id].keys])
                else:
                    k = "(KExpr %s)" % self.val(r, sc)
                t = "(CIn %s %s)" % (x, k)
                return t if isinstance(op, ast.In) else fold("CNot", t)
            # int(a / b) != a / b
            if (isinstance(op, ast.NotEq) and isinstance(e.left, ast.Call) and isinstance(e.left.func, ast.Name)
                    and e.left.func.id == "int" and len(e.left.args) == 1 and isinstance(e.left.args[0], ast.BinOp)
                    and isinstance(e.left.args[0].op, ast.Div) and ast.dump(e.left.args[0]) == ast.dump(r)):
                return "(CDivNotInt %s %s)" % (self.val(r.left, sc), self.val(r.right, sc))
            o = {ast.Lt: "OLt", ast.LtE: "OLe", ast.Gt: "OGt", ast.GtE: "OGe", ast.Eq: "OEq", ast.NotEq: "ONe"}.get(type(op))
            if o is None:
                raise Unsupported("comparison operator")
            return "(CCmp %s %s %s)" % (o, self.val(e.left, sc), self.val(r, sc))
        if isinstance(e, ast.Call):
            f = e.func
            if isinstance(f, ast.Name) and f.id == "isinstance" and len(e.args) == 2 and not e.keywords \
                    and _is_enum_base(e.args[1]):
                return "(CIsEnum %s)" % self.val(e.args[0], sc)      # isinstance(x, enum.Enum)
            if isinstance(f, ast.Name) and f.id == "any" and len(e.args) == 1 and not e.keywords \
                    and isinstance(e.args[0], ast.GeneratorExp):
                # any(<x> is <v> for <v> in <container>): identity with one of the elements
                g = e.args[0]
                c = g.generators[0]
                t = g.elt
                if len(g.generators) != 1 or c.ifs or c.is_async or not isinstance(c.target, ast.Name) \
                        or not (isinstance(t, ast.Compare) and len(t.ops) == 1 and isinstance(t.ops[0], ast.Is)
                                and isinstance(t.comparators[0], ast.Name) and t.comparators[0].id == c.target.id) \
                        or any(isinstance(n, ast.Name) and n.id == c.target.id for n in ast.walk(t.left)) \
                        or any(isinstance(n, ast.Name) and n.id == c.target.id for n in ast.walk(c.iter)):
                    raise Unsupported("any() other than any(<x> is <v> for <v> in <container>)")
                return "(CAnyIs %s %s)" % (self.val(t.left, sc), self.val(c.iter, sc))
            if isinstance(f, ast.Name) and f.id == "isinstance" and len(e.args) == 2 and not e.keywords:
                return "(CIsInst %s %s)" % (self.val(e.args[0], sc), E.lst(self.classes(e.args[1], sc)))
            if isinstance(f, ast.Name) and f.id == "getattr" and len(e.args) == 3 and isinstance(e.args[0], ast.Name) \
                    and e.args[0].id == "instance" and isinstance(e.args[1], ast.Constant) \
                    and e.args[1].value in INSTANCE_FLAGS and isinstance(e.args[2], ast.Constant) and e.args[2].value is False:
                return "(CConst false)"
            if isinstance(f, ast.Name) and f.id in sc.helpers and not e.keywords:
                argn, body = sc.helpers[f.id]
                if len(argn) != len(e.args):
                    raise Unsupported("helper arity")
                inner = Scope(sc.owner, sc.path, sc.names)
                inner.helpers, inner.dicts = sc.helpers, sc.dicts
                for n, x in zip(argn, e.args):
                    inner.names[n] = self.val(x, sc)
                return self.cond(body, inner)
            if isinstance(f, ast.Attribute) and f.attr == "match" and isinstance(f.value, ast.Attribute) \
                    and isinstance(f.value.value, ast.Name) and f.value.value.id == "self" \
                    and f.value.attr == "_compiled_pattern" and len(e.args) == 1 and not e.keywords:
                return "(CReMatch %s)" % self.val(e.args[0], sc)
        if isinstance(e, ast.BinOp) and isinstance(e.op, ast.Mod):
            return "(CMod %s %s)" % (self.val(e.left, sc), self.val(e.right, sc))
        return "(CTruthy %s)" % self.val(e, sc)

    def lit(self, c):
        if isinstance(c, ast.Constant) and (c.value is None or isinstance(c.value, (bool, int, str))):
            return E.pval(E.reify(c.value))
        raise Unsupported("non-literal element of a display")

    # ------------------------------------------------------------- statements
    def raise_site(self, s, sc):
        x = s.exc
        if isinstance(x, ast.Call):
            x = x.func
        name = x.id if isinstance(x, ast.Name) else None
        tid = self.tids.get((_rel(sc.path), s.lineno))
        if name is None or tid is None:
            raise Unsupported("raise statement at %s:%d" % (_rel(sc.path), s.lineno))
        exn = name if name in EXNS else "(OtherExn %s)" % E.pstr(name)
        return "(PRaise %s %s)" % (E.nlit(tid), exn)

    def stmts(self, body, sc, nvars, k):
        """body in continuation form.  k(nvars) -> program for what follows this function's body."""
        if not body:
            return k(nvars)
        s, rest = body[0], body[1:]
        go = lambda n: self.stmts(rest, sc, n, k)
        try:
            if isinstance(s, ast.Expr) and isinstance(s.value, ast.Constant):
                return go(nvars)
            if isinstance(s, ast.Pass):
                return go(nvars)
            if isinstance(s, ast.FunctionDef):
                b = [x for x in s.body if not (isinstance(x, ast.Expr) and isinstance(x.value, ast.Constant))]
                if len(b) == 1 and isinstance(b[0], ast.Return) and b[0].value is not None \
                        and not s.args.kwonlyargs and not s.args.vararg and not s.args.kwarg:
                    if not _Py2vTr._is_text(b[0].value):
                        sc.helpers[s.name] = ([a.arg for a in s.args.args], b[0].value)
                    return go(nvars)
                raise Unsupported("local def %s" % s.name)
            if isinstance(s, ast.Raise) and s.exc is not None:
                return self.raise_site(s, sc)
            if isinstance(s, ast.Return) and s.value is None:
                return k(nvars)
            if isinstance(s, ast.Return) and sc.on_return is not None:
                # `return e` of a method inlined for its value: a new local holds e, the caller goes on with it
                if isinstance(s.value, ast.IfExp) and not self._is_getor(s.value, sc):
                    c, a, b = self.cond(s.value.test, sc), self.val(s.value.body, sc), self.val(s.value.orelse, sc)
                else:
                    c, a, b = "(CConst true)", self.val(s.value, sc), "(GConst PNone)"
                return "(PLet %s %s %s\n %s)" % (c, a, b, sc.on_return(nvars + 1, "(GVar %d)" % nvars))
            if isinstance(s, ast.If):
                c = self.cond(s.test, sc)
                if c == "(CConst true)":
                    return self.stmts(list(s.body) + rest, sc, nvars, k)
                if c == "(CConst false)":
                    return self.stmts(list(s.orelse) + rest, sc, nvars, k)
                th = self.stmts(list(s.body) + rest, sc, nvars, k)
                el = self.stmts(list(s.orelse) + rest, sc, nvars, k)
                return "(PIf %s\n %s\n %s)" % (c, th, el)
            if isinstance(s, ast.Assign) and len(s.targets) == 1 and isinstance(s.targets[0], ast.Name):
                name = s.targets[0].id
                if isinstance(s.value, ast.Dict):
                    sc.dicts[name] = s.value
                    return go(nvars)
                v = s.value
                if self._is_method_call(v):
                    # name = self.method(args): the method is inlined; each of its `return e` continues here
                    def after(n, term, name=name):
                        saved = dict(sc.names)
                        sc.names[name] = term
                        try:
                            return self.stmts(rest, sc, n, k)
                        finally:
                            sc.names = saved
                    return self.call_value(v, sc, nvars, after)
                g = self.guarded_getor(v) if isinstance(v, ast.IfExp) else None
                if g is not None and self._is_getor(g[1], sc) and ast.dump(g[1].orelse) == ast.dump(v.orelse):
                    c, a, b = self.cond(g[0], sc), self.val(g[1], sc), self.val(v.orelse, sc)
                elif isinstance(v, ast.IfExp) and not self._is_getor(v, sc):
                    c, a, b = self.cond(v.test, sc), self.val(v.body, sc), self.val(v.orelse, sc)
                elif self.is_condition(v):
                    # a local that holds the truth value of a guard
                    c, a, b = self.cond(v, sc), "(GConst (PBool true))", "(GConst (PBool false))"
                else:
                    c, a, b = "(CConst true)", self.val(v, sc), "(GConst PNone)"
                saved = dict(sc.names)
                sc.names[name] = "(GVar %d)" % nvars
                try:
                    kk = self.stmts(rest, sc, nvars + 1, k)
                finally:
                    sc.names = saved
                return "(PLet %s %s %s\n %s)" % (c, a, b, kk)
            if isinstance(s, ast.Try) and len(s.handlers) == 1 and not s.orelse and not s.finalbody \
                    and isinstance(s.handlers[0].type, ast.Name) \
                    and not (len(s.body) == 1 and s.handlers[0].type.id in EXNS
                             and ((isinstance(s.body[0], ast.Return) and s.body[0].value is not None and sc.on_return is not None)
                                  or (isinstance(s.body[0], ast.Assign) and len(s.body[0].targets) == 1
                                      and isinstance(s.body[0].targets[0], ast.Name)
                                      and not self._is_method_call(s.body[0].value)))):
                # try: <block of guards>  except X [as ex]: <statements ending in a raise>  ->  PCatch X <handler> <block; rest>.
                # Continuation form: the statements after the `try` are inside the guarded program too; no operator of
                # the guard language raises an exception class other than those of EXNS by itself, and the analysis
                # (gsafe) accepts a PCatch only when its guarded program raises nothing by itself at all.
                h = s.handlers[0]
                x = h.type.id if h.type.id in EXNS else "(OtherExn %s)" % E.pstr(h.type.id)
                hprog = self.stmts(h.body, sc, nvars, lambda n: "PUnknown")
                body = self.stmts(list(s.body) + rest, sc, nvars, k)
                return "(PCatch %s\n %s\n %s)" % (x, hprog, body)
            if isinstance(s, ast.Try) and len(s.handlers) == 1 and not s.orelse and not s.finalbody and len(s.body) == 1 \
                    and isinstance(s.handlers[0].type, ast.Name) and s.handlers[0].type.id in EXNS:
                # try: <one binding or return>  except X [as ex]: <statements ending in a raise>
                h = s.handlers[0]
                hprog = self.stmts(h.body, sc, nvars, lambda n: "PUnknown")
                b = s.body[0]
                if isinstance(b, ast.Return) and b.value is not None and sc.on_return is not None:
                    a = self.val(b.value, sc)
                    return "(PTry %s %s\n %s\n %s)" % (a, h.type.id, hprog, sc.on_return(nvars + 1, "(GVar %d)" % nvars))
                if isinstance(b, ast.Assign) and len(b.targets) == 1 and isinstance(b.targets[0], ast.Name) \
                        and not self._is_method_call(b.value):
                    a = self.val(b.value, sc)
                    saved = dict(sc.names)
                    sc.names[b.targets[0].id] = "(GVar %d)" % nvars
                    try:
                        kk = self.stmts(rest, sc, nvars + 1, k)
                    finally:
                        sc.names = saved
                    return "(PTry %s %s\n %s\n %s)" % (a, h.type.id, hprog, kk)
                raise Unsupported("try statement")
            if isinstance(s, ast.Expr) and isinstance(s.value, ast.Call):
                return self.call(s.value, sc, nvars, go)
        except Unsupported as ex:
            self.notes.append(str(ex))
            return "PUnknown"
        self.notes.append("statement %s" % ast.dump(s)[:80])
        return "PUnknown"

    @staticmethod
    def _is_method_call(v):
        return (isinstance(v, ast.Call) and isinstance(v.func, ast.Attribute) and not v.keywords
                and ((isinstance(v.func.value, ast.Name) and v.func.value.id == "self")
                     or (isinstance(v.func.value, ast.Call) and isinstance(v.func.value.func, ast.Name)
                         and v.func.value.func.id == "super" and not v.func.value.args))
                and v.func.attr not in ("_validate", "_validate_static", "__set__"))

    def call_value(self, c, sc, nvars, after):
        f = c.func
        is_super = isinstance(f.value, ast.Call)
        if sc.owner is None and is_super:
            raise Unsupported("super() outside a class")
        owner = _resolve(self.cls, f.attr, after=sc.owner if is_super else None)
        args = [self.val(a, sc) for a in c.args]
        self.depth += 1
        if self.depth > 80:
            raise Unsupported("call depth")
        try:
            path, node = _fn_node(owner, f.attr)
            params = [a.arg for a in node.args.args]
            if params[:1] != ["self"] or node.args.vararg or node.args.kwarg or node.args.kwonlyargs \
                    or len(params) - 1 != len(args):
                raise Unsupported("signature of %s.%s" % (owner.__name__, f.attr))
            callee = Scope(owner, path, dict(zip(params[1:], args)), on_return=after)
            # falling off the end returns None
            return self.stmts(node.body, callee, nvars,
                              lambda n: "(PLet (CConst true) (GConst PNone) (GConst PNone)\n %s)" % after(n + 1, "(GVar %d)" % n))
        finally:
            self.depth -= 1

    def _is_getor(self, v, sc):
        try:
            return self.val(v, sc).startswith("(GLitGetOr")
        except Unsupported:
            return False

    def call(self, c, sc, nvars, go):
        """A call statement that continues the chain.  go(nvars) -> program for the rest of the caller."""
        f = c.func
        if c.keywords or not isinstance(f, ast.Attribute):
            raise Unsupported("call %s" % ast.dump(c)[:80])
        recv = f.value
        is_super = isinstance(recv, ast.Call) and isinstance(recv.func, ast.Name) and recv.func.id == "super" and not recv.args
        is_self = isinstance(recv, ast.Name) and recv.id == "self"
        if f.attr == "__set__" and is_super and len(c.args) == 2:
            if sc.owner is None:
                raise Unsupported("super() outside a class")
            owner = _resolve(self.cls, "__set__", after=sc.owner)
            arg = self.val(c.args[1], sc)
            if owner.__name__ == "Field" and owner.__module__.startswith("typedpy.structures"):
                if not arg.startswith("(GVar "):
                    raise Unsupported("Field.__set__ of a non-local")
                return "(PDone %s)" % arg[6:-1]      # the chain ends; nothing after the store is a validation
            return self.inline(owner, "__set__", [None, arg], nvars, go)
        if f.attr in ("_validate", "_validate_static") and (is_super or is_self) and len(c.args) == 1:
            owner = _resolve(self.cls, f.attr, after=sc.owner if is_super else None)
            return self.inline(owner, f.attr, [self.val(c.args[0], sc)], nvars, go)
        if f.attr in ("_validate", "_validate_static") and isinstance(recv, ast.Name) and len(c.args) == 2 \
                and isinstance(c.args[0], ast.Name) and c.args[0].id == "self":
            mod = sys.modules[sc.owner.__module__] if sc.owner is not None else None
            owner = getattr(mod, recv.id, None)
            if not (isinstance(owner, type) and owner in self.cls.__mro__ and f.attr in owner.__dict__):
                raise Unsupported("explicit call of %s.%s" % (recv.id, f.attr))
            return self.inline(owner, f.attr, [self.val(c.args[1], sc)], nvars, go)
        raise Unsupported("call %s" % ast.dump(c)[:80])

    def inline(self, owner, name, args, nvars, go):
        self.depth += 1
        if self.depth > 80:
            raise Unsupported("call depth")
        try:
            path, node = _fn_node(owner, name)
            params = [a.arg for a in node.args.args]
            if params[:1] != ["self"] or node.args.vararg or node.args.kwarg or node.args.kwonlyargs:
                raise Unsupported("signature of %s.%s" % (owner.__name__, name))
            params = params[1:]
            if len(params) != len(args):
                raise Unsupported("arity of %s.%s" % (owner.__name__, name))
            names = {p: a for p, a in zip(params, args) if a is not None}
            callee = Scope(owner, path, names)
            return self.stmts(node.body, callee, nvars, go)
        finally:
            self.depth -= 1

    # ------------------------------------------------------------- entry points
    def chain(self, entry):
        self.notes = []
        owner = _resolve(self.cls, entry)
        args = [None, "(GVar 0)"] if entry == "__set__" else ["(GVar 0)"]
        # falling off the end of an entry function that is not __set__: accepted, the value is unchanged
        return self.inline(owner, entry, args, 1, lambda n: "(PDone 0)")

    def function(self, path, name, params):
        """A module-level or unbound function: params = [(python name, 'var' | 'ignore' | 'class')]."""
        self.notes = []
        node = _module_fn(path, name) if isinstance(name, str) else name
        pyargs = [a.arg for a in node.args.args]
        if pyargs[:1] == ["self"]:
            pyargs = pyargs[1:]
        if pyargs != [p for p, _ in params]:
            raise Unsupported("parameters of %s are %s" % (node.name, pyargs))
        names = {}
        n = 0
        for p, kind in params:
            if kind == "var":
                names[p] = "(GVar %d)" % n
                n += 1
        sc = Scope(None, path, names)
        return self.stmts(node.body, sc, n, lambda m: "(PDone 0)")


def fold(op, *ts):
    """Constant folding of the connectives (only constants introduced by the instance flags occur)."""
    if op == "CNot":
        t = ts[0]
        return {"(CConst true)": "(CConst false)", "(CConst false)": "(CConst true)"}.get(t, "(CNot %s)" % t)
    a, b = ts
    if op == "CAnd":
        if a == "(CConst true)":
            return b
        if a == "(CConst false)":
            return a
        if b == "(CConst true)":
            return a
    if op == "COr":
        if a == "(CConst false)":
            return b
        if a == "(CConst true)":
            return a
        if b == "(CConst false)":
            return a
    return "(%s %s %s)" % (op, a, b)


def _typedpy():
    import typedpy
    return typedpy


def entries():
    """[(name, kind, program text, attrs, nparams, notes)]"""
    tp = _typedpy()
    tids = {(t["file"], t["line"]): t["id"] for t in T.templates()}
    out = []

    def add(name, kind, mk, nparams=1):
        ch = None
        try:
            ch, prog = mk()
            out.append((name, kind, prog, sorted(ch.attrs), nparams, list(ch.notes)))
        except (Unsupported, OSError, SyntaxError, AttributeError, ValueError, ImportError, TypeError) as ex:
            out.append((name, kind, "PUnknown", [], nparams, ["not translatable: %s" % ex]))

    for cname in CHAIN_CLASSES:
        def mk(cname=cname):
            ch = Chain(getattr(tp, cname), tids)
            return ch, ch.chain("__set__")
        add(cname + ".__set__", "chain", mk)

    def mk_enum():
        ch = Chain(tp.Enum, tids)
        return ch, ch.chain("_validate")
    add("Enum._validate", "validate", mk_enum)

    def mk_size():
        from typedpy.fields.collections_impl import SizedCollection
        ch = Chain(SizedCollection, tids)
        path, node = _fn_node(SizedCollection, "validate_size")
        return ch, ch.function(path, node, [("items", "var"), ("name", "ignore")])
    add("SizedCollection.validate_size", "function", mk_size)

    for ty in ("list", "deque", "tuple"):
        def mk_vtu(ty=ty):
            import importlib
            FF = importlib.import_module("typedpy.fields.fields")
            ch = Chain(object, tids, class_params={"the_type": KNOWN_CLASSES[ty]})
            path = inspect.getsourcefile(FF)
            return ch, ch.function(path, "verify_type_and_uniqueness",
                                   [("the_type", "class"), ("value", "var"), ("name", "ignore"), ("has_unique_items", "var")])
        add("verify_type_and_uniqueness[%s]" % ty, "function", mk_vtu, nparams=2)
    return out


def render(ents):
    lines = ["(* GENERATED by harness/genmods/guard_progs.py from the working tree of typedpy (MRO of the imported",
             "   classes + source of every __set__ / _validate / _validate_static on the way).  Do not edit. *)",
             "From Coq Require Import ZArith NArith List String. Import ListNotations.",
             "From TP Require Import Base.PyVal Base.PyOps Errors.Guard.", "Local Open Scope string_scope.", "",
             "Record gentry := { g_name : pystr; g_attrs : list pystr; g_nparams : nat; g_prog : gprog }.", ""]
    names = []
    for i, (name, kind, prog, attrs, nparams, notes) in enumerate(ents):
        ident = "gp_%d" % i
        names.append(ident)
        lines.append("(* %s%s *)" % (name, "".join("\n   note: " + n.replace("*)", "* )").replace("(*", "( *") for n in notes)))
        lines.append("Definition %s : gentry :=\n  {| g_name := %s; g_attrs := %s; g_nparams := %s; g_prog :=\n %s |}." % (
            ident, E.pstr(name), E.lst([E.pstr(a) for a in attrs]), E.natlit(nparams), prog))
        lines.append("")
    lines.append("Definition guard_table : list gentry := %s." % E.lst(names))
    return "\n".join(lines) + "\n"


def regenerate():
    ents = entries()
    core.write_if_changed(os.path.join(core.COQDIR, "theories", "Gen", "GuardProgs.v"), render(ents))
    return ents
