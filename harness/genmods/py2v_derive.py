"""py2v_derive: translation of the class-derivation operators of typedpy into Gallina, rewritten on every
run from /repo's working tree into coq/theories/Gen/DeriveSrc.v:

  typedpy/structures/structures.py        _init_class_dict, Structure.get_all_fields_by_name,
                                          Structure.omit, Structure.pick
  typedpy/structures/structures_reuse.py  PartialMeta / AllFieldsRequiredMeta / ExtendMeta / OmitMeta /
                                          PickMeta . __getitem__

Every function becomes  <name> (h : heap) (p_<param> : pyval) ... : res pyval  over Base/PyVal.v and the
dynamic-operator libraries Base/PyOps.v, PyOps2.v, PyObj.v, PyOpsDerive.v.  Class objects, Field objects and
the global `Structure` are objects of the heap (`ref name`); `type(name, bases, dict)` is the value
`new_class name bases dict` (what StructMeta.__new__ does with it is Struct/Define.v).

The subset (general idioms, nothing keyed to today's text):
  * `if` / `raise` / `return` / doc strings; conditions with and/or/not, (chained) comparisons, `is None`,
    `in` / `not in`, isinstance against builtin classes and against typedpy's metaclass, `hasattr` with a
    constant name, truthiness;
  * values: constants, names, string constants of consts.py, tuple / list / set displays, f-strings,
    conditional expressions, `getattr` with a constant name, attribute reads, subscription, `len`,
    `[e for x in it if c]`, calls of the other translated functions (positional, *args, keywords),
    `type(n, b, d)`;
  * assignment to a name, to a tuple of names (with a trailing *name);
  * LOCAL MUTABLE CONTAINERS: a local bound to a display (`{}`, `[]`, ...) or to the result of a translated
    function that returns such a local is *owned*; `d[k] = v` and `d[k].append(x)` on an owned local re-bind
    it to the updated value.  An owned local may not be aliased (used as a plain value) anywhere except in
    `return d`, `type(..., d)` and on the right of `in`; `d[k].append(x)` needs the last `d[k] = ...`
    (same key expression) to have stored a fresh list display;
  * `for x in it:` / `for a, b in m.items():` become a monadic fold (py_foldM) over the items of the
    collection, the state being the owned local the body updates (at most one); `continue` is accepted,
    `break`, `else:` and `return` inside a loop are not.
FAIL CLOSED: anything else raises Unsupported and the definition is emitted as
`Definition <name>_UNTRANSLATABLE : unit := tt.`, so that the bridging lemma of
Struct/DeriveSrcProofs.v about <name> (and everything that calls it) stops type-checking."""
import ast
import os

from harness import core
from harness import coqemit as E
from harness.genmods.py2v import Unsupported, KNOWN_CLASSES, EXN

STRUCT_DIR = os.path.join(core.REPO, "typedpy", "structures")
SRC_STRUCT = os.path.join(STRUCT_DIR, "structures.py")
SRC_REUSE = os.path.join(STRUCT_DIR, "structures_reuse.py")
SRC_CONSTS = os.path.join(STRUCT_DIR, "consts.py")

BUILTINS_USED = {"getattr", "hasattr", "len", "type", "isinstance"}
OBJECT_CLASSES = {"StructMeta"}          # isinstance(x, C): answered by the heap
GLOBAL_OBJECTS = {"Structure"}           # module-level objects referred to by name


def _consts():
    out = {}
    for n in ast.parse(open(SRC_CONSTS).read()).body:
        if isinstance(n, ast.Assign) and len(n.targets) == 1 and isinstance(n.targets[0], ast.Name) \
                and isinstance(n.value, ast.Constant) and isinstance(n.value.value, str):
            out[n.targets[0].id] = n.value.value
    return out


class Spec:
    """signature of a translated function, for its callers"""
    def __init__(self, coqname, pos, vararg, kwonly, fresh):
        self.coqname, self.pos, self.vararg, self.kwonly, self.fresh = coqname, pos, vararg, kwonly, fresh
        # pos: [name]; vararg: name|None; kwonly: [(name, default ast|None)]


class St:
    """translation state along one control path"""
    def __init__(self, env=None, owned=None, fresh_sub=None):
        self.env = dict(env or {})              # python local -> coq atom (pyval) | "POISON:..."
        self.owned = set(owned or ())           # locals bound to a container this function created
        self.fresh_sub = set(fresh_sub or ())   # (local, key) whose stored value is a fresh list display

    def copy(self):
        return St(self.env, self.owned, self.fresh_sub)


class TrD:
    def __init__(self, params, consts, functions, methods, module_names):
        self.st = St({p: "p_" + p for p in params})
        self.consts = consts
        self.functions = functions      # module-level function name -> Spec
        self.methods = methods          # classmethod name of Structure -> Spec
        self.module_names = module_names  # name bound (once) at module level of the file -> kind:
        #                                   "const" (string constant of consts.py), "function", "class"
        self.outer_locals = []
        self.n = 0
        self.loops = []                 # stack of (state var | None, coq name of the fold state)
        self.returns_owned = []         # per `return`: was it `return <owned local>`?

    def fresh(self, base="t"):
        self.n += 1
        return "%s%d" % (base, self.n)

    @staticmethod
    def seq(binds, last):
        return "(" + "".join("%s <- %s ;; " % (n, t) for n, t in binds) + last + ")"

    # ------------------------------------------------------------------ names
    def const_str(self, e):
        """a string known at translation time (literal or consts.py constant), else None"""
        if isinstance(e, ast.Constant) and isinstance(e.value, str):
            return e.value
        if isinstance(e, ast.Name) and e.id not in self.st.env and e.id in self.consts \
                and self.module_names.get(e.id) == "const":
            return self.consts[e.id]
        return None

    def attr_name(self, e):
        s = self.const_str(e)
        if s is None:
            raise Unsupported("attribute name %s" % ast.dump(e)[:60])
        return s

    def key_id(self, e):
        s = self.const_str(e)
        return "str:" + s if s is not None else "ast:" + ast.dump(e)

    def local(self, name):
        a = self.st.env[name]
        if a.startswith("POISON:"):
            raise Unsupported("use of local %s: %s" % (name, a[7:]))
        return a

    # ------------------------------------------------------------------ values
    def val(self, e):
        """-> (binds, atom); an owned local is never accepted here (it would be aliased)"""
        if isinstance(e, ast.Name):
            if e.id in self.st.env:
                if e.id in self.st.owned:
                    raise Unsupported("mutable local %s used as a value (alias)" % e.id)
                return [], self.local(e.id)
            s = self.const_str(e)
            if s is not None:
                return [], "(PStr %s)" % E.pstr(s)
            if e.id in GLOBAL_OBJECTS and self.module_names.get(e.id) == "class":
                return [], '(ref (s2p "%s"))' % e.id
            raise Unsupported("free name %s" % e.id)
        if isinstance(e, ast.Constant):
            c = e.value
            if c is None:
                return [], "PNone"
            if isinstance(c, bool):
                return [], "(PBool %s)" % E.blit(c)
            if isinstance(c, int):
                return [], "(zint %s)" % E.zlit(c)
            if isinstance(c, str):
                return [], "(PStr %s)" % E.pstr(c)
            raise Unsupported("constant %r" % (c,))
        if isinstance(e, (ast.Tuple, ast.List, ast.Set)) and isinstance(getattr(e, "ctx", ast.Load()), ast.Load):
            binds, atoms = [], []
            for x in e.elts:
                if isinstance(x, ast.Starred):
                    raise Unsupported("starred element in a display")
                b, a = self.val(x)
                binds += b
                atoms.append(a)
            lst = "[" + "; ".join(atoms) + "]"
            if isinstance(e, ast.Tuple):
                return binds, "(PTuple %s)" % lst
            if isinstance(e, ast.List):
                return binds, "(PList %s)" % lst
            t = self.fresh()
            return binds + [(t, "py_set_display %s" % lst)], t
        if isinstance(e, ast.Dict) and not e.keys:
            return [], "(PDict [])"
        if isinstance(e, ast.JoinedStr):
            binds, parts = [], []
            for p in e.values:
                if isinstance(p, ast.Constant) and isinstance(p.value, str):
                    parts.append(E.pstr(p.value))
                elif isinstance(p, ast.FormattedValue) and p.conversion == -1 and p.format_spec is None:
                    b, a = self.val(p.value)
                    t = self.fresh("f")
                    binds += b + [(t, "py_format %s" % a)]
                    parts.append(t)
                else:
                    raise Unsupported("f-string part %s" % ast.dump(p)[:60])
            return binds, "(PStr (%s)%%list)" % " ++ ".join(parts or ["[]"])
        if isinstance(e, ast.IfExp):
            c = self.cond(e.test)
            b1, a1 = self.val(e.body)
            b2, a2 = self.val(e.orelse)
            t = self.fresh()
            return [(t, "(c <- %s ;; if c then %s else %s)" % (c, self.seq(b1, "Ok %s" % a1), self.seq(b2, "Ok %s" % a2)))], t
        if isinstance(e, (ast.BoolOp, ast.Compare)) or (isinstance(e, ast.UnaryOp) and isinstance(e.op, ast.Not)):
            if isinstance(e, ast.BoolOp):
                raise Unsupported("and/or as a value")       # yields an operand, not a bool
            t = self.fresh()
            return [(t, "b <- %s ;; Ok (PBool b)" % self.cond(e))], t
        if isinstance(e, ast.Attribute) and isinstance(e.ctx, ast.Load):
            b0, o = self.val(e.value)
            t = self.fresh()
            return b0 + [(t, 'obj_getattr h %s (s2p "%s")' % (o, e.attr))], t
        if isinstance(e, ast.Subscript) and isinstance(e.ctx, ast.Load):
            b0, c = self.val(e.value)
            b1, k = self.val(e.slice)
            t = self.fresh()
            return b0 + b1 + [(t, "py_subscript %s %s" % (c, k))], t
        if isinstance(e, ast.ListComp):
            return self.listcomp(e)
        if isinstance(e, ast.Call):
            return self.call(e)
        raise Unsupported("value expression %s" % ast.dump(e)[:80])

    def listcomp(self, e):
        if len(e.generators) != 1:
            raise Unsupported("comprehension with several generators")
        g = e.generators[0]
        if g.is_async or not isinstance(g.target, ast.Name):
            raise Unsupported("comprehension with a pattern target")
        b, a = self.val(g.iter)
        xs = self.fresh("xs")
        binds = b + [(xs, "py_iter_items %s" % a)]
        x = self.fresh("x_" + g.target.id + "_")
        saved = self.st.copy()
        self.st.env[g.target.id] = x
        self.st.owned.discard(g.target.id)
        try:
            cur = xs
            if g.ifs:
                test = g.ifs[0] if len(g.ifs) == 1 else ast.BoolOp(op=ast.And(), values=list(g.ifs))
                ys = self.fresh("ys")
                binds.append((ys, "py_filterM (fun %s => %s) %s" % (x, self.cond(test), cur)))
                cur = ys
            if not (isinstance(e.elt, ast.Name) and e.elt.id == g.target.id):
                be, ae = self.val(e.elt)
                zs = self.fresh("zs")
                binds.append((zs, "mapM (fun %s => %s) %s" % (x, self.seq(be, "Ok %s" % ae), cur)))
                cur = zs
        finally:
            self.st = saved
        return binds, "(PList %s)" % cur

    def call_spec(self, spec, first, e, skip_first_positional=False):
        """arguments of call e matched to spec; `first`: (binds, atom) of an implicit first argument"""
        binds, by_name = [], {}
        pos = list(spec.pos)
        if first is not None:
            binds += first[0]
            by_name[pos.pop(0)] = first[1]
        star = None
        plain = []
        for a in e.args:
            if isinstance(a, ast.Starred):
                if star is not None:
                    raise Unsupported("several *-arguments")
                star = a.value
            else:
                if star is not None:
                    raise Unsupported("positional argument after a *-argument")
                plain.append(a)
        if len(plain) > len(pos) and spec.vararg is None:
            raise Unsupported("too many positional arguments for %s" % spec.coqname)
        for name, a in zip(pos, plain):
            b, at = self.val(a)
            binds += b
            by_name[name] = at
        extra = plain[len(pos):]
        if spec.vararg is not None:
            if star is not None:
                if extra or len(plain) < len(pos):
                    raise Unsupported("*-argument mixed with positional arguments")
                b, at = self.val(star)
                t = self.fresh()
                binds += b + [(t, "py_star_args %s" % at)]
                by_name[spec.vararg] = t
            else:
                atoms = []
                for a in extra:
                    b, at = self.val(a)
                    binds += b
                    atoms.append(at)
                by_name[spec.vararg] = "(PTuple [%s])" % "; ".join(atoms)
        elif star is not None:
            raise Unsupported("*-argument to a function without *args")
        for kw in e.keywords:
            if kw.arg is None:
                raise Unsupported("**-argument")
            if kw.arg in by_name or kw.arg not in [n for n, _ in spec.kwonly] + pos:
                raise Unsupported("keyword argument %s" % kw.arg)
            b, at = self.val(kw.value)
            binds += b
            by_name[kw.arg] = at
        order = spec.pos + ([spec.vararg] if spec.vararg else []) + [n for n, _ in spec.kwonly]
        defaults = dict(spec.kwonly)
        atoms = []
        for n in order:
            if n in by_name:
                atoms.append(by_name[n])
            elif defaults.get(n) is not None:
                d = defaults[n]
                if not isinstance(d, ast.Constant):
                    raise Unsupported("non-constant default of %s" % n)
                atoms.append(TrD([], {}, {}, {}, {}).val(d)[1])
            else:
                raise Unsupported("missing argument %s of %s" % (n, spec.coqname))
        t = self.fresh()
        return binds + [(t, "%s h %s" % (spec.coqname, " ".join(atoms)))], t

    def call(self, e):
        f = e.func
        if isinstance(f, ast.Name) and f.id in BUILTINS_USED and f.id in self.module_names:
            raise Unsupported("builtin %s re-bound at module level" % f.id)
        if isinstance(f, ast.Name) and f.id not in self.st.env:
            if f.id == "getattr" and not e.keywords and len(e.args) in (2, 3):
                b0, o = self.val(e.args[0])
                name = self.attr_name(e.args[1])
                t = self.fresh()
                if len(e.args) == 3:
                    bd, d = self.val(e.args[2])
                    return b0 + bd + [(t, 'obj_getattr_def h %s (s2p "%s") %s' % (o, name, d))], t
                return b0 + [(t, 'obj_getattr h %s (s2p "%s")' % (o, name))], t
            if f.id == "len" and len(e.args) == 1 and not e.keywords:
                b, a = self.val(e.args[0])
                t = self.fresh()
                return b + [(t, "py_len %s" % a)], t
            if f.id == "type" and len(e.args) == 3 and not e.keywords:
                b1, a1 = self.val(e.args[0])
                b2, a2 = self.val(e.args[1])
                d = e.args[2]
                if isinstance(d, ast.Name) and d.id in self.st.owned:
                    b3, a3 = [], self.local(d.id)
                else:
                    b3, a3 = self.val(d)
                return b1 + b2 + b3, "(new_class %s %s %s)" % (a1, a2, a3)
            if f.id in self.functions and self.module_names.get(f.id) == "function":
                return self.call_spec(self.functions[f.id], None, e)
            raise Unsupported("call of %s" % f.id)
        if isinstance(f, ast.Attribute) and f.attr in self.methods:
            # a classmethod of Structure called on a class object (not overridden: typedpy's own classes)
            return self.call_spec(self.methods[f.attr], self.val(f.value), e)
        raise Unsupported("call %s" % ast.dump(e)[:80])

    # ------------------------------------------------------------------ conditions
    def isinstance_terms(self, a, e):
        """isinstance(a, e) as a list of alternative res-bool terms (or-ed, in order)"""
        if isinstance(e, ast.Tuple):
            out = []
            for x in e.elts:
                out += self.isinstance_terms(a, x)
            return out
        if isinstance(e, ast.Name) and e.id not in self.st.env:
            if e.id in KNOWN_CLASSES:
                return ["Ok (py_isinstance %s [%s])" % (a, KNOWN_CLASSES[e.id])]
            if e.id in OBJECT_CLASSES and self.module_names.get(e.id) == "class":
                return ['obj_isinstance h %s (s2p "%s")' % (a, e.id)]
        raise Unsupported("isinstance against %s" % ast.dump(e)[:60])

    def cmp1(self, op, a1, a2):
        if isinstance(op, (ast.In, ast.NotIn)):
            t = "py_in_dyn %s %s" % (a1, a2)
            return "py_not (%s)" % t if isinstance(op, ast.NotIn) else t
        fn = {ast.Lt: "py_lt", ast.LtE: "py_le", ast.Gt: "py_gt", ast.GtE: "py_ge",
              ast.Eq: "py_eqv", ast.NotEq: "py_ne"}.get(type(op))
        if fn is None:
            raise Unsupported("comparison operator %s" % type(op).__name__)
        return "%s %s %s" % (fn, a1, a2)

    def operand(self, e, container_ok=False):
        if container_ok and isinstance(e, ast.Name) and e.id in self.st.owned:
            return [], self.local(e.id)
        return self.val(e)

    def cond(self, e):
        if isinstance(e, ast.BoolOp):
            op = "py_and" if isinstance(e.op, ast.And) else "py_or"
            terms = [self.cond(v) for v in e.values]
            out = terms[-1]
            for t in reversed(terms[:-1]):
                out = "(%s %s (fun _ => %s))" % (op, t, out)
            return out
        if isinstance(e, ast.UnaryOp) and isinstance(e.op, ast.Not):
            return "(py_not %s)" % self.cond(e.operand)
        if isinstance(e, ast.Compare):
            if len(e.ops) == 1 and isinstance(e.ops[0], (ast.Is, ast.IsNot)):
                r = e.comparators[0]
                if not (isinstance(r, ast.Constant) and r.value is None):
                    raise Unsupported("is-comparison with something else than None")
                b, a = self.val(e.left)
                return self.seq(b, "Ok (%s %s)" % ("py_is_none" if isinstance(e.ops[0], ast.Is) else "py_is_not_none", a))
            # a op1 b op2 c ...: operands evaluated once, left to right, stopping at the first false link
            b0, left = self.val(e.left)
            links = []
            for op, r in zip(e.ops, e.comparators):
                if isinstance(op, (ast.Is, ast.IsNot)):
                    raise Unsupported("`is` inside a chained comparison")
                br, ar = self.operand(r, container_ok=isinstance(op, (ast.In, ast.NotIn)))
                links.append((br, self.cmp1(op, left, ar)))
                left = ar
            out = self.seq(links[-1][0], links[-1][1])
            for br, t in reversed(links[:-1]):
                out = self.seq(br, "py_and (%s) (fun _ => %s)" % (t, out))
            return self.seq(b0, out)
        if isinstance(e, ast.Call) and isinstance(e.func, ast.Name) and e.func.id == "isinstance" \
                and "isinstance" not in self.st.env and "isinstance" not in self.module_names \
                and len(e.args) == 2 and not e.keywords:
            b, a = self.val(e.args[0])
            terms = self.isinstance_terms(a, e.args[1])
            out = "(%s)" % terms[-1]
            for t in reversed(terms[:-1]):
                out = "(py_or (%s) (fun _ => %s))" % (t, out)
            return self.seq(b, out)
        if isinstance(e, ast.Call) and isinstance(e.func, ast.Name) and e.func.id == "hasattr" \
                and "hasattr" not in self.st.env and "hasattr" not in self.module_names \
                and len(e.args) == 2 and not e.keywords:
            b, a = self.val(e.args[0])
            return self.seq(b, 'obj_hasattr h %s (s2p "%s")' % (a, self.attr_name(e.args[1])))
        b, a = self.operand(e, container_ok=False)
        return self.seq(b, "Ok (py_truthy %s)" % a)

    # ------------------------------------------------------------------ statements (continuation-passing)
    def exn(self, r):
        x = r.exc
        if isinstance(x, ast.Call):
            x = x.func
        if isinstance(x, ast.Name) and x.id in EXN and x.id not in self.st.env and x.id not in self.module_names:
            return x.id
        raise Unsupported("raise of %s" % ast.dump(r)[:60])

    @staticmethod
    def is_display(v):
        return (isinstance(v, ast.Dict) and not v.keys) or isinstance(v, (ast.List, ast.Set))

    def is_fresh_value(self, v):
        """does evaluating v create a container nobody else refers to?"""
        if self.is_display(v):
            return True
        if isinstance(v, ast.Call) and isinstance(v.func, ast.Name) and v.func.id not in self.st.env \
                and v.func.id in self.functions and self.module_names.get(v.func.id) == "function":
            return self.functions[v.func.id].fresh
        return False

    def bind_name(self, name, atom):
        v = self.fresh("v_" + name + "_")
        self.st.env[name] = v
        self.st.owned.discard(name)
        self.st.fresh_sub = {p for p in self.st.fresh_sub if p[0] != name}
        return v

    def block(self, body, k):
        """k(): term for what follows under the CURRENT state (self.st)."""
        if not body:
            return k()
        s, rest = body[0], body[1:]
        nxt = lambda: self.block(rest, k)      # noqa: E731
        if isinstance(s, ast.Expr) and isinstance(s.value, ast.Constant):
            return nxt()
        if isinstance(s, ast.Pass):
            return nxt()
        if isinstance(s, ast.Raise):
            if s.exc is None:
                raise Unsupported("bare raise")
            return "(Raise %s)" % self.exn(s)
        if isinstance(s, ast.Continue) and self.loops:
            return self.loops[-1]()
        if isinstance(s, ast.Return):
            if self.loops:
                raise Unsupported("return inside a loop")
            if s.value is None:
                self.returns_owned.append(False)
                return "(Ok PNone)"
            if isinstance(s.value, ast.Name) and s.value.id in self.st.owned:
                self.returns_owned.append(True)
                return "(Ok %s)" % self.local(s.value.id)
            self.returns_owned.append(False)
            b, a = self.val(s.value)
            return self.seq(b, "Ok %s" % a)
        if isinstance(s, ast.If):
            c = self.cond(s.test)
            saved = self.st.copy()
            tb = self.block(list(s.body) + list(rest), k)
            self.st = saved.copy()
            te = self.block(list(s.orelse) + list(rest), k)
            self.st = saved
            return "(c <- %s ;;\n   if c then %s\n   else %s)" % (c, tb, te)
        if isinstance(s, ast.Assign) and len(s.targets) == 1:
            return self.assign(s.targets[0], s.value, nxt)
        if isinstance(s, ast.Expr) and isinstance(s.value, ast.Call):
            r = self.append_stmt(s.value, nxt)
            if r is not None:
                return r
        if isinstance(s, ast.For):
            return self.loop(s, nxt)
        raise Unsupported("statement %s" % ast.dump(s)[:80])

    def check_not_loop_state(self, name):
        # re-binding, inside a loop, a local that lives outside it would need it in the fold state
        if self.loops and name in self.outer_locals[-1]:
            raise Unsupported("local %s of the enclosing scope re-bound inside a loop" % name)

    def assign(self, target, value, nxt):
        saved = self.st.copy()
        try:
            if isinstance(target, ast.Name):
                self.check_not_loop_state(target.id)
                if self.is_fresh_value(value):
                    if self.is_display(value):
                        b, a = self.val(value)
                    else:
                        b, a = self.call(value)
                    v = self.bind_name(target.id, a)
                    self.st.owned.add(target.id)
                    return self.seq(b, "let %s := %s in %s" % (v, a, nxt()))
                b, a = self.val(value)
                v = self.bind_name(target.id, a)
                return self.seq(b, "let %s := %s in %s" % (v, a, nxt()))
            if isinstance(target, ast.Tuple):
                names, star = [], False
                for i, x in enumerate(target.elts):
                    if isinstance(x, ast.Starred) and i == len(target.elts) - 1 and isinstance(x.value, ast.Name):
                        names.append(x.value.id)
                        star = True
                    elif isinstance(x, ast.Name):
                        names.append(x.id)
                    else:
                        raise Unsupported("assignment target %s" % ast.dump(x)[:60])
                if len(set(names)) != len(names):
                    raise Unsupported("repeated name in an unpacking")
                b, a = self.val(value)
                for n in names:
                    self.check_not_loop_state(n)
                l = self.fresh("l")
                vs = [self.bind_name(n, None) for n in names]
                return self.seq(b + [(l, "py_unpack %d %s %s" % (len(names) - (1 if star else 0), E.blit(star), a))],
                                "match %s with [%s] => %s | _ => Raise Unmodelled end" % (l, "; ".join(vs), nxt()))
            if isinstance(target, ast.Subscript) and isinstance(target.value, ast.Name) \
                    and target.value.id in self.st.owned:
                d = target.value.id
                bk, ak = self.val(target.slice)
                fresh_list = isinstance(value, ast.List)
                bv, av = self.val(value)
                nd = self.fresh("v_" + d + "_")
                # CPython evaluates the right-hand side first, then the key
                binds = bv + bk + [(nd, "py_setitem %s %s %s" % (self.local(d), ak, av))]
                self.st.env[d] = nd
                key = (d, self.key_id(target.slice))
                if fresh_list:
                    self.st.fresh_sub.add(key)
                else:
                    self.st.fresh_sub.discard(key)
                return self.seq(binds, nxt())
            raise Unsupported("assignment target %s" % ast.dump(target)[:60])
        finally:
            self.st = saved

    def append_stmt(self, call, nxt):
        """d[K].append(x) on an owned local d whose entry K holds a fresh list"""
        f = call.func
        if not (isinstance(f, ast.Attribute) and f.attr == "append" and len(call.args) == 1 and not call.keywords
                and isinstance(f.value, ast.Subscript) and isinstance(f.value.value, ast.Name)):
            return None
        d = f.value.value.id
        if d not in self.st.owned:
            raise Unsupported("append through a container that is not an owned local")
        if (d, self.key_id(f.value.slice)) not in self.st.fresh_sub:
            raise Unsupported("append to an entry that may be shared with another object")
        saved = self.st.copy()
        try:
            bk, ak = self.val(f.value.slice)
            bx, ax = self.val(call.args[0])
            l0, l1, nd = self.fresh("l"), self.fresh("l"), self.fresh("v_" + d + "_")
            binds = bk + [(l0, "py_subscript %s %s" % (self.local(d), ak))] + bx + [
                               (l1, "py_list_append %s %s" % (l0, ax)),
                               (nd, "py_setitem %s %s %s" % (self.local(d), ak, l1))]
            self.st.env[d] = nd
            return self.seq(binds, nxt())
        finally:
            self.st = saved

    @staticmethod
    def _mutated(body, owned):
        """owned locals updated (d[k] = v / d[k].append(x)) somewhere in body"""
        out = []
        for n in ast.walk(ast.Module(body=list(body), type_ignores=[])):
            name = None
            if isinstance(n, ast.Assign):
                for t in n.targets:
                    if isinstance(t, ast.Subscript) and isinstance(t.value, ast.Name):
                        name = t.value.id
            if isinstance(n, ast.Call) and isinstance(n.func, ast.Attribute) and isinstance(n.func.value, ast.Subscript) \
                    and isinstance(n.func.value.value, ast.Name):
                name = n.func.value.value.id
            if name in owned and name not in out:
                out.append(name)
        return out

    def loop(self, s, nxt):
        if s.orelse:
            raise Unsupported("for ... else")
        for n in ast.walk(ast.Module(body=list(s.body), type_ignores=[])):
            if isinstance(n, (ast.Break, ast.While, ast.Try, ast.With, ast.FunctionDef, ast.Lambda, ast.Yield)):
                raise Unsupported("%s inside a loop" % type(n).__name__)
        state = self._mutated(s.body, self.st.owned)
        if len(state) > 1:
            raise Unsupported("a loop updating several containers: %s" % state)
        sv = state[0] if state else None
        # the collection
        it = s.iter
        if isinstance(it, ast.Call) and isinstance(it.func, ast.Attribute) and it.func.attr == "items" \
                and not it.args and not it.keywords:
            b, a = self.val(it.func.value)
            items = "py_dict_items %s" % a
        else:
            b, a = self.val(it)
            items = "py_iter_items %s" % a
        xs = self.fresh("xs")
        # the targets
        if isinstance(s.target, ast.Name):
            tnames = [s.target.id]
        elif isinstance(s.target, ast.Tuple) and all(isinstance(x, ast.Name) for x in s.target.elts):
            tnames = [x.id for x in s.target.elts]
            if len(set(tnames)) != len(tnames):
                raise Unsupported("repeated name in a loop target")
        else:
            raise Unsupported("loop target %s" % ast.dump(s.target)[:60])
        if sv in tnames:
            raise Unsupported("loop target is the updated container")
        stv, x = self.fresh("st"), self.fresh("x")
        saved = self.st.copy()
        init = self.local(sv) if sv else "PNone"
        ends = []

        def body_end():
            ends.append(set(self.st.fresh_sub))
            return "(Ok %s)" % (self.local(sv) if sv else stv)

        self.outer_locals.append(set(saved.env) - set(tnames))
        self.loops.append(body_end)
        try:
            if sv:
                self.st.env[sv] = stv
            if len(tnames) == 1:
                self.st.env[tnames[0]] = x
                self.st.owned.discard(tnames[0])
                body = self.block(s.body, body_end)
            else:
                l = self.fresh("l")
                vs = []
                for n in tnames:
                    v = self.fresh("v_" + n + "_")
                    self.st.env[n] = v
                    self.st.owned.discard(n)
                    vs.append(v)
                inner = self.block(s.body, body_end)
                body = "(%s <- py_unpack %d false %s ;; match %s with [%s] => %s | _ => Raise Unmodelled end)" % (
                    l, len(tnames), x, l, "; ".join(vs), inner)
            body_names = set(self.st.env) | set(tnames)
        finally:
            self.loops.pop()
            self.outer_locals.pop()
            self.st = saved
        for n in ast.walk(ast.Module(body=list(s.body), type_ignores=[])):
            if isinstance(n, ast.Name) and isinstance(n.ctx, ast.Store):
                body_names.add(n.id)
        saved2 = self.st.copy()
        try:
            new = self.fresh("v_" + (sv or "loop") + "_")
            if sv:
                self.st.env[sv] = new
            for e in ends:
                self.st.fresh_sub &= e
            for n in body_names:
                if n != sv and (n in tnames or n not in saved.env):
                    self.st.env[n] = "POISON:assigned inside a loop"
                    self.st.owned.discard(n)
            return self.seq(b + [(xs, items)],
                            "%s <- py_foldM (fun %s %s => %s) %s %s ;; %s" % (new, stv, x, body, xs, init, nxt()))
        finally:
            self.st = saved2


# --------------------------------------------------------------------------- targets

def _bindings(tree):
    """module-level bindings: name -> list of (kind, detail); kind in import / def / class / assign / other"""
    out = {}

    def add(n, kind, detail=None):
        out.setdefault(n, []).append((kind, detail))
    for n in tree.body:
        if isinstance(n, ast.ImportFrom):
            for a in n.names:
                add(a.asname or a.name, "import", ((n.module or "").split(".")[-1], a.name))
        elif isinstance(n, ast.Import):
            for a in n.names:
                add((a.asname or a.name).split(".")[0], "other")
        elif isinstance(n, ast.FunctionDef):
            add(n.name, "def")
        elif isinstance(n, ast.ClassDef):
            add(n.name, "class")
        else:
            for x in ast.walk(n):
                if isinstance(x, ast.Name) and isinstance(x.ctx, (ast.Store, ast.Del)):
                    add(x.id, "other")
                elif isinstance(x, (ast.FunctionDef, ast.ClassDef, ast.AsyncFunctionDef)):
                    add(x.name, "other")
                elif isinstance(x, (ast.Import, ast.ImportFrom)):
                    for a in x.names:
                        add((a.asname or a.name).split(".")[0], "other")
    return out


def _module_names(path, trees, depth=0):
    """names of the module at `path` whose meaning the translator relies on -> "const" | "function" | "class";
    a name bound more than once, or bound in a way that is not understood, maps to "ambiguous"."""
    if path not in trees:
        trees[path] = ast.parse(open(path).read())
    out = {}
    for name, bs in _bindings(trees[path]).items():
        kind = "ambiguous"
        if len(bs) == 1:
            k, d = bs[0]
            if k == "def":
                kind = "function"
            elif k == "class":
                kind = "class"
            elif k == "import" and d[1] == name:
                if d[0] == "consts":
                    kind = "const"
                elif d[0] == "structures" and path != SRC_STRUCT and depth == 0:
                    kind = _module_names(SRC_STRUCT, trees, depth + 1).get(name, "ambiguous")
        out[name] = kind
    return out


def _find(tree, cls, fn):
    hits = []
    for n in tree.body:
        if cls is None and isinstance(n, ast.FunctionDef) and n.name == fn:
            hits.append(n)
        if cls is not None and isinstance(n, ast.ClassDef) and n.name == cls:
            for m in n.body:
                if isinstance(m, ast.FunctionDef) and m.name == fn:
                    hits.append(m)
    if len(hits) != 1:
        raise Unsupported("%d definitions of %s%s" % (len(hits), cls + "." if cls else "", fn))
    return hits[0]


def _signature(node, want_decorator):
    decos = [d.id if isinstance(d, ast.Name) else ast.dump(d) for d in node.decorator_list]
    if decos != ([want_decorator] if want_decorator else []):
        raise Unsupported("decorators of %s are %s" % (node.name, decos))
    a = node.args
    if a.kwarg or a.posonlyargs or a.defaults:
        raise Unsupported("parameters of %s" % node.name)
    pos = [x.arg for x in a.args]
    vararg = a.vararg.arg if a.vararg else None
    kwonly = [(x.arg, d) for x, d in zip(a.kwonlyargs, a.kw_defaults)]
    return pos, vararg, kwonly


class Target:
    def __init__(self, src, cls, fn, coqname, decorator=None, kind="function"):
        self.src, self.cls, self.fn, self.coqname, self.decorator, self.kind = src, cls, fn, coqname, decorator, kind
        self.origin = "%s::%s%s" % (os.path.basename(src), cls + "." if cls else "", fn)


TARGETS = [
    Target(SRC_STRUCT, None, "_init_class_dict", "init_class_dict"),
    Target(SRC_STRUCT, "Structure", "get_all_fields_by_name", "Structure_get_all_fields_by_name", "classmethod", "method"),
    Target(SRC_STRUCT, "Structure", "omit", "Structure_omit", "classmethod", "method"),
    Target(SRC_STRUCT, "Structure", "pick", "Structure_pick", "classmethod", "method"),
    Target(SRC_REUSE, "PartialMeta", "__getitem__", "PartialMeta_getitem", None, "entry"),
    Target(SRC_REUSE, "AllFieldsRequiredMeta", "__getitem__", "AllFieldsRequiredMeta_getitem", None, "entry"),
    Target(SRC_REUSE, "ExtendMeta", "__getitem__", "ExtendMeta_getitem", None, "entry"),
    Target(SRC_REUSE, "OmitMeta", "__getitem__", "OmitMeta_getitem", None, "entry"),
    Target(SRC_REUSE, "PickMeta", "__getitem__", "PickMeta_getitem", None, "entry"),
]


def _translate(t, trees, consts, functions, methods):
    module_names = _module_names(t.src, trees)
    node = _find(trees[t.src], t.cls, t.fn)
    pos, vararg, kwonly = _signature(node, t.decorator)
    params = pos + ([vararg] if vararg else []) + [n for n, _ in kwonly]
    tr = TrD(params, consts, functions, methods, module_names)
    body = tr.block(node.body, lambda: "(Ok PNone)")
    fresh = bool(tr.returns_owned) and all(tr.returns_owned)
    sig = " ".join("(p_%s : pyval)" % p for p in params)
    text = "Definition %s (h : heap) %s : res pyval :=\n  %s." % (t.coqname, sig, body)
    return text, Spec(t.coqname, pos, vararg, kwonly, fresh)


def render():
    lines = ["(* GENERATED by harness/genmods/py2v_derive.py from /repo/typedpy/structures/structures.py and",
             "   structures_reuse.py.  Do not edit.  Each definition is the translation of the named function into the",
             "   dynamic-operator libraries Base/PyOps.v, PyOps2.v, PyObj.v, PyOpsDerive.v; Struct/DeriveSrcProofs.v proves",
             "   it equal to the hand-written model of the derivation operators (Struct/Derive.v [derive_stmt]). *)",
             "From Coq Require Import ZArith NArith String List. Import ListNotations.",
             "From TP Require Import Base.PyVal Base.PyOps Base.PyOps2 Base.PyObj Base.PyOpsDerive.",
             "Local Open Scope string_scope.", ""]
    status = {}
    functions, methods = {}, {}
    trees = {}
    try:
        consts = _consts()
    except (OSError, SyntaxError):
        consts = {}
    for t in TARGETS:
        try:
            text, spec = _translate(t, trees, consts, functions, methods)
            status[t.coqname] = "ok"
            if t.kind == "function":
                functions[t.fn] = spec
            elif t.kind == "method":
                methods[t.fn] = spec
        except Unsupported as e:
            text = "(* NOT TRANSLATABLE: %s *)\nDefinition %s_UNTRANSLATABLE : unit := tt." % (
                str(e).replace("*)", "* )").replace("(*", "( *"), t.coqname)
            status[t.coqname] = "unsupported: %s" % e
        except (OSError, SyntaxError) as e:
            text = "(* SOURCE UNREADABLE: %s *)\nDefinition %s_UNTRANSLATABLE : unit := tt." % (
                str(e).replace("*)", "* )").replace("(*", "( *"), t.coqname)
            status[t.coqname] = "unreadable: %s" % e
        lines.append("(* from %s *)" % t.origin)
        lines.append(text)
        lines.append("")
    return "\n".join(lines), status


def regenerate():
    text, status = render()
    core.write_if_changed(os.path.join(core.COQDIR, "theories", "Gen", "DeriveSrc.v"), text)
    return status
