"""Generated layer for C04 (plug-in of harness/gen.py): Gen/TablesC04.v, re-derived from /repo's working
tree and the running CPython on every run.
  * <kind>_inplace_also   : mutators whose override ALSO applies a base mutator to self
  * <kind>_accessors      : accessor table of each wrapper class (shape by AST of collections_impl.py,
                            return kind by probing the base type with sentinels; builtin consumers such as
                            list()/tuple()/reversed()/dict() routed to the method they go through by
                            probing an instrumented subclass that overrides exactly what the wrapper overrides)
  * base_<kind>_accessors : accessors of the plain base types (list, deque, dict, set, frozenset, tuple)
  * immutable_types_*     : the isinstance tuples of the four defensive-copy decisions (Field.__get__,
                            Field.__set__, Structure.__setattr__, ImmutableMixin._get_defensive_copy_if_needed)
                            and whether each still calls deepcopy
  * facts                 : field_get_honours_field_flag, delitem_guarded, init_copies_*, map_custom_deepcopy,
                            final-check facts (AST); nested_wrapper_bound, unpickle_keeps_instantiated (read off
                            the running library on a two-line canonical class)
Fails closed: anything not recognised becomes AUnrecognised / an everything-passes tuple / false."""
import ast
import collections
import os
import sys

from harness import core
from harness import coqemit as E
from harness.gen import (EXCLUDED, WRAPPERS, mutators_of, _class_node, _calls, _is_super_call)


class _Sent:
    """sentinel element: hashable by identity, comparable"""
    def __lt__(self, other):
        return id(self) < id(other)


def _acc_samples(base):
    a, b = _Sent(), _Sent()
    if base is dict:
        return base({"a": a, "b": b}), (a, b)
    if base in (list, tuple, set, frozenset):
        return base([a, b]), (a, b)
    if base is collections.deque:
        return collections.deque([a, b]), (a, b)
    raise ValueError(base)


# (label suffix, argument builder from the handle) — tried in order for every accessor name
def acc_arg_candidates(base):
    if base is dict:
        return [("", lambda h: ()), ("", lambda h: (next(iter(dict.keys(h))),)), ("", lambda h: ({},))]
    if base in (set, frozenset):
        return [("", lambda h: ()), ("", lambda h: (base(),)), ("", lambda h: (base(h),))]
    if base is tuple:
        return [("", lambda h: ()), ("", lambda h: (0,)), (":slice", lambda h: (slice(0, 2),)), ("", lambda h: ((),)),
                ("", lambda h: (1,))]
    if base is collections.deque:
        return [("", lambda h: ()), ("", lambda h: (0,)), ("", lambda h: (collections.deque(),)), ("", lambda h: (1,))]
    return [("", lambda h: ()), ("", lambda h: (0,)), (":slice", lambda h: (slice(0, 2),)), ("", lambda h: ([],)),
            ("", lambda h: (1,))]


def reach(result, sents, depth=0):
    """'elem' if result IS a sentinel, 'fresh' if sentinels are reachable by iterating it (pairs are
    opened), else None."""
    if any(result is s for s in sents):
        return "elem"
    if isinstance(result, (str, bytes, int, float, bool, type(None))) or depth > 2:
        return None
    try:
        if isinstance(result, dict):
            items = list(dict.values(result))
        else:
            items = list(result)
    except Exception:  # noqa
        return None
    for it in items:
        if reach(it, sents, depth + 1):
            return "fresh"
    return None


CONSUMERS = [("list()", list), ("tuple()", tuple), ("iter()", iter), ("reversed()", reversed),
             ("sorted()", lambda h: sorted(h, key=id)), ("dict()", dict), ("{**h}", lambda h: {**h}),
             ("[*h]", lambda h: [*h])]


def base_accessors(base):
    """[(name, retkind, argbuilder)] — every public method / operator of `base` (mutators excluded)
    through which a contained object can be reached, plus the builtin consumers."""
    muts = set(mutators_of(base)) if base not in (tuple, frozenset) else set()
    out = []
    for name in sorted(dir(base)):
        if name in EXCLUDED or name in muts or name in ("__class_getitem__", "fromkeys", "__getnewargs__"):
            continue
        if name.startswith("_") and not name.startswith("__"):
            continue
        if not callable(getattr(base, name, None)):
            continue
        seen = set()
        for suffix, mk in acc_arg_candidates(base):
            x, sents = _acc_samples(base)
            try:
                r = getattr(x, name)(*mk(x))
            except Exception:  # noqa
                continue
            k = reach(r, sents)
            if k and (name + suffix) not in seen:
                seen.add(name + suffix)
                out.append((name + suffix, "RElem" if k == "elem" else "RFresh", mk))
    for cname, fn in CONSUMERS:
        x, sents = _acc_samples(base)
        try:
            r = fn(x)
        except Exception:  # noqa
            continue
        if reach(r, sents):
            out.append((cname, "RFresh", fn))
    return out


def _mentions(node, names):
    for n in ast.walk(node):
        if isinstance(n, ast.Name) and n.id in names:
            return True
        if isinstance(n, ast.Attribute) and n.attr in names:
            return True
        if isinstance(n, ast.Constant) and n.value in names:
            return True
    return False


def _is_defcopy_call(node):
    return (isinstance(node, ast.Call) and isinstance(node.func, ast.Attribute)
            and node.func.attr == "_get_defensive_copy_if_needed")


def ashape_of(fn, name):
    body = [s for s in fn.body if not (isinstance(s, ast.Expr) and isinstance(s.value, ast.Constant))]
    rets = [n for n in ast.walk(fn) if isinstance(n, ast.Return)]
    if name == "__iter__":
        # if not disable_protection and self._is_immutable(): return ListIteratorProxy(self) ; return super().__iter__()
        proxies = [r for r in rets if isinstance(r.value, ast.Call) and isinstance(r.value.func, ast.Attribute)
                   and r.value.func.attr == "ListIteratorProxy" and len(r.value.args) == 1
                   and isinstance(r.value.args[0], ast.Name) and r.value.args[0].id == "self"]
        ifs = [n for n in ast.walk(fn) if isinstance(n, ast.If)]
        if len(rets) == 2 and len(proxies) == 1 and len(ifs) == 1 and proxies[0] in ifs[0].body \
                and _mentions(ifs[0].test, {"_is_immutable"}) and not ifs[0].orelse:
            return "AIterProxy"
        return "AUnrecognised"
    if len(rets) != 1 or rets[0] is not body[-1]:
        return "AUnrecognised"
    v = rets[0].value
    if _is_defcopy_call(v) and len(v.args) == 1:
        # the argument is the result of super().<name>(...) (directly or through one local)
        arg = v.args[0]
        src = None
        if isinstance(arg, ast.Name) and len(body) == 2 and isinstance(body[0], ast.Assign) \
                and len(body[0].targets) == 1 and isinstance(body[0].targets[0], ast.Name) \
                and body[0].targets[0].id == arg.id:
            src = body[0].value
        elif isinstance(arg, ast.Call) and len(body) == 1:
            src = arg
        if isinstance(src, ast.Call) and _is_super_call(src, name):
            return "ADefensiveResult"
        return "AUnrecognised"
    if isinstance(v, ast.GeneratorExp) and len(body) == 1:
        calls = [n for n in ast.walk(v.elt) if _is_defcopy_call(n)]
        it = v.generators[0].iter
        names_in_elt = [n for n in ast.walk(v.elt) if isinstance(n, ast.Name)]
        # every use of the value variable must be inside the defensive call
        if len(calls) == 1 and isinstance(it, ast.Call) and _is_super_call(it, name) and len(v.generators) == 1:
            tgt = v.generators[0].target
            val_name = tgt.elts[-1].id if isinstance(tgt, ast.Tuple) else tgt.id
            uses = [n for n in names_in_elt if n.id == val_name]
            inside = [n for n in ast.walk(calls[0]) if isinstance(n, ast.Name) and n.id == val_name]
            if len(uses) == len(inside) == 1:
                return "ADefensiveElems"
        return "AUnrecognised"
    if isinstance(v, ast.IfExp) and isinstance(v.body, ast.Call) and isinstance(v.body.func, ast.Name) \
            and v.body.func.id == "deepcopy" and isinstance(v.test, ast.Call) \
            and isinstance(v.test.func, ast.Attribute) and v.test.func.attr == "_is_immutable":
        return "ADeepCopyIfImm"
    return "AUnrecognised"


def consumer_route(base, overridden, cname, fn):
    """Which of the `overridden` methods a builtin consumer goes through, for a subclass of `base`
    overriding exactly those; None = C-level access to the stored elements."""
    calls = []
    ns = {}
    for m in overridden:
        def mk(m):
            def f(self, *a, **k):
                calls.append(m)
                return getattr(base, m)(self, *a, **k)
            return f
        if hasattr(base, m):
            ns[m] = mk(m)
    Sub = type("Sub", (base,), ns)
    x, _ = _acc_samples(base)
    y = Sub(x)
    try:
        r = fn(y)
        if not isinstance(r, (list, tuple, dict)):
            list(r)
    except Exception:  # noqa
        pass
    return calls[0] if calls else None


BASES = [("list", list), ("deque", collections.deque), ("dict", dict), ("set", set), ("frozenset", frozenset),
         ("tuple", tuple)]


def c04_tables():
    path = os.path.join(core.REPO, "typedpy", "fields", "collections_impl.py")
    tree = ast.parse(open(path).read())
    out = {"inplace": {}, "acc": {}, "base_acc": {}}
    for kind, base in BASES:
        out["base_acc"][kind] = [(n, rk) for n, rk, _ in base_accessors(base)]
    for kind, base, wname in WRAPPERS:
        cls = _class_node(tree, wname)
        methods = {n.name: n for n in cls.body if isinstance(n, ast.FunctionDef)}
        inplace = []
        for m in mutators_of(base):
            # the override also applies a base mutator to self (not necessarily the same one:
            # _DequeStruct.appendleft calls super().append)
            if m in methods and any(_is_super_call(c, m2) for c in _calls(methods[m]) for m2 in mutators_of(base)):
                inplace.append(m)
        out["inplace"][kind] = inplace
        rows = []
        cons = dict(CONSUMERS)
        overridden = [m for m in methods if hasattr(base, m) and not m.startswith("__get") or m == "__getitem__"]
        overridden = [m for m in overridden if m not in ("__init__", "__getstate__", "__setstate__", "__deepcopy__",
                                                         "__reduce__")]
        by_name = {}
        for name, rk, _ in base_accessors(base):
            if name in cons:
                route = consumer_route(base, overridden, name, cons[name])
                if route is None:
                    sh = "ANotOverridden"
                else:
                    sh = by_name.get(route) or (ashape_of(methods[route], route) if route in methods else "ANotOverridden")
            else:
                meth = name.split(":")[0]
                sh = ashape_of(methods[meth], meth) if meth in methods else "ANotOverridden"
                by_name.setdefault(meth, sh)
            rows.append((name, sh, rk))
        out["acc"][kind] = rows
    return out


def _func_node(tree, cls, fn):
    c = _class_node(tree, cls)
    if c is None:
        return None
    for n in c.body:
        if isinstance(n, ast.FunctionDef) and n.name == fn:
            return n
    return None


IMMUTABLE_WRAPPER = "ImmutableMixin[immutable]"     # pseudo type name: a wrapper whose _is_immutable() holds


def _isinstance_tuple(fn):
    """names in the (single) isinstance(x, (A, B, ...)) tuple of the function, or None.  The only other
    isinstance test accepted is the conjunct `not (isinstance(x, ImmutableMixin) and x._is_immutable())` and-ed
    to `not isinstance(x, (...))` (a wrapper is exempt only when it is itself immutable): it adds the pseudo
    name IMMUTABLE_WRAPPER to the tuple.  Any other isinstance call: None (fail closed)."""
    found, single = [], []
    for n in ast.walk(fn):
        if isinstance(n, ast.Call) and isinstance(n.func, ast.Name) and n.func.id == "isinstance" and len(n.args) == 2:
            if isinstance(n.args[1], ast.Tuple):
                found.append((n, [ast.unparse(e) for e in n.args[1].elts]))
            else:
                single.append(n)
    if len(found) != 1:
        return None
    call, names = found[0]
    if not single:
        return names
    if len(single) != 1 or not isinstance(call.args[0], ast.Name):
        return None
    val = call.args[0].id
    # the conjunction that holds both tests
    for n in ast.walk(fn):
        if isinstance(n, ast.BoolOp) and isinstance(n.op, ast.And):
            has_tuple = any(isinstance(e, ast.UnaryOp) and isinstance(e.op, ast.Not) and e.operand is call for e in n.values)
            wrapper = [e for e in n.values if isinstance(e, ast.UnaryOp) and isinstance(e.op, ast.Not)
                       and isinstance(e.operand, ast.BoolOp) and isinstance(e.operand.op, ast.And)
                       and len(e.operand.values) == 2 and e.operand.values[0] is single[0]
                       and ast.unparse(single[0]) == "isinstance(%s, ImmutableMixin)" % val
                       and ast.unparse(e.operand.values[1]) == "%s._is_immutable()" % val]
            if has_tuple and len(wrapper) == 1:
                return names + [IMMUTABLE_WRAPPER]
    return None


def _has_deepcopy(fn):
    return any(isinstance(n, ast.Call) and isinstance(n.func, ast.Name) and n.func.id == "deepcopy"
               for n in ast.walk(fn))


def c04_struct_facts():
    path = os.path.join(core.REPO, "typedpy", "structures", "structures.py")
    tree = ast.parse(open(path).read())
    facts = {}
    sites = {"get": ("Field", "__get__"), "set": ("Field", "__set__"), "setattr": ("Structure", "__setattr__"),
             "mixin": ("ImmutableMixin", "_get_defensive_copy_if_needed")}
    for key, (c, f) in sites.items():
        fn = _func_node(tree, c, f)
        tup = _isinstance_tuple(fn) if fn is not None else None
        if tup is None:
            # fail closed: an unknown tuple lets everything through uncopied
            facts["types_" + key] = ["<unrecognised>", "list", "dict", "set", "deque", "Structure", "tuple", "frozenset"]
            facts["deepcopies_" + key] = False
        else:
            facts["types_" + key] = tup
            facts["deepcopies_" + key] = _has_deepcopy(fn)
    # Field.__get__: is the field's own flag honoured when an instance is given?
    fn = _func_node(tree, "Field", "__get__")
    honours = False
    for n in ast.walk(fn):
        if isinstance(n, ast.Assign) and len(n.targets) == 1 and isinstance(n.targets[0], ast.Name) \
                and n.targets[0].id == "is_immutable":
            v = n.value
            if isinstance(v, ast.IfExp):
                honours = _mentions(v.body, {"self"}) and _mentions(v.body, {"instance"})
            else:
                honours = _mentions(v, {"self"}) and _mentions(v, {"instance"})
    facts["field_get_honours_field_flag"] = honours
    fn = _func_node(tree, "Structure", "__delitem__")
    facts["delitem_guarded"] = bool(fn is not None and _mentions(fn, {"IS_IMMUTABLE", "_immutable", "_raise_if_immutable"})
                                    and any(isinstance(n, ast.Raise) for n in ast.walk(fn)))
    # final-violation check
    fv = None
    for n in ast.walk(tree):
        if isinstance(n, ast.FunctionDef) and n.name == "_check_for_final_violations":
            fv = n
    sealed, strict, skips_first = [], False, False
    if fv is not None:
        for n in ast.walk(fv):
            if isinstance(n, ast.Call) and isinstance(n.func, ast.Name) and n.func.id == "is_sub_class" \
                    and len(n.args) == 2 and isinstance(n.args[1], ast.Name):
                # must be the test of an `if` whose body raises
                sealed.append(n.args[1].id)
            if isinstance(n, ast.FunctionDef) and n.name == "is_sub_class":
                r = [x for x in n.body if isinstance(x, ast.Return)]
                strict = bool(r and isinstance(r[0].value, ast.BoolOp) and isinstance(r[0].value.op, ast.And)
                              and any(isinstance(v, ast.Compare) and isinstance(v.ops[0], ast.NotEq)
                                      for v in r[0].value.values))
            if isinstance(n, ast.Assign) and isinstance(n.targets[0], ast.Tuple) \
                    and any(isinstance(e, ast.Starred) for e in n.targets[0].elts):
                skips_first = True
        raising_ifs = 0
        for n in ast.walk(fv):
            if isinstance(n, ast.If) and any(isinstance(x, ast.Raise) for x in n.body) \
                    and any(isinstance(c, ast.Call) and isinstance(c.func, ast.Name) and c.func.id == "is_sub_class"
                            for c in ast.walk(n.test)):
                raising_ifs += 1
        if raising_ifs != len(sealed):
            sealed = []          # fail closed
    facts["final_sealed"] = sorted(set(sealed))
    facts["final_strict"] = strict
    facts["final_skips_first"] = skips_first
    called = []
    for meta in ("FieldMeta", "StructMeta"):
        fn = _func_node(tree, meta, "__new__")
        if fn is not None and any(isinstance(c.func, ast.Name) and c.func.id == "_check_for_final_violations"
                                  and len(c.args) == 1 and ast.unparse(c.args[0]).endswith(".mro()")
                                  for c in _calls(fn)):
            called.append(meta)
    facts["final_called_by"] = called
    # _DictStruct.__init__ / _ListStruct.__init__ / _DequeStruct.__init__: defensive copy of the incoming container?
    tree2 = ast.parse(open(os.path.join(core.REPO, "typedpy", "fields", "collections_impl.py")).read())
    for kind, _, wname in WRAPPERS:
        fn = _func_node(tree2, wname, "__init__")
        facts["init_copies_" + kind] = bool(fn is not None and any(_is_defcopy_call(c) for c in _calls(fn)))
    # Map sets _custom_deep_copy_implementation (Field.__set__ then skips its deepcopy)
    tree3 = ast.parse(open(os.path.join(core.REPO, "typedpy", "fields", "map_field.py")).read())
    facts["map_custom_deepcopy"] = _mentions(tree3, {"_custom_deep_copy_implementation"})
    facts.update(c04_dynamic_facts())
    return facts


def c04_dynamic_facts():
    """Two facts about object identity / pickling that are not syntactic: read off the running library
    on a canonical two-line class (fail closed on any error)."""
    out = {"nested_wrapper_bound": False, "unpickle_keeps_instantiated": False}
    try:
        import pickle
        from typedpy import ImmutableStructure, Array, Integer
        ns = {"ImmutableStructure": ImmutableStructure, "Array": Array, "Integer": Integer}
        exec("class GenProbeC04(ImmutableStructure):\n    aa = Array[Array[Integer]]\n", ns)
        x = ns["GenProbeC04"](aa=[[1]])
        inner = list.__getitem__(x.__dict__["aa"], 0)
        out["nested_wrapper_bound"] = getattr(inner, "_instance", None) is x
        me = sys.modules[__name__]
        me.GenProbeC04 = ns["GenProbeC04"]
        ns["GenProbeC04"].__module__ = __name__
        y = pickle.loads(pickle.dumps(x))
        out["unpickle_keeps_instantiated"] = bool(y.__dict__.get("_instantiated", False))
    except Exception:  # noqa
        pass
    return out


def render_c04(t, facts):
    lines = ["", "(* ---- C04 additions ---- *)"]
    for kind in ("list", "deque", "dict"):
        lines.append("Definition %s_inplace_also : list pystr := %s." % (kind, E.lst([E.pstr(m) for m in t["inplace"][kind]])))
    lines.append("")
    for kind in ("list", "deque", "dict"):
        rows = ["(%s, (%s, %s))" % (E.pstr(n), sh, rk) for n, sh, rk in t["acc"][kind]]
        lines.append("Definition %s_accessors : accessor_table :=\n  [ %s ]." % (kind, ";\n    ".join(rows)))
        lines.append("")
    for kind, _ in BASES:
        rows = ["(%s, %s)" % (E.pstr(n), rk) for n, rk in t["base_acc"][kind]]
        lines.append("Definition base_%s_accessors : list (pystr * retkind) :=\n  [ %s ]." % (kind, ";\n    ".join(rows)))
        lines.append("")
    for key in ("get", "set", "setattr", "mixin"):
        lines.append("Definition immutable_types_%s : list pystr := %s." % (key, E.lst([E.pstr(x) for x in facts["types_" + key]])))
        lines.append("Definition deepcopies_%s : bool := %s." % (key, E.blit(facts["deepcopies_" + key])))
    for key in ("field_get_honours_field_flag", "delitem_guarded", "unpickle_keeps_instantiated", "nested_wrapper_bound",
                "init_copies_list", "init_copies_deque", "init_copies_dict", "map_custom_deepcopy",
                "final_strict", "final_skips_first"):
        lines.append("Definition %s : bool := %s." % (key, E.blit(facts[key])))
    lines.append("Definition final_sealed : list pystr := %s." % E.lst([E.pstr(x) for x in facts["final_sealed"]]))
    lines.append("Definition final_called_by : list pystr := %s." % E.lst([E.pstr(x) for x in facts["final_called_by"]]))
    return "\n".join(lines) + "\n"


_cache = {}


def render(t, facts):
    lines = ["(* GENERATED by harness/genmods/c04tables.py from /repo/typedpy (collections_impl.py, structures.py,",
             "   map_field.py) and the running CPython (%s). Do not edit. *)" % sys.version.split()[0],
             "From Coq Require Import List String. Import ListNotations.",
             "From TP Require Import Base.PyVal Struct.Shapes.", "Local Open Scope string_scope.", ""]
    return "\n".join(lines) + render_c04(t, facts)


def regenerate():
    path = os.path.join(core.COQDIR, "theories", "Gen", "TablesC04.v")
    try:
        c4 = c04_tables()
        facts = c04_struct_facts()
        text = render(c4, facts)
        _cache["c04"] = (c4, facts)
    except Exception as e:  # noqa  -- fail closed: the C04 development does not build without these definitions
        text = "(* C04 tables could not be generated: %s *)\n" % str(e).replace("*)", "* )")
    core.write_if_changed(path, text)
